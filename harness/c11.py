"""C11 — PEPS gates and their application act exactly as the dense operators.

 (1) exact part, decided by TLC (TracePeps.tla / PepsOps.tla on top of Fock.tla): finite PEPS built from product states (pure, one-dimensional
     ancillas, full purifications) by random sequences of INTEGER gates - local, nearest-neighbour in both orientations and every bond
     direction (cylinders for the boundary-crossing bonds), two-site gates along longer paths (fill_eye_in_gate) and multi-site MPO gates along
     arbitrary site paths; after every apply_gate_ the vector returned by to_tensor() must be EXACTLY ApplyOp(gate, previous vector) on the Fock
     space with Jordan-Wigner signs from Fock!ApplyWord; sums of PEPS must be the sums of the vectors; DoublePepsTensor.tensordot must equal
     tensordot of fuse_layers() entry by entry.
 (2) measured part: every predefined gate (hopping, Ising, Heisenberg, t-J, Coulomb, occupation, field, gate_nn_exp / gate_local_exp) as a dense
     matrix vs scipy.linalg.expm(-step H) for random real / imaginary / complex parameters; H is a combination of basis matrices that are
     validated entry by entry against Fock!Matrix by TLC ('basis' events).
"""
from __future__ import annotations
import random
import numpy as np
from concurrent.futures import ProcessPoolExecutor
from vlib import Report, validate_traces, tlc_ok, Machinery
import pepsx


def fidx(order, site):
    return order.index(site)


def nn_paths(g, length, rng):
    """ a path of `length` distinct sites, consecutive ones nearest neighbours (any direction, also backwards in the fermionic order) """
    sites = list(g.sites())
    for _ in range(200):
        p = [rng.choice(sites)]
        while len(p) < length:
            nb = [g.nn_site(p[-1], d) for d in 'tlbr']
            nb = [s for s in nb if s is not None and s not in p]
            if not nb:
                break
            p.append(rng.choice(nb))
        if len(p) == length:
            return p
    return None


def run(args):
    try:
        return run_inner(args)
    except Machinery as ex:
        return [{'op': 'machinery', 'what': str(ex)}]


def run_inner(args):
    import yastn
    import yastn.tn.fpeps as fpeps
    import yastn.tn.mps as mps
    from yastn import YastnError
    fi, seed, ngates = args[:3]
    focus = args[3] if len(args) > 3 else None       # 'chain': circuits of genuine multi-site fermionic MPO gates (hopping chains along paths) on states with ancillas
    rng = random.Random(seed)
    fam = pepsx.Family(*pepsx.FAMILIES[fi])
    nm = fam.nm
    maxsites = 6 if nm == 1 else 4
    boundary, dims = rng.choice(pepsx.lattices(fpeps, maxsites))
    g = fpeps.SquareLattice(dims=dims, boundary=boundary)
    order = list(g.sites())
    N = len(order)
    for a in range(N - 1):
        if not g.f_ordered(order[a], order[a + 1]):
            raise Machinery('sites() is not in fermionic order')
    tag = '%s/%s %s%s seed=%d' % (fam.kind, fam.sym, boundary, dims, seed)
    # ---- initial product state ----
    mode = rng.choice(('proj', 'proj', 'pure', 'purif')) if focus != 'chain' else rng.choice(('purif', 'purif', 'proj', 'pure'))
    if mode == 'purif' and (2 ** nm) ** (2 * N) > 300:
        mode = 'proj'            # a full purification has (2^nm)^(2N) amplitudes: kept to what TLC multiplies in seconds
    vecs = {}
    for s in order:
        occ = rng.choice(fam.occs)
        if mode == 'proj':
            vecs[s] = fam.projector(occ)
        elif mode == 'pure':
            P = fam.projector(occ)
            # the column of the projector: a 1-leg vector in the occupation state `occ`
            v = None
            for t in P.get_blocks_charge():
                blk = np.asarray(P[t])
                j = int(np.argmax(np.abs(np.diag(blk)))) if blk.size else 0
                if blk.size and abs(blk[j, j]) > 0:
                    v = yastn.Tensor(config=fam.config, s=(1,), n=t[:fam.nsym])
                    col = np.zeros(blk.shape[0])
                    col[j] = 1
                    v.set_block(ts=(t[:fam.nsym],), Ds=(blk.shape[0],), val=col)
            if v is None:
                raise Machinery('no basis vector for occupation %s' % (occ,))
            vecs[s] = v
        else:
            vecs[s] = fam.named['I']           # infinite-temperature purification
    psi = fpeps.product_peps(g, vecs)
    ev = []
    ent, integral = pepsx.state_entries(fam, psi, order)
    ev.append({'op': 'init', 'what': tag + ' init ' + mode, 'dst': 0, 'ent': ent, 'integral': integral})
    cur = 0
    others = []          # (register id, Peps) for additions
    for step in range(ngates):
        kind = rng.choice(('nn', 'nn', 'nn', 'nn_svd', 'local', 'mpo', 'long', 'sum')) if focus != 'chain' else rng.choice(('nn', 'mpo', 'mpo', 'nn_svd'))
        if focus != 'chain' and step == 0 and rng.random() < 0.35:
            kind = 'long'        # while the sites still carry different single sectors (product state)
        before = psi.copy()
        what = '%s step %d %s' % (tag, step, kind)
        e = None
        try:
            if kind in ('nn', 'nn_svd'):
                bond = rng.choice(list(g.bonds()))
                s0, s1 = (bond.site0, bond.site1) if rng.random() < 0.5 else (bond.site1, bond.site0)
                Gnn, _ = pepsx.two_site_operator(fam, rng)
                if kind == 'nn':
                    G0, G1 = pepsx.split_exact(Gnn)
                    gate = fpeps.gates.Gate(G=(G0, G1), sites=(s0, s1))
                else:
                    gate = fpeps.gates.decompose_nn_gate(Gnn, bond=(s0, s1))
                units = pepsx.operator_units(fam, Gnn, 2)
                gmap = [fidx(order, s0) * nm + a + 1 for a in range(nm)] + [fidx(order, s1) * nm + a + 1 for a in range(nm)]
                what += ' sites=%s,%s dirn=%s f_ordered=%s' % (tuple(s0), tuple(s1), g.nn_bond_dirn(s0, s1), g.f_ordered(s0, s1))
                e = {'op': 'apply', 'kind': 'units', 'gate': units, 'map': gmap}
            elif kind == 'local':
                s0 = rng.choice(order)
                names = rng.sample(fam.local, rng.randint(1, min(3, len(fam.local))))
                G = None
                for nme in names:
                    c = rng.choice(pepsx.COEFS)
                    G = c * fam.named[nme] if G is None else G + c * fam.named[nme]
                gate = fpeps.gates.Gate(G=(G,), sites=(s0,))
                units = pepsx.operator_units(fam, G, 1)
                gmap = [fidx(order, s0) * nm + a + 1 for a in range(nm)]
                what += ' site=%s' % (tuple(s0),)
                e = {'op': 'apply', 'kind': 'units', 'gate': units, 'map': gmap}
            elif kind == 'long':
                L = rng.choice((3, 4, 4, 5))
                path = nn_paths(g, min(L, N), rng) or nn_paths(g, min(3, N), rng)
                if path is None or len(path) < 3:
                    continue
                Gnn, _ = pepsx.two_site_operator(fam, rng)
                G0, G1 = pepsx.split_exact(Gnn)
                gate = fpeps.gates.Gate(G=(G0, G1), sites=tuple(path))
                units = pepsx.operator_units(fam, Gnn, 2)
                gmap = [fidx(order, path[0]) * nm + a + 1 for a in range(nm)] + [fidx(order, path[-1]) * nm + a + 1 for a in range(nm)]
                what += ' path=%s' % ([tuple(s) for s in path],)
                e = {'op': 'apply', 'kind': 'units', 'gate': units, 'map': gmap}
            elif kind == 'mpo':
                L = rng.choice((2, 3, 3, 4))
                path = nn_paths(g, min(L, N), rng)
                if path is None or len(path) < 2:
                    continue
                if focus == 'chain':
                    path = nn_paths(g, min(rng.choice((3, 3, 4)), N), rng) or path
                L = len(path)
                I = mps.product_mpo(fam.named['I'], L)
                terms, tl = [], []
                # 'chain': a * 1 + sum_i (b_i A_i B_{i+1}) with A, B odd operators on CONSECUTIVE positions: the middle tensors of the MPO are genuine operators whose two
                # virtual legs carry different parities (an identity filled in between two ends never does that)
                odd = [pr for pr in fam.pairs if pr[0][0] == 'c' and pr[1][0] == 'c']
                plan = [(rng.choice(fam.pairs), rng.sample(range(L), 2)) for _ in range(rng.randint(1, 3))] if focus != 'chain' or not odd else \
                       [(('I', 'I'), [0, 1])] + [(rng.choice(odd), [i, i + 1] if rng.random() < 0.8 else [i + 1, i]) for i in range(L - 1) if rng.random() < 0.85]
                for (a, b), (p0, p1) in plan:
                    c = rng.choice([x for x in pepsx.COEFS])
                    if a == 'I' and b == 'I':
                        terms.append(mps.Hterm(c, (), ()))
                        tl.append({'amp': [int(np.real(c)), int(np.imag(c))], 'ops': [], 'pos': []})
                        continue
                    pos = [p for p, nme in ((p0, a), (p1, b)) if nme != 'I']
                    nms = [nme for nme in (a, b) if nme != 'I']
                    terms.append(mps.Hterm(c, tuple(pos), tuple(fam.named[x] for x in nms)))
                    tl.append({'amp': [int(np.real(c)), int(np.imag(c))], 'ops': nms, 'pos': [fidx(order, path[p]) for p in pos]})
                H = mps.generate_mpo(I, terms)
                gate = fpeps.gates.Gate(G=H, sites=tuple(path))
                what += ' path=%s terms=%s' % ([tuple(s) for s in path], [(t['amp'], t['ops'], t['pos']) for t in tl])
                e = {'op': 'apply', 'kind': 'terms', 'terms': tl}
            else:   # sum of PEPS
                if not others:
                    others.append((cur, psi.copy()))
                    continue
                rid, phi = rng.choice(others)
                ca, cb = rng.choice((1, 2, -1)), rng.choice((1, -1, 3))
                try:
                    new = fpeps.add(psi, phi, amplitudes=[ca, cb])
                    if max(max(new[s].get_shape()[:4]) for s in g.sites()) > 32:
                        continue         # same cap as for gates: sums add the bond dimensions, to_tensor() of the result would not fit
                    ent, integral = pepsx.state_entries(fam, new, order)
                except YastnError as ex:
                    # documented: states with different structure of ancilla offsets cannot be added
                    continue
                ev.append({'op': 'sum', 'what': what, 'a': cur, 'b': rid, 'ca': [ca, 0], 'cb': [cb, 0], 'dst': cur + 1, 'ent': ent, 'integral': integral})
                psi = new
                cur += 1
                continue
            psi.apply_gate_(gate)
            if max(max(psi[s].get_shape()[:4]) for s in g.sites()) > 32:
                # exact splits multiply the bond dimension by the operator-space dimension at every gate: to_tensor() of such a state needs gigabytes
                psi = before
                continue
            ent, integral = pepsx.state_entries(fam, psi, order)
        except YastnError as ex:
            ev.append({'op': 'verdict', 'what': what + ' raised YastnError: ' + str(ex)[:80], 'verdicts': {'gate_applied': False}})
            psi = before
            continue
        if not ent:
            # the gate annihilated the state: keep going from the previous one (a zero vector has no charge structure to test)
            e.update({'what': what, 'src': cur, 'dst': cur + 1000, 'nm': nm, 'gr': fam.gr, 'ent': [], 'integral': integral})
            ev.append(e)
            psi = before
            continue
        e.update({'what': what, 'src': cur, 'dst': cur + 1, 'nm': nm, 'gr': fam.gr, 'ent': ent, 'integral': integral})
        ev.append(e)
        cur += 1
        if rng.random() < 0.3:
            others.append((cur, psi.copy()))
    return ev


def dpt_events(args):
    """ DoublePepsTensor.tensordot vs tensordot(fuse_layers()) on integer tensors """
    import yastn
    import yastn.tn.fpeps as fpeps
    from yastn.tn.fpeps._doublePepsTensor import DoublePepsTensor, _allowed_transpose
    fi, seed = args
    rng = random.Random(seed)
    fam = pepsx.Family(*pepsx.FAMILIES[fi])
    cfg = fam.config
    out = []
    sp = fam.ops.space()

    def vleg(s):
        if fam.sym == 'dense':
            return yastn.Leg(cfg, s=s, D=(rng.randint(1, 2),))
        ts = sorted(rng.sample([tuple(t) for t in sp.t] + [tuple(cfg.sym.zero())], 1 + (rng.random() < 0.5)))
        ts = sorted(set(ts))
        return yastn.Leg(cfg, s=s, t=ts, D=[rng.randint(1, 2) for _ in ts])

    def irand(legs, n=None):
        T = yastn.rand(config=cfg, legs=legs, n=n)
        T._data[:] = np.round(T._data * 3)
        return T
    for rep in range(4):
        legs = [vleg(-1), vleg(1), vleg(1), vleg(-1), sp]
        try:
            ket = irand(legs, n=cfg.sym.zero())
            bra = ket if rng.random() < 0.4 else irand(legs, n=cfg.sym.zero())
        except Exception:
            continue
        if ket.size == 0 or bra.size == 0:
            continue
        trans = rng.choice(_allowed_transpose)
        D = DoublePepsTensor(bra=bra, ket=ket, trans=trans)
        opn = None
        if rng.random() < 0.5:
            opn = rng.choice([k for k in fam.named if k != 'I'])
            try:
                D.set_operator_(fam.named[opn])
            except Exception as ex:
                out.append({'op': 'verdict', 'what': 'DoublePepsTensor.set_operator_(%s) raised %s' % (opn, type(ex).__name__), 'verdicts': {'set_operator': False}})
                continue
        if rng.random() < 0.4 and cfg.fermionic:
            ch = tuple(rng.choice([tuple(t) for t in sp.t]))
            D.add_charge_swaps_(ch, axes=rng.sample(['b0', 'b1', 'b2', 'b3', 'k0', 'k1', 'k2', 'k3', 'k4'], rng.randint(1, 3)))
        what = 'DoublePepsTensor %s/%s seed=%d rep=%d trans=%s op=%s swaps=%s' % (fam.kind, fam.sym, seed, rep, trans, opn, dict(D.swaps))
        try:
            Fz = D.fuse_layers()
        except Exception as ex:
            out.append({'op': 'verdict', 'what': what + ' fuse_layers raised %s' % type(ex).__name__, 'verdicts': {'fuse_layers': False}})
            continue
        fl = Fz.get_legs()
        for a0, a1 in ((0, 1), (1, 2), (2, 3), (3, 0), (1, 0), (3, 2)):
            for reverse in (False, True):
                extra = vleg(rng.choice((-1, 1)))
                try:
                    b = irand([fl[a0].conj(), fl[a1].conj(), extra], n=None)
                except Exception:
                    continue
                if b.size == 0:
                    continue
                perm = rng.choice(((0, 1, 2), (2, 0, 1), (1, 2, 0)))
                b = b.transpose(axes=perm)
                ib = (perm.index(0), perm.index(1))
                axes = ((a0, a1), ib) if not reverse else (ib, (a0, a1))
                w2 = what + ' axes=%s reverse=%s' % (axes, reverse)
                try:
                    r1 = D.tensordot(b, axes=axes, reverse=reverse)
                    r2 = yastn.tensordot(Fz, b, axes=axes) if not reverse else yastn.tensordot(b, Fz, axes=axes)
                except Exception as ex:
                    out.append({'op': 'verdict', 'what': w2 + ' raised %s: %s' % (type(ex).__name__, str(ex)[:60]), 'verdicts': {'contracts': False}})
                    continue
                # sectors that hold only zero blocks are representation: compare on the union of the legs
                same_legs = True
                try:
                    lg = {k: yastn.legs_union(la, lb) for k, (la, lb) in enumerate(zip(r1.get_legs(), r2.get_legs()))} if (r1.size or r2.size) else None
                except Exception as ex:
                    lg, same_legs = None, False
                    w2 += ' leg_union raised %s: %s' % (type(ex).__name__, str(ex)[:80])
                try:
                    d1 = r1.to_numpy(legs=lg) if lg else np.zeros(0)
                    d2 = r2.to_numpy(legs=lg) if lg else np.zeros(0)
                except Exception:
                    out.append({'op': 'verdict', 'what': w2 + ' results have incompatible legs', 'verdicts': {'same_legs': False}})
                    continue
                x = [[list(map(int, idx)), 0, int(round(float(np.real(d1[idx]))))] for idx in zip(*np.nonzero(d1))]
                y = [[list(map(int, idx)), 0, int(round(float(np.real(d2[idx]))))] for idx in zip(*np.nonzero(d2))]
                out.append({'op': 'same', 'what': w2, 'x': x, 'y': y, 'integral': bool(same_legs)})
    return out


def gate_events(args):
    """ predefined gates vs expm(-step H): measured verdicts, with the basis matrices validated by TLC """
    import yastn
    import scipy.linalg
    import yastn.tn.fpeps as fpeps
    fi, seed = args
    rng = random.Random(seed)
    fam = pepsx.Family(*(pepsx.FAMILIES[fi] if fi >= 0 else pepsx.FAMILIES_TJ[-fi - 1]))
    nm, N2 = fam.nm, 2 * fam.nm
    gates = fpeps.gates
    out = []
    nd = named = fam.named
    # dense matrix of a word on two sites, in the basis of occupation sets (python reference = Fock!Matrix, checked by the 'basis' events)
    sets = [frozenset(s) for r in range(N2 + 1) for s in __import__('itertools').combinations(range(1, N2 + 1), r)]
    index = {s: k for k, s in enumerate(sets)}
    kindg, ng = fam.gr

    def anti(k, m):
        return kindg == 'all' or (kindg == 'species' and (k - 1) % ng == (m - 1) % ng)

    def apply_el(el, sg, S):
        kind, m = el
        jw = -1 if sum(1 for k in S if k < m and anti(k, m)) % 2 else 1
        if kind == 'c':
            return (sg * jw, S - {m}) if m in S else (0, S)
        if kind == 'cp':
            return (sg * jw, S | {m}) if m not in S else (0, S)
        if kind == 'n':
            return (sg, S) if m in S else (0, S)
        raise Machinery('element')

    LW = {'n': [('n', 1)], 'c': [('c', 1)], 'cp': [('cp', 1)], 'nu': [('n', 1)], 'nd': [('n', 2)], 'cu': [('c', 1)], 'cd': [('c', 2)], 'cpu': [('cp', 1)], 'cpd': [('cp', 2)],
          'Sp': [('cp', 1), ('c', 2)], 'Sm': [('cp', 2), ('c', 1)], 'I': []}

    def word(opsl, pos):
        w = []
        for o, p in zip(opsl, pos):
            w += [(k, p * nm + a) for k, a in LW[o]]
        return w

    def matrix(opsl, pos):
        Mx = np.zeros((len(sets), len(sets)))
        ent = []
        w = word(opsl, pos)
        for S in sets:
            sg, T = 1, set(S)
            for el in reversed(w):
                sg, T = apply_el(el, sg, T)
                if sg == 0:
                    break
            if sg:
                Mx[index[frozenset(T)], index[S]] = sg
                ent.append([sorted(T), sorted(S), sg])
        out.append({'op': 'basis', 'what': 'basis %s/%s %s@%s' % (fam.kind, fam.sym, opsl, pos), 'ops': list(opsl), 'pos': list(pos), 'nm': nm, 'nsites': 2, 'gr': fam.gr, 'ent': ent})
        return Mx

    def dense_gate(gate):
        """ dense matrix of a Gate in the same basis """
        if len(gate.G) == 1:
            T = yastn.fkron(gate.G[0], named['I'], sites=(0, 1))
        else:
            T = yastn.tensordot(gate.G[0], gate.G[1], axes=(2, 2))
        Mx = np.zeros((len(sets), len(sets)), dtype=complex)
        nsym = fam.nsym
        for t in T.get_blocks_charge():
            blk = np.asarray(T[t])
            ts = [tuple(t[k * nsym:(k + 1) * nsym]) for k in range(4)]
            for idx in zip(*np.nonzero(blk)):
                outm, inm = [], []
                for k in range(2):
                    oo = fam.locc[(ts[2 * k], int(idx[2 * k]))]
                    ii = fam.locc[(ts[2 * k + 1], int(idx[2 * k + 1]))]
                    outm += [k * nm + a + 1 for a in range(nm) if oo[a]]
                    inm += [k * nm + a + 1 for a in range(nm) if ii[a]]
                Mx[index[frozenset(outm)], index[frozenset(inm)]] = blk[idx]
        return Mx

    def par():
        return rng.choice((0.0, 0.3, -0.7, 1.1, 2.0)) if rng.random() < 0.8 else rng.choice((0.5 + 0.2j, -0.3j))

    def step():
        return rng.choice((0.05, 0.3, 1.0, 0.2j, -0.5j, 0.1 + 0.3j, -0.4))

    def check(name, gate, H, st, params, proj=None):
        Gd = dense_gate(gate)
        ref = scipy.linalg.expm(-st * H) if proj is None else proj @ scipy.linalg.expm(-st * (proj @ H @ proj)) @ proj     # proj: H and the gate live on a subspace (t-J)
        err = float(np.linalg.norm(Gd - ref))
        out.append({'op': 'verdict', 'what': 'gate %s %s/%s params=%s step=%s err=%.2e' % (name, fam.kind, fam.sym, params, st, err),
                    'verdicts': {'gate_equals_expm': bool(err <= 1e-10 * max(1.0, float(np.linalg.norm(ref))))}})
    I = named['I']
    for rep in range(3):
        st = step()
        if fam.kind == 'spinless':
            t, mu = par(), par()
            H = -t * (matrix(['cp', 'c'], [0, 1]) + matrix(['cp', 'c'], [1, 0]))
            check('nn_hopping', gates.gate_nn_hopping(t, st, I, named['c'], named['cp']), H, st, (t,))
            check('local_occupation', gates.gate_local_occupation(mu, st, I, named['n']), -mu * matrix(['n'], [0]), st, (mu,))
            Hx = par() * matrix(['n', 'n'], [0, 1]) + par() * matrix(['n'], [1]) - 0.5 * (matrix(['cp', 'c'], [0, 1]) + matrix(['cp', 'c'], [1, 0]))
            Ht = None
            # the same H as a yastn tensor through fkron, exponentiated by gate_nn_exp (Hermitian H only: real coefficients)
            co = [rng.choice((0.4, -1.2, 0.9)) for _ in range(3)]
            Hx = co[0] * matrix(['n', 'n'], [0, 1]) + co[1] * matrix(['n'], [1]) + co[2] * (matrix(['cp', 'c'], [0, 1]) + matrix(['cp', 'c'], [1, 0]))
            Ht = co[0] * yastn.fkron(named['n'], named['n']) + co[1] * yastn.fkron(I, named['n']) + co[2] * (yastn.fkron(named['cp'], named['c'], sites=(0, 1)) + yastn.fkron(named['cp'], named['c'], sites=(1, 0)))
            check('nn_exp', gates.gate_nn_exp(st, I, Ht), Hx, st, tuple(co))
            Hl = co[0] * named['n']
            check('local_exp', gates.gate_local_exp(st, I, Hl), co[0] * matrix(['n'], [0]), st, (co[0],))
        elif fam.kind == 'tJ':
            # the same closed forms with the operators of SpinfulFermions_tJ: H is the projection of the spinful H on the space without doubly occupied sites, where
            # c c+ is NOT 1 - n (c_u c+_u projects on the EMPTY site)
            Pm = np.diag([0.0 if any({k * nm + 1, k * nm + 2} <= S for k in range(2)) else 1.0 for S in sets])
            hop = lambda a, b: matrix([a, b], [0, 1]) + matrix([a, b], [1, 0])
            nn = lambda a, b: matrix([a, b], [0, 1])
            t = par()
            check('nn_hopping_up(tJ)', gates.gate_nn_hopping(t, st, I, named['cu'], named['cpu']), -t * hop('cpu', 'cu'), st, (t,), proj=Pm)
            check('nn_hopping_dn(tJ)', gates.gate_nn_hopping(t, st, I, named['cd'], named['cpd']), -t * hop('cpd', 'cd'), st, (t,), proj=Pm)
            tu, td, J = par(), par(), par()
            mus = [par() for _ in range(4)]
            H = (0.5 * J * (matrix(['Sp', 'Sm'], [0, 1]) + matrix(['Sm', 'Sp'], [0, 1])) - 0.5 * J * (nn('nu', 'nd') + nn('nd', 'nu'))
                 - tu * hop('cpu', 'cu') - td * hop('cpd', 'cd') - mus[0] * matrix(['nu'], [0]) - mus[1] * matrix(['nu'], [1]) - mus[2] * matrix(['nd'], [0]) - mus[3] * matrix(['nd'], [1]))
            if all(abs(np.imag(x)) == 0 for x in [tu, td, J] + mus):
                check('nn_tJ(tJ)', gates.gate_nn_tJ(J, tu, td, mus[0], mus[1], mus[2], mus[3], st, I, named['cu'], named['cpu'], named['cd'], named['cpd']), H, st, (J, tu, td, mus), proj=Pm)
            mu_u = par()
            check('local_occupation_up(tJ)', gates.gate_local_occupation(mu_u, st, I, named['nu']), -mu_u * matrix(['nu'], [0]), st, (mu_u,), proj=Pm)
        elif fam.kind == 'spinful':
            tu, td, J = par(), par(), par()
            mus = [par() for _ in range(4)]
            hop = lambda a, b: matrix([a, b], [0, 1]) + matrix([a, b], [1, 0])
            nn = lambda a, b: matrix([a, b], [0, 1])
            H = (0.5 * J * (matrix(['Sp', 'Sm'], [0, 1]) + matrix(['Sm', 'Sp'], [0, 1])) - 0.5 * J * (nn('nu', 'nd') + nn('nd', 'nu'))
                 - tu * hop('cpu', 'cu') - td * hop('cpd', 'cd') - mus[0] * matrix(['nu'], [0]) - mus[1] * matrix(['nu'], [1]) - mus[2] * matrix(['nd'], [0]) - mus[3] * matrix(['nd'], [1]))
            herm = all(abs(np.imag(x)) == 0 for x in [tu, td, J] + mus)
            if herm:
                check('nn_tJ', gates.gate_nn_tJ(J, tu, td, mus[0], mus[1], mus[2], mus[3], st, I, named['cu'], named['cpu'], named['cd'], named['cpd']), H, st, (J, tu, td, mus))
            t = par()
            check('nn_hopping_up', gates.gate_nn_hopping(t, st, I, named['cu'], named['cpu']), -t * hop('cpu', 'cu'), st, (t,))
            check('nn_hopping_dn', gates.gate_nn_hopping(t, st, I, named['cd'], named['cpd']), -t * hop('cpd', 'cd'), st, (t,))
            mu_u, mu_d, U = par(), par(), par()
            nu_, nd_ = matrix(['nu'], [0]), matrix(['nd'], [0])
            one = np.eye(len(sets))
            Hc = U * (nu_ - one / 2) @ (nd_ - one / 2) - mu_u * nu_ - mu_d * nd_ - U / 4 * one
            check('local_Coulomb', gates.gate_local_Coulomb(mu_u, mu_d, U, st, I, named['nu'], named['nd']), Hc, st, (mu_u, mu_d, U))
            check('local_occupation_up', gates.gate_local_occupation(mu_u, st, I, named['nu']), -mu_u * nu_, st, (mu_u,))
        else:
            Jx, h = par(), par()
            sp0, sm0, sp1, sm1 = matrix(['cp'], [0]), matrix(['c'], [0]), matrix(['cp'], [1]), matrix(['c'], [1])
            n0, n1 = matrix(['n'], [0]), matrix(['n'], [1])
            one = np.eye(len(sets))
            sz0, sz1 = n0 - one / 2, n1 - one / 2
            ops = fam.ops
            if fam.sym in ('dense', 'Z2'):
                X0, X1 = sp0 + sm0, sp1 + sm1
                check('nn_Ising', gates.gate_nn_Ising(Jx, st, I, ops.x()), Jx * X0 @ X1, st, (Jx,))
                if fam.sym == 'dense':      # with Z2 the Pauli X carries charge 1 and cannot be added to the identity
                    check('local_field', gates.gate_local_field(h, st, I, ops.x()), -h * X0, st, (h,))
            J = rng.choice((0.4, -1.2, 0.9, 2.0))
            Hh = J * (sz0 @ sz1 + 0.5 * (sp0 @ sm1 + sm0 @ sp1))
            check('nn_Heisenberg', gates.gate_nn_Heisenberg(J, st, I, ops.sz(), ops.sp(), ops.sm()), Hh, st, (J,))
            check('local_occupation', gates.gate_local_occupation(h, st, I, named['n']), -h * n0, st, (h,))
    return out


def main(tier, seed, replay=None):
    rep = Report('C11', tier, seed, 'model_checking')
    if replay:
        rep.write_evidence = False
    rep.cov['rule'] = ('finite PEPS on obc lattices up to 6 sites (4 for spinful) and cylinders, 8 families (spinless U1/Z2, spinful Z2/U1xU1/U1xU1xZ2, spin-1/2 dense/Z2/U1), product states pure / '
                       'one-dimensional ancillas / full purification, random sequences of integer gates (nn exact split and SVD split, both orientations, every bond; local; two-site along paths; '
                       'MPO gates of 2..4 sites along arbitrary paths; sums of PEPS); DoublePepsTensor with random transposition / operator / charge swaps; predefined gates with random parameters; '
                       'non-trivial = apply / sum event with a non-zero resulting vector, same event with non-zero tensors, gate verdict')
    r = tlc_ok('FockMC', 'FockMC.cfg', workers=4, timeout=600)
    rep.add_tlc('FockMC (CAR on all basis states, 4 modes)', r)
    nF = len(pepsx.FAMILIES)
    n, ng = (96, 5) if tier == 'quick' else (1200, 7)
    jobs = [(i % nF, seed * 1000033 + i, ng) for i in range(n)]
    fermi = [k for k in range(nF) if pepsx.FAMILIES[k][0] != 'spin']
    jobs += [(fermi[i % len(fermi)], seed * 1000041 + i, 4, 'chain') for i in range(60 if tier == 'quick' else 600)]
    djobs = [(i % nF, seed * 1000037 + i) for i in range(16 if tier == 'quick' else 200)]
    gjobs = [(i % nF, seed * 1000039 + i) for i in range(nF * (1 if tier == 'quick' else 12))]
    gjobs += [(-1 - (i % 3), seed * 1000043 + i) for i in range(3 * (1 if tier == 'quick' else 12))]       # predefined gates with the t-J operators
    with ProcessPoolExecutor(max_workers=14) as ex:
        circuits = list(ex.map(run, jobs, chunksize=2))
        dpts = list(ex.map(dpt_events, djobs, chunksize=2))
        gts = list(ex.map(gate_events, gjobs, chunksize=1))
    traces = [{'ev': c} for c in circuits if c] + [{'ev': d[i:i + 40]} for d in dpts for i in range(0, len(d), 40)] + [{'ev': gt[i:i + 60]} for gt in gts for i in range(0, len(gt), 60)]
    evs = [e for t in traces for e in t['ev']]
    mach = [e for e in evs if e['op'] == 'machinery']
    if mach:
        raise Machinery(mach[0]['what'])
    acc, diag, res = validate_traces('TracePeps', 'TracePeps.cfg', traces, shards=16, timeout=3000, mem='4g')
    if not replay:
        from vlib import negative_controls
        def c_apply(e):
            if e['op'] == 'apply' and e['ent']:
                e['ent'][0][2] += 1
                return True
        def c_same(e):
            if e['op'] == 'same' and e['x']:
                e['x'][0][2] += 1
                return True
        rep.cov['parts']['negative_controls_rejected'] = negative_controls('TracePeps', 'TracePeps.cfg', traces, [('amplitude after a gate + 1', c_apply), ('DoublePepsTensor entry + 1', c_same)], timeout=900, mem='4g')
    for t, rj in zip(traces, validate_traces.last_rejects):
        for l, why in rj[:2]:
            e = t['ev'][l - 1]
            rep.violation('%s:%s' % (e['op'], e['what']), '%s (%s): %s' % (e['op'], e['what'], why[:700]), {'op': e['op'], 'what': e['what'], 'trace': t['ev'][:l]})
    if any((not a) and not rj for a, rj in zip(acc, validate_traces.last_rejects)):
        raise Machinery('C11 trace neither accepted nor rejected')
    rep.cov['states'] += sum(x.distinct for x in res)
    rep.cov['transitions'] += sum(x.generated for x in res)
    rep.cov['traces_validated_against_impl'] = len(traces)
    rep.cov['evaluations'] = len(evs)
    ap = [e for e in evs if e['op'] == 'apply']
    rep.cov['distinct_nontrivial'] = sum(1 for e in evs if e['op'] in ('apply', 'sum') and e['ent']) + sum(1 for e in evs if e['op'] == 'same' and e['x']) + sum(1 for e in evs if e['op'] == 'verdict' and 'gate_equals_expm' in e['verdicts'])
    def cnt(sub):
        return sum(1 for e in ap if sub in e['what'])
    rep.cov['parts'].update({'circuits': len(circuits), 'gate_applications': len(ap), 'nn_exact_split': cnt(' nn sites'), 'nn_svd_split': cnt(' nn_svd '), 'local': cnt(' local '), 'long_two_site': cnt(' long '),
                             'mpo_gates': cnt(' mpo '), 'against_fermionic_order': cnt('f_ordered=False'), 'cylinder': sum(1 for e in ap if 'cylinder' in e['what']),
                             'directions': {d: cnt('dirn=' + d) for d in ('lr', 'rl', 'tb', 'bt')}, 'purification_circuits': sum(1 for c in circuits if c and 'purif' in c[0]['what']),
                             'sums': sum(1 for e in evs if e['op'] == 'sum'), 'annihilated': sum(1 for e in ap if not e['ent']),
                             'double_peps_tensor_contractions': sum(1 for e in evs if e['op'] == 'same'), 'predefined_gate_checks': sum(1 for e in evs if e['op'] == 'verdict' and 'gate_equals_expm' in e['verdicts']),
                             'basis_matrices_validated': sum(1 for e in evs if e['op'] == 'basis'), 'gate_raised': sum(1 for e in evs if e['op'] == 'verdict' and 'gate_applied' in e['verdicts'])})
    rep.sample({k: v for k, v in ap[0].items()} if ap else None)
    rep.assumptions += ['the predefined-gate comparison with scipy.linalg.expm is a floating-point observation (1e-10 relative); the basis matrices of its Hamiltonians are validated exactly by TLC',
                        'local gates are parity-even; a gate that annihilates the state ends the comparison at that step (the circuit continues from the previous state)',
                        'amplitudes are Gaussian integers below 2^30; gates split by SVD (decompose_nn_gate) are compared after rounding within 1e-8 (flag integral)']
    return rep.finish()
