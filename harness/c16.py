"""C16 — metadata caches are transparent.

 1. LruCache.tla: TLC explores all histories (calls from two sites, clear, resize with import-time aliases) to a depth; invariants:
    size, entries never altered, transparency (result = F(key)).
 2. I->S without source change: every functools.lru_cache binding in yastn.tensor.* globals is replaced by a recording proxy around
    the SAME wrapper; each call logs instance, key digest (up to Python key equality), hit/miss (cache_info delta), digest of the
    returned value and of an uncached recomputation (__wrapped__).  TraceLruCache.tla validates the event sequence.
 3. Hyper-trace: the same program is run with caches warm, cold (maxsize 0), size one, and with clear_cache()/set_cache_maxsize()
    at arbitrary points; all registers must be bit-identical.  Programs are replayed, IN ONE PROCESS, under configurations that share
    block layout but differ in symmetry group or fermionic flags (U1/Z2/Z3 on charges {0,1}; U1xU1 with fermionic True,(T,F),(F,T),False).
"""
from __future__ import annotations
import functools
import hashlib
import random
import sys
import numpy as np
from concurrent.futures import ProcessPoolExecutor
from vlib import Report, validate_traces, tlc_ok, Machinery
import tensors as T

WEIGHTS = {'lincomb': 2, 'transpose': 2, 'tensordot': 6, 'trace': 2, 'fuse': 3, 'unfuse': 2, 'vdot': 1.5, 'swap_gate': 4, 'swap_charge': 2,
           'broadcast': 1, 'apply_mask': 1.5, 'add3': 0.5, 'conj': 0.5}


def canon(x, key=False):
    """ canonical nested structure; key=True identifies values that are equal as Python cache keys (True == 1 == 1.0) """
    if x is None:
        return 'N'
    if isinstance(x, (bool, int, float, np.integer, np.floating, np.bool_)):
        if key:      # Python key equality: True == 1 == 1.0, -0.0 == 0
            return 'num:%d' % int(x) if x == int(x) else 'num:%r' % float(x)
        return ('i:%d' % int(x)) if x == int(x) else ('f:%r' % float(x))     # scalars by value (int 0, np.int64(0), -0.0 are the same metadata)
    if isinstance(x, (str, bytes, complex)):
        return '%s:%r' % (type(x).__name__, x)
    if isinstance(x, np.ndarray):
        return 'nd:%s:%s:%s' % (x.dtype, x.shape, hashlib.sha1(np.ascontiguousarray(x).tobytes()).hexdigest())
    if isinstance(x, (tuple, list)):
        return '%s(%s)' % ('T' if key else type(x).__name__, ','.join(canon(y, key) for y in x))
    if isinstance(x, dict):
        return 'D{%s}' % ','.join(sorted('%s=%s' % (canon(k, key), canon(v, key)) for k, v in x.items()))
    if isinstance(x, slice):
        return 'sl(%r,%r,%r)' % (x.start, x.stop, x.step)
    if isinstance(x, type) or callable(x) or type(x).__name__ == 'module':
        return 'obj:%s.%s' % (getattr(x, '__module__', ''), getattr(x, '__qualname__', getattr(x, '__name__', repr(type(x)))))
    return 'repr:%s' % repr(x)


def dig(x, key=False):
    return hashlib.sha1(canon(x, key).encode()).hexdigest()[:16]


class Proxy:
    def __init__(self, w, name, rec):
        self.w, self.name, self.rec = w, name, rec
        self.__wrapped__ = w.__wrapped__
        self.iid = 'i%d' % (len(rec.proxies) + 1)

    def __call__(self, *a, **k):
        i0 = self.w.cache_info()
        ret = self.w(*a, **k)
        i1 = self.w.cache_info()
        dret = dig(ret)                     # digest BEFORE the caller gets a chance to touch the object
        rc = self.w.__wrapped__(*a, **k)
        self.rec.log.append({'ev': 'call', 'inst': self.iid, 'fn': self.name, 'key': dig((a, k), key=True), 'hit': bool(i1.hits > i0.hits),
                             'ret': dret, 'rec': dig(rc), 'max': int(i1.maxsize) if i1.maxsize is not None else 100000})
        return ret

    def cache_clear(self):
        self.w.cache_clear()
        self.rec.log.append({'ev': 'clear', 'inst': self.iid, 'max': int(self.w.cache_info().maxsize or 0)})

    def cache_info(self):
        return self.w.cache_info()


class Recorder:
    def __init__(self):
        self.log = []
        self.proxies = {}      # id(wrapper) -> Proxy

    def install(self):
        """ (re)scan all yastn.tensor modules for lru_cache wrappers and proxy every binding """
        import yastn  # noqa
        for mname, mod in list(sys.modules.items()):
            if not mname.startswith('yastn.tensor') or mod is None:
                continue
            for nm, obj in list(vars(mod).items()):
                if isinstance(obj, functools._lru_cache_wrapper):
                    p = self.proxies.get(id(obj))
                    if p is None:
                        p = Proxy(obj, nm, self)
                        self.proxies[id(obj)] = p
                    setattr(mod, nm, p)

    def uninstall(self):
        for mname, mod in list(sys.modules.items()):
            if not mname.startswith('yastn.tensor') or mod is None:
                continue
            for nm, obj in list(vars(mod).items()):
                if isinstance(obj, Proxy):
                    setattr(mod, nm, obj.w)


def tensor_digest(t):
    return dig((tuple(t.struct), tuple((s.slcs, s.D, s.Dp) for s in t.slices), np.asarray(t._data), t.mfs, tuple(tuple(h) for h in t.hfs), tuple(t.trans), t.isdiag))


POLICIES = ('fuse_to_matrix', 'fuse_contracted', 'no_fusion')


def run_prog(prog, sym, ferm, rule_sym, mode, rng, rec, policy='fuse_to_matrix'):
    """ execute prog under (sym, ferm) with initial blocks chosen by rule_sym; mode in warm/cold/one/chaos; returns list of register digests """
    import yastn
    cfg = T.make_config(sym, ferm, policy=policy)
    if mode == 'cold':
        yastn.set_cache_maxsize(0)
        rec.install()
    elif mode == 'one':
        yastn.set_cache_maxsize(1)
        rec.install()
    regs = []
    for st in prog.inits:
        regs.append(T.build_tensor(cfg, rule_sym, st['s'], st['legs'], st['n'], random.Random(st['dataseed']), density=st['density'], dtype=st['dtype'], isdiag=st['isdiag'], target_sym=sym))
    outs = []
    for op in prog.ops:
        if mode == 'chaos':
            r = rng.random()
            if r < 0.25:
                yastn.clear_cache()
            elif r < 0.35:
                yastn.set_cache_maxsize(rng.choice((0, 1, 2, 1024)))
                rec.install()
        out, res = T.apply_op(op, regs)
        if out == 'ok':
            if op.get('reg', True):
                regs.append(res)
            outs.append(tensor_digest(res))
        elif out == 'num':
            outs.append(dig(complex(res)))
        else:
            if op.get('reg', False):
                regs.append(None)       # the generating execution defined a register here: the numbering stays aligned, later uses report 'operand missing'
            outs.append(out)
    if mode in ('cold', 'one', 'chaos'):
        yastn.set_cache_maxsize(1024)
        rec.install()
    return outs


FAMILIES = [('U1', [('U1', False), ('Z2', False), ('Z3', False), ('Z2', True), ('U1', True)]),
            ('U1xU1', [('U1xU1', True), ('U1xU1', (False, True)), ('U1xU1', (True, False)), ('U1xU1', False), ('Z2xU1', True), ('Z2xU1', (False, True))]),
            ('U1xU1xZ2', [('U1xU1xZ2', (False, False, True)), ('U1xU1xZ2', True), ('U1xU1xZ2', (True, True, False))])]


def family_job(args):
    """ one process = one family of configurations sharing block layouts; all programs of the family run in this process, caches shared """
    fi, seeds, nsteps = args
    rule_sym, cfgs = FAMILIES[fi]
    import yastn  # noqa
    # a pool worker may have run another job before: the model starts from empty caches, so must the process - EVERY instance, also import-time aliases that an earlier
    # set_cache_maxsize() left behind and clear_cache() does not reach (not logged: before the trace starts)
    for mname, mod in list(sys.modules.items()):
        if mname.startswith('yastn.tensor') and mod is not None:
            for obj in list(vars(mod).values()):
                if isinstance(obj, functools._lru_cache_wrapper):
                    obj.cache_clear()
    rec = Recorder()
    rec.install()
    same = []
    rng = random.Random(seeds[0])
    # charges restricted to {0,1} per component so that the same layout is admissible in every group of the family
    saved = T.rand_charge
    T.rand_charge = lambda mod, r, B=1: tuple(r.randrange(2) for _ in mod)
    try:
        import c03
        progs = []
        for seed in seeds:
            progs.append((seed, T.generate(rule_sym, cfgs[0][1], seed, nsteps, WEIGHTS, want_diag=(seed % 3 == 0))[0]))
            # operands fused from legs with different sector content (masks, intersections, unions of fusion records)
            progs.append((seed, c03.scenario_runner((rule_sym, seed, ('S1', 'S2', 'S1')[seed % 3])).prog))
            # contractions over two or three legs at once (several block pairs contribute to one result block: the cached plans of the policies hold lists per block)
            progs.append((seed, c03.scenario_runner((rule_sym, seed, 'S5')).prog))
        modes = ('warm', 'warm2', 'cold', 'one', 'chaos')
        res = {}
        for mode in modes:        # all configurations of the family share the warm caches before any resize happens
            for pi, (seed, prog) in enumerate(progs):
                for sym, ferm in cfgs:
                    # every program runs under ONE tensordot policy in all its cache states (each policy has its own cached metadata functions); the policy rotates over the programs
                    res[(pi, sym, str(ferm), mode)] = run_prog(prog, sym, ferm, rule_sym, 'warm' if mode == 'warm2' else mode, rng, rec, policy=POLICIES[(pi + pi // 3) % 3])
        for pi, (seed, prog) in enumerate(progs):
            for sym, ferm in cfgs:
                for k in range(len(prog.ops)):
                    rec.log.append({'ev': 'same', 'what': 'seed %s %s ferm=%s op %d %s' % (seed, sym, ferm, k, prog.ops[k]['op']), 'modes': list(modes),
                                    'dig': [res[(pi, sym, str(ferm), m)][k] for m in modes]})
    finally:
        T.rand_charge = saved
        rec.uninstall()
    return rec.log


def main(tier, seed, replay=None):
    rep = Report('C16', tier, seed, 'model_checking')
    if replay:
        rep.write_evidence = False
    rep.cov['rule'] = ('every real call of every lru_cache-wrapped metadata function during programs replayed in one process under configurations that share block layout but differ '
                       'in symmetry group / fermionic flags, with caches warm, cold, size one and cleared/resized at arbitrary points; non-trivial = cache call that is a hit, or a '
                       '"same" comparison of a non-empty result across cache states')
    r = tlc_ok('LruCache', 'LruCache.cfg', workers=8, timeout=900)
    rep.add_tlc('LruCache (all histories to depth 7: calls from module and alias sites, clear, resize)', r)
    nprog = 6 if tier == 'quick' else 60
    jobs = [(fi, [seed * 7919 + fi * 1000 + k for k in range(nprog)], 7 if tier == 'quick' else 9) for fi in range(len(FAMILIES))]
    if tier != 'quick':   # split the families into several processes
        jobs = [(fi, [seed * 7919 + fi * 1000 + 100 * c + k for k in range(10)], 9) for fi in range(len(FAMILIES)) for c in range(6)]
    with ProcessPoolExecutor(max_workers=min(14, len(jobs))) as ex:
        logs = list(ex.map(family_job, jobs))
    traces = [{'ev': lg, 'family': FAMILIES[j[0]][0]} for lg, j in zip(logs, jobs)]
    acc, diag, res = validate_traces('TraceLruCache', 'TraceLruCache.cfg', traces, shards=len(traces), timeout=3000, mem='4g')
    for t, rj in zip(traces, validate_traces.last_rejects):
        for l, why in rj[:50]:
            e = t['ev'][l - 1]
            if e['ev'] == 'call':
                clause = why.split(':')[0].strip('<"')[:40]
                rep.violation('cache:%s:%s' % (e['fn'], clause), 'cache call %s (family %s, event %d): %s' % (e['fn'], t['family'], l, why[:300]), {'op': 'cache', 'event': e, 'family': t['family']})
            else:
                rep.violation('same:%s' % e['what'], 'results differ between cache states: %s %s' % (e['what'], list(zip(e['modes'], e['dig']))), {'op': 'same', 'event': e})
    if any((not a) and not rj for a, rj in zip(acc, validate_traces.last_rejects)):
        raise Machinery('cache trace neither accepted nor rejected')
    calls = [e for t in traces for e in t['ev'] if e['ev'] == 'call']
    rep.cov['states'] += sum(x.distinct for x in res)
    rep.cov['transitions'] += sum(x.generated for x in res)
    rep.cov['traces_validated_against_impl'] = len(traces)
    rep.cov['evaluations'] = sum(len(t['ev']) for t in traces)
    rep.cov['distinct_nontrivial'] = sum(1 for e in calls if e['hit']) + sum(1 for t in traces for e in t['ev'] if e['ev'] == 'same')
    fns = {}
    for e in calls:
        f = fns.setdefault(e['fn'], [0, 0])
        f[0] += 1
        f[1] += e['hit']
    rep.cov['parts'].update({'cache_calls': len(calls), 'hits': sum(1 for e in calls if e['hit']), 'calls_and_hits_by_function': fns,
                             'cache_instances_seen': len({e['inst'] for e in calls}), 'clear_events': sum(1 for t in traces for e in t['ev'] if e['ev'] == 'clear'),
                             'same_comparisons': sum(1 for t in traces for e in t['ev'] if e['ev'] == 'same')})
    if len(fns) < 10:
        raise Machinery('vacuous: fewer than 10 cached functions were exercised (%s)' % sorted(fns))
    rep.sample(next(e for e in calls if e['hit']))
    rep.sample(next(e for t in traces for e in t['ev'] if e['ev'] == 'same'))
    # negative control: alter one returned digest of a hit
    import copy
    bad = copy.deepcopy(traces[0])
    k = next(i for i, e in enumerate(bad['ev']) if e['ev'] == 'call' and e['hit'])
    bad['ev'] = bad['ev'][:k + 1]
    bad['ev'][k]['ret'] = 'corrupted'
    a2, _, _ = validate_traces('TraceLruCache', 'TraceLruCache.cfg', [bad], shards=1)
    if a2[0]:
        raise Machinery('negative control: altered cache hit accepted')
    rep.cov['parts']['negative_control'] = 'hit with altered value rejected'
    rep.assumptions += ['keys digested up to Python key equality, values digested strictly (type and bytes)', 'oe_blocksparse path cache not included']
    return rep.finish()
