"""C02 — every produced tensor is well-formed and conserves charge.

The trace spec TraceTensor.tla has WellFormed (abstract view: canonical sorted sectors, labels inside the legs, the selection rule on
every non-zero element, diagonal shape) and RawOK (raw block structure: every stored block obeys the charge rule under Charges!Add,
blocks unique and ordered, one dimension per (leg, charge), size, library's is_consistent()) as conjuncts of EVERY event and
Inv_WF as an invariant over all registers; the charge law of each operation is part of its reference (Conforms: obs.n = ref.n).
This check drives it with a program profile aimed at structure-changing operations: ranks up to 6, n-ary additions of operands in
different lazy-transposition states, add_leg/remove_leg chains over fused groups with mixed signatures, fusion in both modes,
flip_charges, traces and contractions that empty the result.
"""
from __future__ import annotations
import random
from concurrent.futures import ProcessPoolExecutor
from vlib import Report, validate_traces, Machinery
import tensors as T
from c01 import report_traces, SYMLIST
from c03 import Runner, init_struct, universe_legs, subset_leg

WEIGHTS = {'lincomb': 2, 'add3': 3, 'scale': 0.5, 'conj': 1, 'flip_signature': 0.7, 'flip_charges': 1.5, 'transpose': 3,
           'tensordot': 4, 'trace': 2, 'add_leg': 3, 'remove_leg': 3, 'fuse': 3, 'unfuse': 2, 'consume_transpose': 0.5, 'vdot': 0.3, 'diag': 4}
# well-formedness must hold under every configuration: programs are generated and run under the three tensordot policies and both default fusion modes
KNOBS = [{'fusion': 'hard', 'force': None, 'policy': 'fuse_to_matrix'}] * 3 + [{'fusion': 'meta', 'force': None, 'policy': 'no_fusion'}, {'fusion': 'hard', 'force': None, 'policy': 'no_fusion'},
                                                                               {'fusion': 'hard', 'force': None, 'policy': 'fuse_contracted'}, {'fusion': 'meta', 'force': None, 'policy': 'fuse_contracted'}]


def program(args):
    sym, seed, nsteps = args
    rng = random.Random(seed)
    rank = rng.choice((2, 3, 4, 5, 6))
    unis = universe_legs(sym, rng, rank)
    maxsec = 1 if rank >= 5 else 2
    legs = [subset_leg(u, rng)[:maxsec] for u in unis]
    s = [rng.choice((1, -1)) for _ in range(rank)]
    st = init_struct(sym, s, legs, rng, density=rng.choice((0.3, 0.5, 0.8)) if rank >= 4 else None)
    inits = [st, dict(st, dataseed=rng.randrange(1 << 30), density=rng.choice((0.5, 1.0)))]
    # a twin stored in a permuted leg order: after transpose(p) it has the same logical shape but a pending lazy permutation
    p = list(range(rank))
    rng.shuffle(p)
    inv = [p.index(i) for i in range(rank)]
    tw = dict(st, s=[s[i] for i in inv], legs=[legs[i] for i in inv], dataseed=rng.randrange(1 << 30))
    inits.append(tw)
    R = Runner(sym, seed, inits, knob=KNOBS[seed % len(KNOBS)])
    t3 = R.do({'op': 'transpose', 'a': 2, 'p': p})           # register 3: logical shape of register 0, lazy trans
    if t3 is not None and rng.random() < 0.8:
        order = [0, 1, t3]
        if rng.random() < 0.5:
            rng.shuffle(order)
        R.do({'op': 'add3', 'a': order[0], 'b': order[1], 'c': order[2], 'amp': [[1, 0], [rng.choice((1, -1, 2)), 0], [rng.choice((1, -2)), rng.choice((0, 1))]]})
    for _ in range(nsteps):
        r = rng.random()
        a = rng.randrange(max(0, len(R.regs) - 4), len(R.regs))
        oa = R.obs[a]
        lr = len(oa['grp'])
        if r < 0.22 and lr <= 4 and not oa['dg']:
            # leg dance: two dimension-one legs with independent signatures / charges, fused (meta or hard), moved, then removed as one leg
            mod = T.SYMS[sym]
            x = R.do({'op': 'add_leg', 'a': a, 'pos': rng.randint(0, lr), 's': rng.choice((1, -1)), 't': list(T.rand_charge(mod, rng, 2)), 'tnone': False})
            if x is None:
                continue
            y = R.do({'op': 'add_leg', 'a': x, 'pos': rng.randint(0, lr + 1), 's': rng.choice((1, -1)), 't': list(T.rand_charge(mod, rng, 2)), 'tnone': rng.random() < 0.2})
            if y is None:
                continue
            oy = R.obs[y]
            ones = [k for k in range(len(oy['grp'])) if all(len(lg) == 1 and lg[0][1] == 1 for lg in T.nat_legs(oy, k))]
            if len(ones) < 2:
                continue
            g = rng.sample(ones, 2)
            rest = [k for k in range(len(oy['grp'])) if k not in g]
            rng.shuffle(rest)
            cut = rng.randint(0, len(rest))
            parts = [[k] for k in rest[:cut]] + [g] + [[k] for k in rest[cut:]]
            z = R.do({'op': 'fuse', 'a': y, 'parts': parts, 'mode': rng.choice(('meta', 'meta', 'hard'))})
            if z is None:
                continue
            R.do({'op': 'remove_leg', 'a': z, 'pos': cut})
            continue
        op = T.choose_op(R.regs, R.obs, rng, WEIGHTS, sym)
        op.pop('then', None)
        if op['op'] == 'tensordot' and len(R.obs[op['a']]['ent']) * len(R.obs[op['b']]['ent']) > 1500:
            continue
        i = R.do(op)
        if i is not None and len(R.obs[i]['ent']) > 90:
            break
    return R.trace()


def main(tier, seed, replay=None):
    rep = Report('C02', tier, seed, 'model_checking')
    rep.cov['rule'] = ('programs of structure-changing public operations (ranks 0..6, all symmetries, lazy-transposition and fusion states); after EVERY event TLC '
                       'evaluates WellFormed + RawOK on the produced tensor and Inv_WF on all registers, and the charge law through the reference; '
                       'non-trivial = event producing a tensor with >= 1 stored block')
    if replay:
        rep.write_evidence = False
        import json
        c = json.load(open(replay))['case']
        jobs = [(c['sym'], c['seed'], 9 if tier == 'quick' else 12)]
    else:
        n = 420 if tier == 'quick' else 6000
        jobs = [(SYMLIST[i % 7], seed * 1000033 + i, 9 if tier == 'quick' else 12) for i in range(n)]
    with ProcessPoolExecutor(max_workers=14) as ex:
        traces = list(ex.map(program, jobs, chunksize=4))
    nev, kinds, rej = report_traces(rep, traces)
    rep.cov['traces_validated_against_impl'] = len(traces)
    rep.cov['evaluations'] = nev
    rep.cov['distinct_nontrivial'] = sum(1 for t in traces for e in t['ev'] if 'obs' in e and e['obs']['raw']['t'])
    ranks = {}
    for t in traces:
        for e in t['ev']:
            if 'obs' in e:
                ranks[len(e['obs']['s'])] = ranks.get(len(e['obs']['s']), 0) + 1
    rep.cov['parts'].update({'events_by_op': kinds, 'rejections_checked': rej, 'results_by_native_rank': ranks,
                             'results_with_lazy_or_fused_state': sum(1 for t in traces for e in t['ev'] if 'obs' in e and any(len(g) > 1 for g in e['obs']['grp']))})
    t0 = traces[len(traces) // 2]
    rep.sample({'sym': t0['sym'], 'seed': t0['seed'], 'ops': [{k: v for k, v in e.items() if k != 'obs'} for e in t0['ev'] if e['op'] != 'init']})
    # negative control: a block that violates the charge rule must be rejected
    import copy
    for t in traces:
        cand = [i for i, e in enumerate(t['ev']) if e['op'] != 'init' and 'obs' in e and e['obs']['raw']['t'] and T.SYMS[t['sym']]]
        if cand:
            bad = copy.deepcopy(t)
            bad['ev'][cand[0]]['obs']['raw']['t'][0][0][0] += 1
            a2, d2, _ = validate_traces('TraceTensor', 'TraceTensor.cfg', [bad], shards=1)
            if a2[0]:
                raise Machinery('negative control: block violating the charge rule accepted')
            rep.cov['parts']['negative_control'] = 'block charge off by one rejected'
            break
    rep.assumptions += ['results of svd/qr/eigh/eig are checked for well-formedness in C04 with the same WellFormed/RawOK operators',
                        'NumPy backend']
    return rep.finish()
