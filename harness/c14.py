"""C14 — results do not depend on contraction policy, fusion mode or lazy state.

Hyper-traces: one generated program is executed under every configuration (3 tensordot policies x 2 default fusion modes, plus
force_fusion) and under placements of consume_transpose()/copy() on operands.  Every execution is validated by TLC against the
same exact reference (TraceTensor), and TraceHyper compares the executions with each other event by event (ObsEqAll).
"""
from __future__ import annotations
import random
from concurrent.futures import ProcessPoolExecutor
from vlib import Report, validate_traces, Machinery
import tensors as T
from c01 import report_traces, SYMLIST

WEIGHTS = {'lincomb': 2, 'transpose': 3, 'tensordot': 8, 'trace': 2, 'fuse': 3, 'unfuse': 2, 'conj': 1, 'vdot': 1, 'add_leg': 0.5, 'remove_leg': 0.5,
           'flip_charges': 0.5, 'add3': 0.5, 'diag': 1, 'broadcast': 2, 'apply_mask': 3}
KNOBS = [{'fusion': f, 'force': None, 'policy': p} for p in ('fuse_to_matrix', 'fuse_contracted', 'no_fusion') for f in ('hard', 'meta')] + \
        [{'fusion': 'hard', 'force': 'meta', 'policy': 'fuse_to_matrix'}, {'fusion': 'meta', 'force': 'hard', 'policy': 'no_fusion'}]


def hyper(args):
    sym, seed, nsteps = args
    prog, tr0 = T.generate(sym, False, seed, nsteps, WEIGHTS, knob=KNOBS[0], want_diag=(seed % 2 == 0))
    rng = random.Random(seed + 17)
    execs = [tr0]
    for kn in KNOBS[1:]:
        execs.append(T.execute(prog, kn))
    for kn, pl in ((KNOBS[0], 1.0), (KNOBS[rng.randrange(len(KNOBS))], 0.4), (KNOBS[rng.randrange(len(KNOBS))], 0.4)):
        execs.append(T.execute(prog, kn, placements=pl, rng=rng))
    # a program that fuses some legs with an EXPLICIT mode and others with the default one is a different computation under each default mode (hard-fused and
    # meta-fused legs cannot be combined: C03): its executions are compared only among configurations with the same effective modes (the first one's), i.e. across
    # tensordot policies and lazy placements; programs that use only the default mode, or only explicit modes, are compared across all configurations
    modes = {op['mode'] for op in prog.ops if op['op'] == 'fuse'}
    mixed = 'none' in modes and len(modes) > 1
    compared = [ex for ex in execs if not mixed or (ex['knob']['fusion'] == tr0['knob']['fusion'] and ex['knob']['force'] == 'none')]
    # hyper events: per program event, the observable summary in every execution
    hev = []
    n = len(tr0['ev'])
    for i in range(n):
        xs = []
        for ex in compared:
            if i >= len(ex['ev']):
                xs.append({'out': 'missing'})
                continue
            e = ex['ev'][i]
            if 'obs' in e:
                o = e['obs']
                sup = [sorted({repr(en[0][k][0]) for en in o['ent']}) for k in range(len(o['s']))]
                xs.append({'out': 'ok', 's': o['s'], 'n': o['n'], 'grp': o['grp'], 'legs': o['legs'],
                           'sup': [[lg[0] for lg in o['legs'][k] if repr(lg[0]) in sup[k]] for k in range(len(o['s']))]})
            else:
                xs.append({'out': e.get('out', 'ok') + (':%s' % e['val'] if 'val' in e else '')})
        hev.append({'x': xs})
    return execs, {'sym': sym, 'seed': seed, 'ev': hev, 'mixed_modes': mixed, 'compared': len(compared)}


def canonical_zero_sector():
    """ canonical reproducer of the known finding 'stored structurally-zero blocks': the fusing kernels store the blocks (0,1,5,0) and (1,0,0,5) of
    c = a . b (every element zero), no_fusion does not; one more contraction turns that into different LEGS of the result """
    import yastn
    hev = [{'x': []}, {'x': []}]
    for pol in ('fuse_to_matrix', 'fuse_contracted', 'no_fusion'):
        cfg = T.make_config('U1', policy=pol)
        a = yastn.Tensor(config=cfg, s=(1, 1, 1, 1), n=2)
        a.set_block(ts=(0, 1, 0, 1), Ds=(1, 1, 1, 1), val=[1])
        a.set_block(ts=(1, 0, 1, 0), Ds=(1, 1, 1, 1), val=[2])
        b = yastn.Tensor(config=cfg, s=(-1, -1, 1, 1), n=4)
        b.set_block(ts=(0, 1, 0, 5), Ds=(1, 1, 1, 1), val=[3])
        b.set_block(ts=(1, 0, 5, 0), Ds=(1, 1, 1, 1), val=[4])
        e = yastn.Tensor(config=cfg, s=(-1, 1), n=0)
        e.set_block(ts=(5, 5), Ds=(1, 1), val=[7])
        c = yastn.tensordot(a, b, axes=((2, 3), (0, 1)))
        d = yastn.tensordot(c, e, axes=(2, 0))
        for k, x in enumerate((c, d)):
            o = T.alpha(x, 'U1')
            sup = [sorted({repr(en[0][j][0]) for en in o['ent']}) for j in range(len(o['s']))]
            hev[k]['x'].append({'out': 'ok', 's': o['s'], 'n': o['n'], 'grp': o['grp'], 'legs': o['legs'],
                                'sup': [[lg[0] for lg in o['legs'][j] if repr(lg[0]) in sup[j]] for j in range(len(o['s']))]})
    return {'sym': 'U1', 'seed': 'canonical-zero-sector', 'ev': hev}


def main(tier, seed, replay=None):
    rep = Report('C14', tier, seed, 'model_checking')
    rep.cov['rule'] = ('one program (tensordot, fuse/unfuse, transpose, add, trace, ...) x %d configurations x 3 placements of consume_transpose()/copy(); every execution validated '
                       'against the exact reference and all executions compared with each other (legs, charge, signature, tree shapes, outcome); non-trivial = program event '
                       'whose result has >= 1 element in some execution' % len(KNOBS))
    if replay:
        rep.write_evidence = False
        import json
        c = json.load(open(replay))['case']
        jobs = [(c['sym'], c['seed'], 6 if tier == 'quick' else 8)] if c.get('op') != 'network' else []
    else:
        n = 140 if tier == 'quick' else 2100
        jobs = [(SYMLIST[i % 7], seed * 1000211 + i, 7 if tier == 'quick' else 9) for i in range(n)]
    with ProcessPoolExecutor(max_workers=14) as ex:
        out = list(ex.map(hyper, jobs, chunksize=2))
    traces = [t for execs, _ in out for t in execs]
    hypers = [h for _, h in out]
    if not replay:
        hypers.append(canonical_zero_sector())
    # contract_with_unroll: the same network through every contraction path (optimizers), unrolled by charge sector, sliced uniformly, one or two labels at once:
    # every result must be the single order-free value of TensorOps!Ncon (the ncon event of TraceTensor holds all of them)
    if not replay or c.get('op') == 'network':
        import c05
        usyms = [x for x in SYMLIST if x != 'dense']
        njobs = [(usyms[i % len(usyms)], False, seed * 1000403 + 700000 + i, 4, True) for i in range(84 if tier == 'quick' else 1200)] if not replay else [(c['sym'], False, c['seed'], 4, True)]
        with ProcessPoolExecutor(max_workers=14) as ex:
            nets = list(ex.map(c05.network, njobs, chunksize=2))
        for t in nets:
            t['kind'] = 'network'
        traces += nets
        unroll_results = [r for t in nets for e in t['ev'] if e['op'] == 'ncon' for r in e['results'] if str(r['order']).startswith('contract_with_unroll')]
    else:
        unroll_results = []
    nev, kinds, rej = report_traces(rep, traces)
    netseeds = {t['seed'] for t in traces if t.get('kind') == 'network'}
    for v in rep.violations:
        if v[2].get('seed') in netseeds:
            v[2]['op'] = 'network'
    acc, diag, res = validate_traces('TraceHyper', 'TraceHyper.cfg', hypers, shards=16, timeout=3000)
    for h, rj in zip(hypers, validate_traces.last_rejects):
        for l, why in rj:
            cat = 'zero-sector-legs' if 'zero-sector-legs' in why else 'observable-difference'
            rep.violation('hyper:%s:%s:seed=%s:event=%d' % (cat, h['sym'], h['seed'], l) if cat != 'zero-sector-legs' else 'hyper:zero-sector-legs:%s' % h['sym'],
                          '%s program seed=%s event %d: executions under different policy / fusion mode / lazy state differ (%s): %s' % (h['sym'], h['seed'], l, cat, why[:600]),
                          {'op': 'hyper', 'sym': h['sym'], 'seed': h['seed'], 'event': l, 'category': cat})
    if not replay:
        from vlib import negative_controls
        def c_sig(e):
            xs = [x for x in e['x'] if x.get('out') == 'ok' and x.get('s')]
            if len(xs) >= 2:
                xs[-1]['s'] = [-v for v in xs[-1]['s']]          # one execution returns the opposite signatures
                return True
        def c_out(e):
            xs = [x for x in e['x'] if x.get('out') == 'ok']
            if len(xs) >= 2 and len(xs) == len(e['x']):
                xs[1]['out'] = 'YastnError'                        # one configuration rejects what the others compute
                for k in ('s', 'n', 'grp', 'legs', 'sup'):
                    xs[1].pop(k, None)
                return True
        rep.cov['parts']['negative_controls_rejected'] = negative_controls('TraceHyper', 'TraceHyper.cfg', hypers, [('signature differs in one execution', c_sig), ('one configuration rejects', c_out)], timeout=900)
    rep.cov['traces_validated_against_impl'] = len(traces)
    rep.cov['evaluations'] = nev
    rep.cov['distinct_nontrivial'] = sum(1 for h in hypers for e in h['ev'] if any(x.get('sup') and any(x['sup']) for x in e['x']))
    rep.cov['parts'].update({'contract_with_unroll_results': len(unroll_results), 'contract_with_unroll_by_kind': {k: sum(1 for r in unroll_results if k in r['order']) for k in ('no unroll', 'by sector', 'slices of 1', 'slices of 2', ' and ', 'greedy')},
                             'programs': len(hypers), 'executions_per_program': len(KNOBS) + 3, 'programs_mixing_explicit_and_default_fusion_mode (compared within one default mode only)': sum(1 for h in hypers if h.get('mixed_modes')), 'events_by_op': kinds, 'hyper_events_compared': sum(len(h['ev']) for h in hypers)})
    rep.cov['states'] += sum(r.distinct for r in res)
    rep.cov['transitions'] += sum(r.generated for r in res)
    rep.sample({'sym': hypers[0]['sym'], 'seed': hypers[0]['seed'], 'configurations': KNOBS, 'hyper_event': hypers[0]['ev'][-1]})
    rep.assumptions += ['contract_with_unroll (paths / unrolling) is not covered by this check yet', 'svd/qr inside programs: covered through C04 under each policy, not here']
    return rep.finish()
