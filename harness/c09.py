"""C09 — DMRG is variational and self-consistent.

 (1) Sweeps.tla / SweepsMC: the sweep schedules of dmrg_ written as event sequences on the environment cache and run through the coherence
     protocol EnvCoherence.tla: TLC checks that every Heff / measure read is fresh for N <= 4, both methods, with / without precompute.
 (2) I->S: real dmrg_ runs under an outside recorder; TraceEnv.tla requires (a) every environment instance's event sequence (with site
     writes inferred from content digests) to pass EnvCoherence with no stale / missing read, (b) the cache events of the energy
     environment to be EXACTLY the schedule of Sweeps.tla for the methods used, (c) per-sweep relations on scaled energies:
     E_reported = <H> of the returned state, E >= E0 of the sector (dense eigvalsh), no increase between sweeps when nothing binds, and
     measured verdicts (normalised, canonical, same sector, eigenstate residual when converged at full bond dimension, penalties).
"""
from __future__ import annotations
import random
import numpy as np
from concurrent.futures import ProcessPoolExecutor
from vlib import Report, validate_traces, tlc, tlc_ok, Machinery
import mpsx
from envx import EnvRecorder, cache_events

SC = 10 ** 7
FAMS = [('SpinlessFermions', 'U1'), ('SpinlessFermions', 'Z2'), ('Spin12', 'U1'), ('Spin12', 'Z2'), ('Spin12', 'dense')]


def hamiltonian(ops, fam, N, rng, I):
    import yastn.tn.mps as mps
    terms = []
    if fam[0] == 'SpinlessFermions':
        for n in range(N - 1):
            t = rng.choice((-2, -1, 1, 2))
            terms += [mps.Hterm(t, (n, n + 1), (ops.cp(), ops.c())), mps.Hterm(t, (n + 1, n), (ops.cp(), ops.c()))]
            if rng.random() < 0.6:
                terms.append(mps.Hterm(rng.choice((-1, 1, 2)), (n, n + 1), (ops.n(), ops.n())))
        for n in range(N):
            if rng.random() < 0.7:
                terms.append(mps.Hterm(rng.choice((-2, -1, 1)), (n,), (ops.n(),)))
    else:
        for n in range(N - 1):
            j = rng.choice((-2, -1, 1, 2))
            terms += [mps.Hterm(j, (n, n + 1), (ops.sp(), ops.sm())), mps.Hterm(j, (n, n + 1), (ops.sm(), ops.sp()))]
            if rng.random() < 0.6:
                terms.append(mps.Hterm(rng.choice((-1, 1, 2)), (n, n + 1), (ops.z(), ops.z())))
        for n in range(N):
            if rng.random() < 0.7:
                terms.append(mps.Hterm(rng.choice((-2, -1, 1)), (n,), (ops.z(),)))
    return terms


def basis_charges(legs, sym):
    """ total charge of every basis state of the product space of the given physical legs (row-major order of to_numpy) """
    per = []
    for lg in legs:
        c = []
        for t, D in zip(lg.t, lg.D):
            c += [tuple(t)] * D
        per.append(c)
    out = [()]
    tot = [sym.zero()]
    for c in per:
        tot = [sym.add_charges(a, b) if sym.NSYM else () for a in tot for b in c]
    return tot


def dense_full(psi, legs):
    """ full dense vector of an MPS on the complete physical space """
    phi = psi.shallow_copy()
    phi.absorb_central_()
    t = phi.to_tensor()
    return tuple(t.n), t.to_numpy(legs=dict(enumerate(legs))).ravel()


def dense_op(H, legs):
    N = len(legs)
    t = H.to_tensor()
    full = {}
    for k, lg in enumerate(legs):
        full[2 * k] = lg
        full[2 * k + 1] = lg.conj()
    a = t.to_numpy(legs=full)
    d = int(np.prod([sum(lg.D) for lg in legs]))
    return a.transpose(list(range(0, 2 * N, 2)) + list(range(1, 2 * N, 2))).reshape(d, d)


def run(args):
    import yastn
    import yastn.tn.mps as mps
    from yastn import YastnError
    fi, seed = args
    fam = FAMS[fi]
    rng = random.Random(seed)
    ops = mpsx.ops_of(fam)
    ops.config.backend.random_seed(seed % 9967)
    N = rng.choice((2, 3, 4, 5, 6))
    I = mps.product_mpo(ops.I(), N)
    terms = hamiltonian(ops, fam, N, rng, I)
    as_sum = rng.random() < 0.3 and len(terms) >= 2
    if as_sum:
        k = len(terms) // 2
        H = [mps.generate_mpo(I, terms[:k]), mps.generate_mpo(I, terms[k:])]
        Hfull = mps.generate_mpo(I, terms)
    else:
        H = Hfull = mps.generate_mpo(I, terms)
    legs = [ops.space()] * N
    Hd = dense_op(Hfull, legs)
    chg = basis_charges(legs, ops.config.sym)
    sector = mpsx.random_sector(ops, N, rng)
    D0 = rng.choice((1, 2, 4, 16))
    try:
        psi = mps.random_mps(I, n=sector, D_total=D0)
    except YastnError:
        return None
    t, v = dense_full(psi, legs)
    idx = [i for i, c in enumerate(chg) if tuple(c) == tuple(t)] if ops.config.sym.NSYM else list(range(len(chg)))
    if not idx or np.linalg.norm(v) == 0:
        return None
    Hb = Hd[np.ix_(idx, idx)]
    evals = np.linalg.eigvalsh((Hb + Hb.conj().T) / 2)
    E0 = float(evals[0])
    dim = len(evals)
    precompute = rng.random() < 0.5
    nsweeps = rng.choice((1, 2, 3, 4))
    meths = [rng.choice(('1site', '2site')) for _ in range(nsweeps)]
    if rng.random() < 0.6:
        meths = [meths[0]] * nsweeps
    Dmax = rng.choice((2, 4, 64))
    opts_svd = {'D_total': Dmax, 'tol': 1e-14}
    opts_eigs = {'hermitian': True, 'ncv': rng.choice((2, 3, 6)), 'which': 'SR'}
    rec = EnvRecorder()
    rec.install()
    ev = []
    what = '%s/%s N=%d seed=%s methods=%s pre=%s D0=%d Dmax=%d sum=%s' % (fam[0], fam[1], N, seed, meths, precompute, D0, Dmax, as_sum)
    try:
        method = yastn.Method(meths[0]) if hasattr(yastn, 'Method') else meths[0]
        Eprev = None
        k = 0
        gen = mps.dmrg_(psi, H, method=method, max_sweeps=nsweeps, iterator=True, opts_eigs=opts_eigs, opts_svd=opts_svd, precompute=precompute)
        for out in gen:
            k += 1
            t2, v = dense_full(psi, legs)
            nv = float(np.linalg.norm(v))
            Hb2 = Hd
            Ed = float(np.real(np.vdot(v, Hd @ v)) / max(nv ** 2, 1e-300))
            mono = Eprev is not None and (str(out.method) == '1site' or (out.max_discarded_weight is not None and out.max_discarded_weight <= 1e-12))
            resid_ok = True
            if k == nsweeps and out.denergy is not None and out.denergy < 1e-11 and max(psi.get_bond_dimensions()) >= dim:
                resid_ok = bool(np.linalg.norm(Hb2 @ v - Ed * v) <= 1e-5 * max(1.0, abs(Ed)))
            # known finding (root cause in eigs, C18): a state that already IS an eigenstate of the sector is handed to eigs as a (near-)invariant start vector; the undetected
            # Krylov breakdown continues with rounding noise, the returned vector is wrong and the sweep RAISES the energy of a converged state
            degraded = mono and out.energy > Eprev + 200 / SC and float(np.min(np.abs(evals - Eprev))) <= 1e-7 * max(1.0, abs(Eprev))
            ev.append({'op': 'dmrg_sweep', 'what': ('KF-converged-state-degraded ' if degraded else '') + what + ' sweep %d' % k, 'E': int(round(out.energy * SC)), 'Edense': int(round(Ed * SC)) if Ed == Ed else -1, 'E0': int(round(E0 * SC)),
                       'Eprev': int(round(Eprev * SC)) if Eprev is not None else 0, 'monotone': bool(mono), 'tol': 200,
                       'verdicts': {'normalised': bool(abs(nv - 1) <= 1e-9), 'canonical_first': bool(psi.is_canonical(to='first')), 'same_sector': bool(tuple(t2) == tuple(t)),
                                    'eigenstate_when_converged_at_full_D': resid_ok, 'method_reported': bool(str(out.method) == meths[k - 1]), 'sweeps_reported': bool(out.sweeps == k)}})
            Eprev = out.energy
            if k < nsweeps and hasattr(method, 'update_'):
                method.update_(meths[k])
    except YastnError as ex:
        ev.append({'op': 'dmrg_sweep', 'what': what + ' raised YastnError: ' + str(ex)[:80], 'E': 0, 'Edense': 1 << 30, 'E0': 0, 'Eprev': 0, 'monotone': False, 'tol': 0, 'verdicts': {'ran': False}})
    finally:
        rec.uninstall()
    # protocol traces
    for tr in rec.traces():
        ev.append({'op': 'coherence', 'what': '%s %s' % (what, tr['cls']), 'N': tr['N'], 'pre': tr['pre'], 'events': tr['events']})
        if tr['cls'].startswith('Env_mps_mpo_mps') and len(ev) and k == nsweeps:
            ce = cache_events(tr['events'])
            ev.append({'op': 'schedule', 'what': '%s %s' % (what, tr['cls']), 'N': tr['N'], 'methods': ['dmrg1' if m == '1site' else 'dmrg2' for m in meths], 'decisions': [[] for _ in meths],
                       'tail': [], 'cache': ce, 'interleave_measure': True})
    return ev


def run_converge(args):
    """ long untruncated runs: converged (dE ~ 0, nothing discarded) => eigenstate; then the first excited state with a projection penalty,
    for real and COMPLEX Hermitian couplings """
    import yastn
    import yastn.tn.mps as mps
    from yastn import YastnError
    fi, seed = args
    fam = FAMS[fi]
    rng = random.Random(seed)
    ops = mpsx.ops_of(fam)
    ops.config.backend.random_seed(seed % 9949)
    N = rng.choice((2, 3, 4, 5))
    I = mps.product_mpo(ops.I(), N)
    cplx = rng.random() < 0.5
    terms = []
    up, dn = (ops.cp(), ops.c()) if fam[0] == 'SpinlessFermions' else (ops.sp(), ops.sm())
    nn = ops.n() if fam[0] == 'SpinlessFermions' else ops.z()
    for n in range(N - 1):
        t = complex(rng.choice((-2, -1, 1, 2)), rng.choice((-1, 1, 2)) if cplx else 0)
        t = t if cplx else t.real
        terms += [mps.Hterm(t, (n, n + 1), (up, dn)), mps.Hterm(t.conjugate() if cplx else t, (n + 1, n), (up, dn))]
        terms.append(mps.Hterm(rng.choice((-1, 1, 2)), (n, n + 1), (nn, nn)))
    for n in range(N):
        terms.append(mps.Hterm(rng.choice((-2, -1, 1, 3)), (n,), (nn,)))
    H = mps.generate_mpo(I, terms)
    legs = [ops.space()] * N
    Hd = dense_op(H, legs)
    chg = basis_charges(legs, ops.config.sym)
    sector = mpsx.random_sector(ops, N, rng)
    ev = []
    what = '%s/%s N=%d seed=%s converge complex=%s' % (fam[0], fam[1], N, seed, cplx)
    try:
        psi = mps.random_mps(I, n=sector, D_total=1 if rng.random() < 0.5 else 3, dtype='complex128' if cplx else 'float64')
        t, v = dense_full(psi, legs)
        idx = [i for i, c in enumerate(chg) if tuple(c) == tuple(t)] if ops.config.sym.NSYM else list(range(len(chg)))
        if len(idx) < 2 or np.linalg.norm(v) == 0:
            return None
        Hb = Hd[np.ix_(idx, idx)]
        evals = np.linalg.eigvalsh((Hb + Hb.conj().T) / 2)
        opts = dict(method='2site', max_sweeps=12, energy_tol=1e-13, opts_svd={'D_total': 64, 'tol': 1e-14}, opts_eigs={'hermitian': True, 'ncv': 6, 'which': 'SR'})
        out = mps.dmrg_(psi, H, **opts)
        _, v0 = dense_full(psi, legs)
        E = float(np.real(np.vdot(v0, Hd @ v0)))
        conv = out.denergy is not None and out.denergy < 1e-11 and out.max_discarded_weight is not None and out.max_discarded_weight <= 1e-12
        resid = float(np.linalg.norm(Hd @ v0 - E * v0))
        ev.append({'op': 'dmrg_sweep', 'what': what + ' ground state', 'E': int(round(out.energy * SC)), 'Edense': int(round(E * SC)), 'E0': int(round(float(evals[0]) * SC)), 'Eprev': 0,
                   'monotone': False, 'tol': 200, 'verdicts': {'normalised': bool(abs(np.linalg.norm(v0) - 1) <= 1e-9), 'canonical_first': bool(psi.is_canonical(to='first')),
                                                                'converged_untruncated_run_is_eigenstate': bool((not conv) or resid <= 1e-5 * max(1.0, abs(E)))}})
        # first excited state in the same sector with a penalty on psi0
        gap = float(evals[1] - evals[0])
        if conv and abs(E - evals[0]) < 1e-8 and gap > 1e-3:
            psi1 = mps.random_mps(I, n=sector, D_total=3, dtype='complex128' if cplx else 'float64')
            pen = rng.choice((None, 50.0, 3 * gap + 1))
            out1 = mps.dmrg_(psi1, H, project=[psi] if pen is None else [(pen, psi)], **opts)
            _, v1 = dense_full(psi1, legs)
            E1 = float(np.real(np.vdot(v1, Hd @ v1)))
            conv1 = out1.denergy is not None and out1.denergy < 1e-11 and out1.max_discarded_weight is not None and out1.max_discarded_weight <= 1e-12
            ov = abs(np.vdot(v0, v1))
            ev.append({'op': 'dmrg_sweep', 'what': what + ' penalty run', 'E': int(round(E1 * SC)), 'Edense': int(round(E1 * SC)), 'E0': int(round(float(evals[0]) * SC)), 'Eprev': 0,
                       'monotone': False, 'tol': 200, 'verdicts': {'normalised': bool(abs(np.linalg.norm(v1) - 1) <= 1e-9),
                                                                    'orthogonal_to_penalised_state_when_converged': bool((not conv1) or ov <= 1e-5),
                                                                    'targets_next_level_when_converged': bool((not conv1) or E1 >= evals[1] - 1e-6)}})
            # third level with a MIXED project list: one (penalty, state) tuple and one bare state (default penalty 100), in either order; the tuple's penalty
            # separates the level it belongs to (p > E2 - E1) but would not be enough for the ground state (p < E2 - E0)
            if conv1 and ov <= 1e-6 and len(evals) >= 3 and abs(E1 - evals[1]) < 1e-7 and evals[2] - evals[1] > 1e-2 and gap > 1e-2 and evals[2] - evals[0] < 90:
                pmid = float(evals[2] - evals[1]) + 0.5 * gap
                psi2 = mps.random_mps(I, n=sector, D_total=3, dtype='complex128' if cplx else 'float64')
                order = rng.choice(('tuple-first', 'bare-first'))
                proj = [(pmid, psi1), psi] if order == 'tuple-first' else [psi, (pmid, psi1)]
                out2 = mps.dmrg_(psi2, H, project=proj, **opts)
                _, v2 = dense_full(psi2, legs)
                E2 = float(np.real(np.vdot(v2, Hd @ v2)))
                conv2 = out2.denergy is not None and out2.denergy < 1e-11 and out2.max_discarded_weight is not None and out2.max_discarded_weight <= 1e-12
                ev.append({'op': 'dmrg_sweep', 'what': what + ' mixed penalty list %s p=%.3f' % (order, pmid), 'E': int(round(E2 * SC)), 'Edense': int(round(E2 * SC)), 'E0': int(round(float(evals[0]) * SC)),
                           'Eprev': 0, 'monotone': False, 'tol': 200,
                           'verdicts': {'normalised': bool(abs(np.linalg.norm(v2) - 1) <= 1e-9),
                                        'orthogonal_to_every_listed_state_when_converged': bool((not conv2) or max(abs(np.vdot(v0, v2)), abs(np.vdot(v1, v2))) <= 1e-5),
                                        'targets_third_level_when_converged': bool((not conv2) or E2 >= evals[2] - 1e-6)}})
        # stopping rule: iterator mode with one or both tolerances; which criteria each performed sweep satisfied
        psi3 = mps.random_mps(I, n=sector, D_total=1 if rng.random() < 0.5 else 2, dtype='complex128' if cplx else 'float64')
        et = rng.choice((None, 1e-2, 1e-4, 1e-8))
        stl = rng.choice((None, 1e-3, 1e-6, 1e-9)) if et is not None else rng.choice((1e-3, 1e-6, 1e-9))
        ms = rng.choice((3, 6, 12))
        sat, last = [], None
        for o3 in mps.dmrg_(psi3, H, method=rng.choice(('1site', '2site')), max_sweeps=ms, energy_tol=et, Schmidt_tol=stl, iterator=True,
                            opts_svd={'D_total': 64, 'tol': 1e-14}, opts_eigs={'hermitian': True, 'ncv': 6, 'which': 'SR'}):
            sat.append(([bool(abs(o3.denergy) < et)] if et is not None else []) + ([bool(o3.max_dSchmidt < stl)] if stl is not None else []))
            last = o3
        ev.append({'op': 'dmrg_stop', 'what': what + ' stopping rule energy_tol=%s Schmidt_tol=%s max_sweeps=%d performed=%d' % (et, stl, ms, len(sat)), 'sat': sat, 'max_sweeps': ms,
                   'verdicts': {'sweeps_reported': bool(last.sweeps == len(sat))}})      # (whether the converged state is an eigenstate depends on the bond dimension: claimed in run() at full D only)
    except YastnError as ex:
        return None
    return ev


def main(tier, seed, replay=None):
    rep = Report('C09', tier, seed, 'model_checking')
    if replay:
        rep.write_evidence = False
    rep.cov['rule'] = ('dmrg_ runs: chain lengths 2..6, Hermitian MPOs from generate_mpo with random integer couplings (hopping / XX, density-density / ZZ, fields) in U1 / Z2 / dense, single MPO '
                       'and sum of MPOs, initial states of random admissible charge and bond dimension 1..16, methods 1site / 2site and switches, ncv 2/3/6, D_total 2/4/64, precompute on/off, '
                       '1..4 sweeps; non-trivial = sweep event / coherence trace with >= 1 Heff read')
    r = tlc('SweepsMC', 'SweepsMC.cfg', workers=16, timeout=1800, mem='6g')
    if not r.finished:
        raise Machinery('SweepsMC did not finish cleanly: %s %s' % (r.violated, r.error))
    rep.add_tlc('SweepsMC (all dmrg/tdvp schedules incl. every 12site decision sequence, N<=4, x precompute: fresh reads + time budget)', r)
    n = 48 if tier == 'quick' else 700
    jobs = [(i % len(FAMS), seed * 1000507 + i) for i in range(n)]
    if not replay:
        jobs.append(([i for i, f in enumerate(FAMS) if f[0] == 'SpinlessFermions' and f[1] == 'Z2'][0], 8004067))      # canonical reproducer of the known finding 'converged state degraded'
    with ProcessPoolExecutor(max_workers=14) as ex:
        evs = [e for lst in ex.map(run, jobs, chunksize=1) if lst for e in lst]
        evs += [e for lst in ex.map(run_converge, [(i % len(FAMS), seed * 1000531 + i) for i in range(n // 2)], chunksize=1) if lst for e in lst]
    traces = [{'ev': evs[i:i + 12]} for i in range(0, len(evs), 12)]
    acc, diag, res = validate_traces('TraceEnv', 'TraceEnv.cfg', traces, shards=16, timeout=3000)
    if not replay:
        from vlib import negative_controls
        def c_stale(e):
            # drop the refresh after a site write: the next read of that environment is stale
            if e['op'] == 'coherence':
                ev = e['events']
                for i in range(4, len(ev) - 1):
                    # update(n -> last) right before a read that uses F[n, n+1] (heff1 at n+1 / heff2 at (n+1, n+2)), site n written just before: without the update the read is stale
                    if ev[i][0] == 'update' and ev[i][2] == 'last' and ev[i + 1][0] in ('heff1', 'heff2') and ev[i + 1][1] == ev[i][1] + 1 \
                            and any(x[0] == 'write' and x[1] == ev[i][1] for x in ev[i - 4:i]) and any(x[0] == 'clear' and x[1] == ev[i][1] for x in ev[i - 4:i]):
                        del ev[i]
                        return True
        def c_sched(e):
            if e['op'] == 'schedule' and len(e['cache']) > 4:
                e['cache'][2], e['cache'][3] = e['cache'][3], e['cache'][2]
                return e['cache'][2] != e['cache'][3]
        def c_energy(e):
            if e['op'] == 'dmrg_sweep':
                e['E'] = e['E0'] - 10 * e['tol'] - 1000          # below the ground-state energy of the sector
                return True
        def c_time(e):
            if e['op'] == 'tdvp_snapshot':
                e['ti'] = e['ti_expected'] + 1
                return True
        def c_stop(e):
            if e['op'] == 'dmrg_stop' and len(e['sat']) < e['max_sweeps'] and len(e['sat'][-1]) == 2:
                e['sat'][-1][1] = False        # stopped early although one of the two given criteria was not met
                return True
        rep.cov['parts']['negative_controls_rejected'] = negative_controls('TraceEnv', 'TraceEnv.cfg', traces, [('refresh after a site write dropped', c_stale), ('two schedule events swapped', c_sched), ('stopped on one of two criteria', c_stop),
                                                                                                                 ('energy below E0', c_energy), ('snapshot start time off', c_time)], timeout=900)
    for t, rj in zip(traces, validate_traces.last_rejects):
        for l, why in rj:
            e = t['ev'][l - 1]
            rep.violation(('dmrg:converged-state-degraded-by-eigs:' if e['what'].startswith('KF-converged-state-degraded') else '') + '%s:%s' % (e['op'], e['what']), '%s (%s): %s' % (e['op'], e['what'], why[:600]), {'op': e['op'], 'what': e['what'], 'event': {k: v for k, v in e.items() if k not in ('events', 'cache')}})
    if any((not a) and not rj for a, rj in zip(acc, validate_traces.last_rejects)):
        raise Machinery('C09 trace neither accepted nor rejected')
    rep.cov['states'] += sum(x.distinct for x in res)
    rep.cov['transitions'] += sum(x.generated for x in res)
    rep.cov['traces_validated_against_impl'] = sum(1 for e in evs if e['op'] in ('coherence', 'schedule'))
    rep.cov['evaluations'] = len(evs)
    rep.cov['distinct_nontrivial'] = sum(1 for e in evs if e['op'] in ('dmrg_sweep', 'dmrg_stop')) + sum(1 for e in evs if e['op'] == 'coherence' and any(x[0].startswith('heff') for x in e['events']))
    rep.cov['parts'].update({'dmrg_sweeps': sum(1 for e in evs if e['op'] == 'dmrg_sweep'), 'coherence_traces': sum(1 for e in evs if e['op'] == 'coherence'),
                             'cache_events': sum(len(e['events']) for e in evs if e['op'] == 'coherence'), 'schedule_comparisons': sum(1 for e in evs if e['op'] == 'schedule'),
                             'monotone_claims': sum(1 for e in evs if e['op'] == 'dmrg_sweep' and e['monotone']),
                             'stopping_rule_runs': sum(1 for e in evs if e['op'] == 'dmrg_stop'), 'stopped_early': sum(1 for e in evs if e['op'] == 'dmrg_stop' and len(e['sat']) < e['max_sweeps']),
                             'stopped_early_with_both_tolerances': sum(1 for e in evs if e['op'] == 'dmrg_stop' and len(e['sat']) < e['max_sweeps'] and len(e['sat'][-1]) == 2),
                             'penalty_runs': sum(1 for e in evs if e['op'] == 'dmrg_sweep' and 'penalty run' in e['what']), 'mixed_penalty_list_runs': sum(1 for e in evs if e['op'] == 'dmrg_sweep' and 'mixed penalty' in e['what'])})
    s = next((e for e in evs if e['op'] == 'dmrg_sweep'), None)
    rep.sample(s)
    c = next((e for e in evs if e['op'] == 'coherence'), None)
    rep.sample({k: (v if k != 'events' else v[:14]) for k, v in c.items()})
    rep.assumptions += ['energies, norms and residuals are floating-point observations (dense eigvalsh of the sector block as reference, tolerance 2e-5 on energies); the relations between them and the cache '
                        'protocol are decided by TLC', 'penalty runs: orthogonality / next-level claims only for runs that converged without truncation']
    return rep.finish()
