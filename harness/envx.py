"""Recorder for the MPS environment protocol (C09/C10): class-level wrappers installed from OUTSIDE (no change to /repo).

Every update_env_ / clear_site_ / Heff0 / Heff1 / Heff2 / measure call of every environment instance is logged per instance; before each
event the CONTENT digests of the site tensors of env.bra are compared with the previous ones and a ["write", n] event is emitted for each
site whose content changed (versions are inferred from content, not assumed).  enlarge_bond decisions are recorded as well.
"""
from __future__ import annotations
import hashlib
import numpy as np


def tdig(t):
    return hashlib.sha1(repr((t.struct, t.trans, t.mfs)).encode() + np.ascontiguousarray(np.asarray(t._data)).tobytes()).hexdigest()


class EnvRecorder:
    def __init__(self):
        self.logs = {}        # id(env) -> {'env': env, 'events': [...], 'dig': {n: digest}, 'cls': name}
        self.decisions = []   # enlarge_bond results for bonds inside the chain, in call order
        self.saved = []
        self.active = False

    def _log(self, env, ev):
        if not self.active:
            return
        L = self.logs.get(id(env))
        if L is None:
            L = {'env': env, 'events': [], 'dig': {}, 'cls': type(env).__name__, 'order': len(self.logs)}
            self.logs[id(env)] = L
            for n in range(env.N):
                L['dig'][n] = tdig(env.bra.A[n])
        for n in range(env.N):
            d = tdig(env.bra.A[n])
            if L['dig'].get(n) != d:
                L['dig'][n] = d
                L['events'].append(['write', n])
        if ev[0].startswith('heff') and L['events'] and L['events'][-1] == ev:
            return            # Krylov iterations repeat the same read
        L['events'].append(ev)

    def install(self):
        import yastn.tn.mps._env as E
        rec = self

        def wrap(cls, name, mk):
            if name not in cls.__dict__:
                return
            orig = cls.__dict__[name]
            self.saved.append((cls, name, orig))

            def f(self_, *a, **k):
                evs = mk(self_, *a, **k)
                if evs is not None and not isinstance(self_, E.Env_sum):
                    for ev in (evs if isinstance(evs[0], list) else [evs]):
                        rec._log(self_, ev)
                return orig(self_, *a, **k)
            setattr(cls, name, f)
        classes = [c for c in vars(E).values() if isinstance(c, type) and issubclass(c, E.EnvParent)]
        for c in classes:
            wrap(c, 'update_env_', lambda s, n, to='last': ['update', int(n), to])
            wrap(c, 'clear_site_', lambda s, *args: [['clear', int(n)] for n in args] if args else None)
            wrap(c, 'Heff1', lambda s, A, n: ['heff1', int(n)])
            wrap(c, 'Heff2', lambda s, AA, bd: ['heff2', int(min(bd)), int(max(bd))])
            wrap(c, 'Heff0', lambda s, C, bd: ['heff0', int(min(bd)), int(max(bd))])
            # variational compression reads the same two entries through the projections of the ket on the bra
            wrap(c, 'project_ket_on_bra_1', lambda s, n: ['heff1', int(n)])
            wrap(c, 'project_ket_on_bra_2', lambda s, bd: ['heff2', int(min(bd)), int(max(bd))])
            wrap(c, 'measure', lambda s, bd=(-1, 0): ['measure', int(min(bd)), int(max(bd))])
        # enlarge_bond decisions (EnvParent and Env_sum)
        for c in classes:
            if 'enlarge_bond' in c.__dict__:
                orig = c.__dict__['enlarge_bond']
                self.saved.append((c, 'enlarge_bond', orig))

                def g(self_, bd, opts_svd, _orig=orig):
                    r = _orig(self_, bd, opts_svd)
                    if rec.active and not (bd[0] < 0 or bd[1] >= self_.N) and not getattr(rec, '_in_sum', False):
                        rec.decisions.append(bool(r))
                    return r
                setattr(c, 'enlarge_bond', g)
        self.active = True

    def uninstall(self):
        for cls, name, orig in reversed(self.saved):
            setattr(cls, name, orig)
        self.saved = []
        self.active = False

    def traces(self):
        out = []
        for L in sorted(self.logs.values(), key=lambda x: x['order']):
            out.append({'cls': L['cls'], 'N': L['env'].N, 'events': L['events'], 'pre': 'precompute' in L['cls']})
        return out


def cache_events(events):
    return [e for e in events if e[0] != 'write']
