"""C20 — lattice geometry is a consistent indexing of the square lattice; Lattice container incl. patches.

 1. LatticeMC: TLC checks all invariants of Lattice.tla on the model's own tables for every geometry in the bound.
 2. I->S: for every geometry in the bound the real object's complete tables (sites, bonds, nn_site on a window for all
    25 shifts and 8 named directions, site2index, f_ordered, nn_bond_dirn, listings) are dumped as one event and TLC
    (TraceLattice) evaluates every invariant on the OBSERVED tables; constructor outcomes are checked against ValidPattern.
 3. S->I: LatticeStore.tla (container + patch protocol) is explored exhaustively to a depth; every transition is
    replayed on a real fpeps.Lattice (one implementation test per spec transition).
"""
from __future__ import annotations
import itertools
import json
import random
from concurrent.futures import ThreadPoolExecutor
from vlib import Report, tlc_ok, tlc, validate_traces, Machinery, SPEC, write_cfg
import os

DIRS = ['tl', 't', 'tr', 'l', 'r', 'bl', 'b', 'br']
SHIFTS = [(dx, dy) for dx in range(-2, 3) for dy in range(-2, 3)]


def S(x):
    return [] if x is None else [int(x[0]), int(x[1])]


def build(g):
    import yastn.tn.fpeps as fp
    k = g['kind']
    if k == 'Square':
        return fp.SquareLattice(dims=(g['Nx'], g['Ny']), boundary=g['bc'])
    if k == 'Checkerboard':
        return fp.CheckerboardLattice()
    if k == 'Rectangular':
        return fp.RectangularUnitcell(pattern=g['arg'] if 'arg' in g else g['pat'])
    if k == 'Tri3':
        return fp.TriangularLattice()
    if k == 'TriFull':
        return fp.TriangularLattice(dims=(g['Nx'], g['Ny']), boundary=g['bc'], full_patch=True)
    raise Machinery('unknown kind')


def observe(geo, g):
    """ complete observable tables of a real geometry object on the window, through the public API only """
    from yastn import YastnError
    Nx, Ny = g['Nx'], g['Ny']
    win = [(x, y) for x in range(-Nx, 2 * Nx) for y in range(-Ny, 2 * Ny)]
    swin = [(x, y) for x in range(-1, Nx + 1) for y in range(-1, Ny + 1)]
    valid = lambda s: (g['per'][0] != 'o' or 0 <= s[0] < Nx) and (g['per'][1] != 'o' or 0 <= s[1] < Ny)
    T = {'win': [list(s) for s in win], 'swin': [list(s) for s in swin], 'Nx': Nx, 'Ny': Ny}
    T['nn'] = [[S(geo.nn_site(s, d)) for d in SHIFTS] for s in win]
    T['nnd'] = [[S(geo.nn_site(s, d)) for d in DIRS] for s in win]

    def idx(s):
        if not valid(s):
            return ['invalid']
        i = geo.site2index(s)
        return [str(i)]
    T['idx'] = [idx(s) for s in win]
    T['sites'] = [S(s) for s in geo.sites()]
    T['sitesrev'] = [S(s) for s in geo.sites(reverse=True)]
    bl = lambda q: [[S(b[0]), S(b[1])] for b in q]
    T['bh'], T['bv'] = bl(geo.bonds(dirn='h')), bl(geo.bonds(dirn='v'))
    T['bhrev'], T['bvrev'] = bl(geo.bonds(dirn='h', reverse=True)), bl(geo.bonds(dirn='v', reverse=True))
    T['bd'] = bl(geo.bonds(dirn='d')) if g['kind'] in ('Tri3', 'TriFull') else []
    T['ball'], T['ballrev'] = bl(geo.bonds()), bl(geo.bonds(reverse=True))
    T['ford'] = [[bool(geo.f_ordered(a, b)) for b in swin] for a in swin]

    def dirn(a, b):
        if not (valid(a) and valid(b)):
            return 'n/a'
        try:
            r = geo.nn_bond_dirn(a, b)
            r2 = geo.nn_bond_dirn((a, b))
            return r if r == r2 else 'two call forms disagree'
        except YastnError:
            return 'YastnError'
    T['dirn'] = [[dirn(a, b) for b in swin] for a in swin]
    return T


def geometries(tier):
    """ the bound of C20's quantifier: yields geometry records (spec view) """
    maxn = 4 if tier == 'quick' else 5
    per = {'infinite': 'ii', 'obc': 'oo', 'cylinder': 'po'}
    for bc in ('infinite', 'obc', 'cylinder'):
        for nx in range(1, maxn + 1):
            for ny in range(1, maxn + 1):
                yield {'kind': 'Square', 'Nx': nx, 'Ny': ny, 'bc': bc, 'pat': [], 'rect': True, 'per': per[bc]}
        for nx in range(1, 4):
            for ny in range(1, 4):
                yield {'kind': 'TriFull', 'Nx': nx, 'Ny': ny, 'bc': bc, 'pat': [], 'rect': True, 'per': per[bc]}
    yield {'kind': 'Checkerboard', 'Nx': 2, 'Ny': 2, 'bc': 'infinite', 'pat': [], 'rect': True, 'per': 'ii'}
    yield {'kind': 'Tri3', 'Nx': 3, 'Ny': 3, 'bc': 'infinite', 'pat': [], 'rect': True, 'per': 'ii'}
    if tier == 'quick':
        dims, nl = [(1, 1), (1, 2), (2, 1), (2, 2), (1, 3), (3, 1), (2, 3), (3, 2)], 3
        extra = [((3, 3), 2), ((2, 4), 2)]
    else:
        dims, nl = [(1, 1), (1, 2), (2, 1), (2, 2), (1, 3), (3, 1), (2, 3), (3, 2), (3, 3), (1, 4), (4, 1), (2, 4), (4, 2)], 4
        extra = [((4, 4), 2), ((3, 4), 3), ((4, 3), 3)]
    ndict = 0
    for (nx, ny), k in [(d, nl) for d in dims] + extra:
        for lab in itertools.product(range(k), repeat=nx * ny):
            pat = [list(lab[r * ny:(r + 1) * ny]) for r in range(nx)]
            yield {'kind': 'Rectangular', 'Nx': nx, 'Ny': ny, 'bc': 'infinite', 'pat': pat, 'rect': True, 'per': 'ii'}
            ndict += 1
            if nx != ny or ndict % 4 == 0:
                # the same pattern given in its other documented form, a dictionary {(row, column): label}: must be the same geometry (non-square cells are never symmetric
                # under transposition)
                yield {'kind': 'Rectangular', 'Nx': nx, 'Ny': ny, 'bc': 'infinite', 'pat': pat, 'arg': {(r, c): pat[r][c] for r in range(nx) for c in range(ny)}, 'rect': True, 'per': 'ii'}
    # constructor arguments just outside the domain
    yield {'kind': 'Square', 'Nx': 2, 'Ny': 2, 'bc': 'periodic', 'pat': [], 'rect': True, 'per': 'ii'}
    yield {'kind': 'Square', 'Nx': 2, 'Ny': 2, 'bc': 'OBC', 'pat': [], 'rect': True, 'per': 'ii'}
    yield {'kind': 'Rectangular', 'Nx': 2, 'Ny': 2, 'bc': 'infinite', 'pat': [[0, 1], [1, 0]], 'arg': [[0, 1], [1]], 'rect': False, 'per': 'ii'}
    yield {'kind': 'Rectangular', 'Nx': 2, 'Ny': 2, 'bc': 'infinite', 'pat': [[0, 1], [1, 0]], 'arg': {(0, 0): 0, (0, 1): 1, (1, 0): 1}, 'rect': False, 'per': 'ii'}
    yield {'kind': 'Rectangular', 'Nx': 2, 'Ny': 2, 'bc': 'infinite', 'pat': [[0, 1], [1, 0]], 'arg': {(1, 1): 0, (1, 2): 1, (2, 1): 1, (2, 2): 0}, 'rect': False, 'per': 'ii'}
    yield {'kind': 'Rectangular', 'Nx': 2, 'Ny': 2, 'bc': 'infinite', 'pat': [[0, 1], [1, 0]], 'arg': {(0, 0): 0, (0, 1): 1, (1, 0): 1, (1, 1): 0}, 'rect': True, 'per': 'ii'}
    yield {'kind': 'Rectangular', 'Nx': 1, 'Ny': 1, 'bc': 'infinite', 'pat': [[0]], 'arg': 5, 'rect': False, 'per': 'ii'}


def valid_pattern(pat):
    """ only used to decide how much to log (NOT an oracle): the verdict comes from TLC """
    return True


def geometry_events(tier, rep):
    from yastn import YastnError
    evs = []
    nvalid = 0
    for g in geometries(tier):
        gs = {k: g[k] for k in ('kind', 'Nx', 'Ny', 'bc', 'pat', 'rect')}
        try:
            geo = build(g)
            out = 'ok'
        except YastnError:
            geo, out = None, 'YastnError'
        except Exception as e:  # noqa
            geo, out = None, 'raised ' + type(e).__name__
        e = {'op': 'geometry', 'g': gs, 'outcome': out}
        if geo is not None:
            try:
                e['T'] = observe(geo, g)
                nvalid += 1
            except Exception as ex:  # noqa  a public accessor failed on a geometry that was constructed
                e['outcome'] = 'accessor raised %s: %s' % (type(ex).__name__, str(ex)[:80])
        evs.append(e)
    return evs, nvalid


class Obj:
    def __init__(self, tag):
        self.tag = tag

    def shallow_copy(self):
        return Obj(self.tag)


def store_part(tier, rep):
    import yastn.tn.fpeps as fp
    depth = 3 if tier == 'quick' else 4
    geos = {'G_sq22inf': lambda: fp.SquareLattice(dims=(2, 2), boundary='infinite'),
            'G_sq21obc': lambda: fp.SquareLattice(dims=(2, 1), boundary='obc'),
            'G_sq22cyl': lambda: fp.SquareLattice(dims=(2, 2), boundary='cylinder'),
            'G_checker': lambda: fp.CheckerboardLattice(),
            'G_rect': lambda: fp.RectangularUnitcell(pattern=[[0, 1], [1, 0]]),
            'G_tri3': lambda: fp.TriangularLattice()}
    tmpl = open(os.path.join(SPEC, 'LatticeStoreMC_tmpl.cfg')).read()

    def run(name):
        cfg = os.path.join(SPEC, '_ls_%s_%d.cfg' % (name, os.getpid()))
        # the two-site lattice is explored one level deeper also in the quick tier: re-opening a patch over a patched site that was assigned since needs four steps
        write_cfg(cfg, tmpl.replace('@G@', name).replace('@D@', str(max(depth, 4) if name == 'G_sq21obc' else depth)))
        try:
            return tlc_ok('LatticeStoreMC', os.path.basename(cfg), workers=1, timeout=1200, mem='3g')
        finally:
            os.remove(cfg)
    with ThreadPoolExecutor(max_workers=6) as ex:
        results = dict(zip(geos, ex.map(run, geos)))
    total = 0
    for name, r in results.items():
        rep.add_tlc('LatticeStoreMC %s depth %d' % (name, depth), r)
        trans = r.prints('T')
        if len(trans) < 20:
            raise Machinery('no LatticeStore transitions parsed for %s' % name)
        # group admissible successors by (state, action)
        adm = {}
        for _, d0, p0, act, d1, p1 in trans:
            key = json.dumps([d0, sorted(p0), act])
            adm.setdefault(key, []).append((d1, sorted(p1)))
        for key, succ in adm.items():
            d0, p0, act = json.loads(key)
            L = fp.Lattice(geos[name]())
            objs = {}
            for site, tag in d0:
                if tag != 'None':
                    L[tuple(site)] = Obj(tag)
            if p0:
                L.move_to_patch([tuple(s) for s, _ in p0])
                for s, tag in p0:
                    L[tuple(s)] = Obj(tag)
            try:
                if act[0] == 'set':
                    L[tuple(act[1])] = Obj(act[2])
                elif act[0] == 'move_to_patch':
                    sites = [tuple(s) for s in act[1]]
                    L.move_to_patch(sites[0] if len(sites) == 1 and total % 2 else sites)
                elif act[0] == 'apply_patch':
                    L.apply_patch()
                err = None
            except Exception as e:  # noqa
                err = type(e).__name__
            total += 1
            if err is None:
                tagof = lambda o: 'None' if o is None else o.tag
                got_d = [[list(site), tagof(L._site_data[L.site2index(tuple(site))])] for site, _ in d0]
                got_p = sorted([[list(s), o.tag] for s, o in L._patch.items()])
                # public reads must agree with the state: patched sites read the patch, others their class
                reads_ok = all(tagof(L[tuple(s)]) == t for s, t in got_p) and \
                    all(tagof(L[tuple(site)]) == t for site, t in got_d if list(site) not in [p[0] for p in got_p])
                ok = any(got_d == d1 and got_p == p1 for d1, p1 in succ) and reads_ok
            else:
                ok = False
                got_d = got_p = err
            if not ok:
                rep.violation('LatticeStore:%s:%s' % (name, json.dumps(act)),
                              'Lattice container on %s: from data=%s patch=%s action %s gives data=%s patch=%s; spec allows %s' % (name, d0, p0, act, got_d, got_p, succ[:3]),
                              {'op': 'store', 'geometry': name, 'data': d0, 'patch': p0, 'action': act})
        rep.sample({'store_transition': trans[len(trans) // 2]})
    rep.cov['parts']['store_transitions_replayed'] = total
    return total


def constructor_objects_part(rep):
    """ Lattice(geometry, objects=...) forms: single object / nested list / dict; non-unique and outside assignments rejected """
    import yastn.tn.fpeps as fp
    from yastn import YastnError
    n = 0
    cases = []
    g = fp.CheckerboardLattice()
    a, b = Obj('a'), Obj('b')
    cases += [('single', g, a, {(0, 0): 'a', (0, 1): 'a', (1, 0): 'a', (5, 4): 'a'}),
              ('list', g, [[a, b], [b, a]], {(0, 0): 'a', (0, 1): 'b', (1, 0): 'b', (1, 1): 'a', (2, 3): 'b'}),
              ('list-nonunique', g, [[a, b], [a, b]], 'YastnError'),
              ('dict', g, {(0, 0): a, (0, 1): b}, {(0, 0): 'a', (1, 0): 'b', (3, 3): 'a'}),
              ('dict-missing', g, {(0, 0): a}, 'YastnError')]
    g2 = fp.SquareLattice(dims=(2, 2), boundary='obc')
    cases += [('obc-dict-outside', g2, {(0, 0): a, (0, 1): b, (1, 0): a, (1, 1): b, (2, 2): a}, 'YastnError'),
              ('obc-list', g2, [[a, b], [b, a]], {(0, 0): 'a', (0, 1): 'b', (1, 0): 'b', (1, 1): 'a'})]
    for name, geo, objs, exp in cases:
        n += 1
        try:
            L = fp.Lattice(geo, objects=objs)
            got = {s: L[s].tag for s in exp} if isinstance(exp, dict) else 'constructed'
        except YastnError:
            got = 'YastnError'
        except Exception as e:  # noqa
            got = 'raised ' + type(e).__name__
        if got != exp:
            rep.violation('LatticeCtor:%s' % name, 'Lattice(objects=...) case %s: expected %s, got %s' % (name, exp, got), {'op': 'ctor', 'case': name})
    return n


def main(tier, seed, replay=None):
    rep = Report('C20', tier, seed, 'model_checking')
    rep.cov['rule'] = ('every geometry in the bound (SquareLattice dims<=N x N x 3 boundaries, TriangularLattice both variants, Checkerboard, all '
                       'RectangularUnitcell patterns over k labels for the listed dims) is one case; non-trivial = geometry that constructs and whose '
                       'full tables were validated by TLC; LatticeStore: every transition of the bounded state graph is one implementation test')
    if replay:
        rep.write_evidence = False
    r = tlc_ok('LatticeMC', 'LatticeMC_%s.cfg' % tier, workers=16, timeout=3000, mem='8g')
    rep.add_tlc('LatticeMC (model tables satisfy all invariants)', r)
    if 'MODEL-FAIL' in r.out:
        raise Machinery('Lattice model violates its own invariants')
    evs, nvalid = geometry_events(tier, rep)
    # one trace per ~40 events
    traces = [{'ev': evs[i:i + 40]} for i in range(0, len(evs), 40)]
    acc, diag, res = validate_traces('TraceLattice', 'TraceLattice.cfg', traces, shards=16, timeout=3000, mem='3g')
    for t, rj in zip(traces, validate_traces.last_rejects):
        for l, why in rj:
            e = t['ev'][l - 1]
            g = e['g']
            clause = why.split(':')[0].strip('<">')[:40]
            sig = 'geometry:%s:%sx%s:%s:%s:%s' % (g['kind'], g['Nx'], g['Ny'], g['bc'], json.dumps(g['pat']), (e['outcome'][:60] if e['outcome'] != 'ok' else clause))
            rep.violation(sig, 'geometry %s: %s (constructor/accessor outcome: %s)' % (g, why, e['outcome']), {'op': 'geometry', 'g': g})
    if any((not a) and not rj for a, rj in zip(acc, validate_traces.last_rejects)):
        raise Machinery('a geometry trace was neither accepted nor rejected with a diagnostic')
    rep.cov['traces_validated_against_impl'] += len(evs)
    rep.cov['parts']['geometries'] = len(evs)
    rep.cov['parts']['geometries_constructed_and_tabled'] = nvalid
    ok_evs = [e for e in evs if e['outcome'] == 'ok']
    if ok_evs:
        e = ok_evs[len(ok_evs) // 2]
        rep.sample({'geometry': e['g'], 'sites': e['T']['sites'], 'bh': e['T']['bh'], 'bv': e['T']['bv']})
    rep.sample({'rejected_geometry': next((e['g'] for e in evs if e['outcome'] == 'YastnError'), None)})
    # negative controls: corrupted tables must be rejected
    import copy
    if ok_evs:
        for field, mut in (('idx', lambda T: T['idx'].__setitem__(len(T['idx']) // 2, ['zzz'])),
                           ('bv', lambda T: T['bv'].pop() if T['bv'] else None),
                           ('ford', lambda T: T['ford'][0].__setitem__(0, False))):
            bad = copy.deepcopy(next(e for e in ok_evs if e['g']['kind'] == 'Square' and e['g']['Nx'] == 2 and e['g']['Ny'] == 2))
            mut(bad['T'])
            a2, d2, _ = validate_traces('TraceLattice', 'TraceLattice.cfg', [{'ev': [bad]}], shards=1)
            if a2[0]:
                raise Machinery('negative control: corrupted %s table accepted' % field)
        rep.cov['parts']['negative_controls'] = 'corrupted idx / bonds / f_ordered tables rejected'
    nstore = store_part(tier, rep)
    nctor = constructor_objects_part(rep)
    rep.cov['evaluations'] = len(evs) + nstore + nctor
    rep.cov['distinct_nontrivial'] = nvalid + nstore
    rep.cov['exhaustive'] = True
    rep.assumptions += ['tables observed on the window [-N,2N)^2; f_ordered / nn_bond_dirn on [-1,N]^2',
                        'bonds wrapping the periodic direction of a cylinder are exempt from fermionic ordering (no total order can order them)']
    return rep.finish()
