"""C15 — operations never modify their operands; copies are independent.

Heap.tla is the aliasing discipline (pure / fresh / in-place actions over objects with a may-share relation); TLC checks its action
properties on all small histories.  Binding (I->S): drivers call the public API on real tensors, MPS/MPO and PEPS; around EVERY call
the recorder digests every live object (full representation: structure, slices, data bytes, fusion records, lazy permutation, ...)
and probes numpy.shares_memory of every new object against every live one.  TraceHeap.tla validates each event.
"""
from __future__ import annotations
import random
import numpy as np
from concurrent.futures import ProcessPoolExecutor
from vlib import Report, validate_traces, tlc_ok, Machinery
import tensors as T
from c16 import dig, tensor_digest

PURE_W = {'lincomb': 2, 'scale': 1, 'conj': 1.5, 'conj_blocks': 1, 'flip_signature': 1, 'flip_charges': 1, 'transpose': 3, 'tensordot': 4, 'vdot': 1, 'trace': 1.5,
          'add_leg': 1, 'remove_leg': 1, 'fuse': 2, 'unfuse': 1.5, 'consume_transpose': 1, 'diag': 1, 'broadcast': 1, 'apply_mask': 1, 'swap_gate': 1, 'add3': 0.5, 'norm2': 0.3}


def arrays_of(o):
    import yastn
    if isinstance(o, yastn.Tensor):
        return [np.asarray(o._data)]
    if hasattr(o, 'A') and hasattr(o, 'N'):      # MPS / MPO
        return [np.asarray(t._data) for t in o.A.values() if t is not None]
    if hasattr(o, '_site_data'):                 # Lattice / Peps
        out = []
        for t in list(o._site_data.values()) + list(o._patch.values()):
            if t is not None:
                out += arrays_of(t)
        return out
    if hasattr(o, 'ket') and hasattr(o, 'bra'):  # Peps2Layers / DoublePepsTensor
        return arrays_of(o.ket) + (arrays_of(o.bra) if o.bra is not o.ket else [])
    if hasattr(o, '__dataclass_fields__'):       # EnvCTM_local, EnvCTM_projectors, EnvBP_local, ...
        return [x for k in o.__dataclass_fields__ if getattr(o, k) is not None for x in arrays_of(getattr(o, k))]
    if hasattr(o, 'env') and hasattr(o, 'psi'):  # EnvCTM / EnvBP: the environment tensors (and projectors); psi is the caller's object, watched separately
        return arrays_of(o.env) + (arrays_of(o.proj) if hasattr(o, 'proj') else [])
    return []


def digest_of(o):
    import yastn
    if isinstance(o, yastn.Tensor):
        return tensor_digest(o)
    if hasattr(o, 'A') and hasattr(o, 'N'):
        return dig((o.N, o.nr_phys, str(o.pC), float(o.factor) if not isinstance(o.factor, complex) else complex(o.factor),
                    tuple((k, tensor_digest(t)) for k, t in sorted(o.A.items(), key=lambda kv: str(kv[0])))))
    if hasattr(o, '_site_data'):
        return dig((tuple((str(k), digest_of(t) if t is not None else None) for k, t in o._site_data.items()),
                    tuple((str(k), digest_of(t)) for k, t in o._patch.items())))
    if hasattr(o, 'ket') and hasattr(o, 'bra'):
        return dig((digest_of(o.ket), digest_of(o.bra)))
    if hasattr(o, '__dataclass_fields__'):
        return dig(tuple((k, digest_of(getattr(o, k)) if getattr(o, k) is not None else None) for k in o.__dataclass_fields__))
    if hasattr(o, 'env') and hasattr(o, 'psi'):
        return dig((digest_of(o.env), digest_of(o.proj) if hasattr(o, 'proj') else None))
    raise Machinery('cannot digest %s' % type(o))


class HeapRecorder:
    def __init__(self):
        self.objs = []      # live objects (kept alive so that ids are stable)
        self.ev = []

    def add(self, o):
        self.objs.append(o)
        return len(self.objs)       # 1-based id

    def call(self, kind, fn, f, recv=None):
        """ run f() -> result object(s) or None; log the event """
        before = [digest_of(o) for o in self.objs]
        out, res = 'ok', None
        try:
            res = f()
        except Exception as ex:  # noqa
            out = type(ex).__name__
        after = [digest_of(o) for o in self.objs]
        changed = [i + 1 for i, (b, a) in enumerate(zip(before, after)) if a != b]
        new_ids, shares = [], []
        if out == 'ok' and res is not None:
            for r in (res if isinstance(res, (list, tuple)) else [res]):
                if not (hasattr(r, '_data') or hasattr(r, 'A') or hasattr(r, '_site_data') or hasattr(r, 'ket') or (hasattr(r, 'env') and hasattr(r, 'psi'))):
                    continue
                ar = arrays_of(r)
                nid = len(self.objs) + 1
                for j, o in enumerate(self.objs):
                    if any(np.shares_memory(x, y) for x in ar for y in arrays_of(o)):
                        shares.append([nid, j + 1])
                self.add(r)
                new_ids.append(nid)
        self.ev.append({'kind': kind, 'fn': fn, 'out': out, 'recv': recv or 0, 'changed': changed, 'new': new_ids, 'shares': shares})
        return res if out == 'ok' else None


def sobs(t, sym):
    """ structure-only observation (C15 does not need exact values; operands may legitimately hold non-integers after factorisations) """
    o = T.alpha(t, sym, views=False, noent=True)
    o['ent'] = [0] * min(int(np.asarray(t._data).size), 400)
    return o


def tensor_driver(args):
    sym, ferm, seed, nsteps = args
    rng = random.Random(seed)
    cfg = T.make_config(sym, ferm)
    inits = T.gen_inits(sym, rng, nreg=3 + (seed % 2), want_diag=(seed % 2 == 0))      # every second program holds a diagonal tensor (spectrum-like operand)
    H = HeapRecorder()
    regs = [T.build_init(cfg, sym, st) for st in inits]
    hid = [H.add(t) for t in regs]
    obs = [sobs(t, sym) for t in regs]
    for _ in range(nsteps):
        r = rng.random()
        a = rng.randrange(len(regs))
        dgs = [i for i, t_ in enumerate(regs) if t_.isdiag]
        if dgs and rng.random() < 0.25:
            a, r = rng.choice(dgs), 0.45            # functions of a spectrum: entropy, truncation_mask, sqrt / rsqrt / reciprocal, ...
        if r < 0.12:
            k = rng.choice(('copy', 'clone'))
            res = H.call('fresh', k, lambda: getattr(regs[a], k)())
        elif r < 0.18:
            res = H.call('pure', 'shallow_copy', lambda: regs[a].shallow_copy())
        elif r < 0.36:
            t = regs[a]
            blocks = list(t.get_blocks_charge())
            if not blocks:
                continue
            tb = blocks[rng.randrange(len(blocks))]
            if rng.random() < 0.5:
                # documented in-place API: set_block
                shp = np.asarray(t[tb]).shape
                val = np.array([rng.choice((-3, -2, 2, 3, 5)) for _ in range(int(np.prod(shp)) if shp else 1)], dtype=np.float64).reshape(shp)
                nsym = t.config.sym.NSYM
                H.call('inplace', 'set_block', lambda: t.set_block(ts=tb, Ds=shp if not t.isdiag else shp[0], val=val) if nsym else t.set_block(Ds=shp, val=val), recv=hid[a])
            else:
                # writing through the block view returned by item access
                def wr():
                    blk = t[tb]
                    blk[...] = blk * 2 + 1
                H.call('inplace', 'block view write', wr, recv=hid[a])
            obs[a] = sobs(regs[a], sym)
            continue
        elif r < 0.42 or (r < 0.48 and regs[a].isdiag):
            # element-wise functions, conversions and scalar functions (entropy normalises the probabilities it is given: on a copy, not on the operand)
            import yastn
            t = regs[a]
            real = t.yastn_dtype == 'float64'
            names = ['abs', 'real', 'imag', 'neg', 'pow2', 'exp', 'remove_zero_blocks', 'to_numpy', 'to_dense', 'to_nonsymmetric', 'norm_inf', 'norm_fro', 'to_dict', 'save_to_dict'] + \
                    (['sqrt', 'rsqrt', 'reciprocal'] if real else []) + (['entropy', 'entropy', 'entropy2', 'truncation_mask', 'diag_to_full'] if t.isdiag and real else [])
            which = rng.choice(names)

            def elw():
                if which == 'abs':
                    return abs(t)
                if which in ('real', 'imag', 'exp', 'sqrt', 'remove_zero_blocks', 'to_numpy', 'to_dense', 'to_nonsymmetric'):
                    out = getattr(t, which)()
                    return out if hasattr(out, '_data') else None
                if which == 'rsqrt':
                    return t.rsqrt(cutoff=0.5)
                if which == 'reciprocal':
                    return t.reciprocal(cutoff=0.5)
                if which == 'neg':
                    return -t
                if which == 'pow2':
                    return t ** 2
                if which == 'norm_inf':
                    t.norm(p='inf')
                    return None
                if which == 'norm_fro':
                    t.norm()
                    return None
                if which == 'to_dict':
                    t.to_dict(level=rng.choice((0, 1, 2)))
                    return None
                if which == 'save_to_dict':
                    t.save_to_dict()
                    return None
                if which == 'entropy':
                    yastn.entropy(abs(t) if rng.random() < 0.3 else t, alpha=1)
                    return None
                if which == 'entropy2':
                    yastn.entropy(t, alpha=rng.choice((2, 0.5)))
                    return None
                if which == 'truncation_mask':
                    return yastn.linalg.truncation_mask(t, tol=0.4, D_total=2)
                if which == 'diag_to_full':
                    return t.diag()
            H.call('pure', 'elementwise.' + which, elw)
            continue
        elif r < 0.48:
            import yastn
            t = regs[a]
            if t.ndim < 2 or t.isdiag:
                continue
            p = list(range(t.ndim))
            if rng.random() < 0.5:
                rng.shuffle(p)
            k = rng.randint(1, t.ndim - 1)
            axes = (tuple(p[:k]), tuple(p[k:]))
            which = rng.choice(('svdvals', 'svdvals', 'svd', 'qr', 'norm', 'svd_trunc'))

            def fact():
                if which == 'svdvals':
                    return yastn.linalg.svd(t, axes=axes, compute_uv=False)
                if which == 'svd':
                    return list(yastn.linalg.svd(t, axes=axes, sU=rng.choice((1, -1))))
                if which == 'svd_trunc':
                    return list(yastn.linalg.svd_with_truncation(t, axes=axes, D_total=2))
                if which == 'qr':
                    return list(yastn.linalg.qr(t, axes=axes))
                t.norm()
                return None
            H.call('pure', 'linalg.' + which, fact)
            continue
        else:
            op = T.choose_op(regs, obs, rng, PURE_W, sym, allow_invalid=0.05)
            op.pop('then', None)
            box = {}

            def run():
                out, res = T.apply_op(op, regs)
                box['out'] = out
                if out not in ('ok', 'num'):
                    raise RuntimeError(out)
                return res if out == 'ok' else None
            res = H.call('pure', op['op'], run)
        if res is not None and hasattr(res, '_data'):
            if len(np.asarray(res._data)) > 3000:
                continue                       # stays registered (and watched) in the recorder, but is not used as an operand
            regs.append(res)
            hid.append(H.ev[-1]['new'][0])
            obs.append(sobs(res, sym))
    return {'ev': H.ev, 'what': 'tensor %s ferm=%s seed=%s' % (sym, ferm, seed)}


def mps_driver(args):
    import yastn
    import yastn.tn.mps as mps
    sym, seed, nsteps = args
    rng = random.Random(seed)
    ops = yastn.operators.SpinlessFermions(sym=sym) if sym in ('Z2', 'U1') else yastn.operators.Spin12(sym=sym)
    N = rng.randint(2, 5)
    I = mps.product_mpo(ops.I(), N)
    ops.config.backend.random_seed(seed)
    H = HeapRecorder()
    n0 = (N // 2,) if sym == 'U1' else ((N // 2) % 2,) if sym == 'Z2' else None
    objs = [mps.random_mps(I, n=n0, D_total=4), mps.random_mps(I, n=n0, D_total=3), mps.random_mpo(I, D_total=3)]
    hid = [H.add(o) for o in objs]          # recorder id of every driven object
    for _ in range(nsteps):
        r = rng.random()
        psis = [i for i, o in enumerate(objs) if o.nr_phys == 1]
        mpos = [i for i, o in enumerate(objs) if o.nr_phys == 2]
        a = rng.choice(psis)
        if r < 0.15:
            k = rng.choice(('copy', 'clone'))
            res = H.call('fresh', 'mps.' + k, lambda: getattr(objs[a], k)())
        elif r < 0.25:
            res = H.call('pure', 'mps.shallow_copy', lambda: objs[a].shallow_copy())
        elif r < 0.55:
            k = rng.choice(('canonize_first', 'canonize_last', 'truncate', 'orth', 'orth_only', 'orth_only', 'setitem', 'set_central', 'absorb'))
            o = objs[a]

            def f():
                if k == 'canonize_first':
                    o.canonize_(to='first', normalize=rng.random() < 0.5)
                elif k == 'canonize_last':
                    o.canonize_(to='last', normalize=rng.random() < 0.5)
                elif k == 'truncate':
                    o.canonize_(to='last')
                    o.truncate_(to='first', opts_svd={'D_total': 2})
                elif k == 'orth':
                    if o.pC is None:
                        o.orthogonalize_site_(rng.randrange(o.N), to=rng.choice(('first', 'last')))
                    o.absorb_central_(to=rng.choice(('first', 'last')))
                elif k == 'orth_only':       # leaves a central block in place (copy()/clone() must copy it too)
                    if o.pC is None:
                        o.orthogonalize_site_(rng.randrange(o.N), to=rng.choice(('first', 'last')))
                elif k == 'set_central':
                    if o.pC is not None:
                        blk = o.A[o.pC]
                        tb = blk.get_blocks_charge()[0]
                        blk[tb][...] = blk[tb] * 3       # block-view write into the central tensor
                elif k == 'setitem':
                    n = rng.randrange(o.N)
                    o[n] = 2 * o[n]
                else:
                    if o.pC is not None:
                        o.absorb_central_(to='last')
            H.call('inplace', 'mps.' + k, f, recv=hid[a])
            continue
        else:
            k = rng.choice(('add', 'mul', 'conj', 'apply', 'overlap', 'to_tensor', 'measure', 'reverse', 'neg', 'getitem_ops'))
            b = rng.choice(psis)
            m = rng.choice(mpos)

            def g():
                if k == 'add':
                    return mps.add(objs[a], objs[b], amplitudes=[1, -2]) if objs[a].N == objs[b].N else None
                if k == 'mul':
                    return 3 * objs[a]
                if k == 'neg':
                    return -objs[a]
                if k == 'conj':
                    return objs[a].conj()
                if k == 'apply':
                    return objs[m] @ objs[a]
                if k == 'overlap':
                    mps.vdot(objs[a], objs[b])
                    return None
                if k == 'measure':
                    mps.vdot(objs[a], objs[m], objs[b])
                    return None
                if k == 'to_tensor':
                    return objs[a].to_tensor() if objs[a].N <= 4 and objs[a].pC is None else None
                if k == 'reverse':
                    return objs[a].reverse_sites()
                if k == 'getitem_ops':
                    t = objs[a][0]
                    return t.transpose(axes=(2, 1, 0))
            res = H.call('pure', 'mps.' + k, g)
        if res is not None and hasattr(res, 'A') and len(objs) < 9:
            objs.append(res)
            hid.append(H.ev[-1]['new'][0])
    return {'ev': H.ev, 'what': 'mps %s seed=%s' % (sym, seed)}


def peps_driver(args):
    import yastn
    import yastn.tn.fpeps as fpeps
    sym, seed = args
    rng = random.Random(seed)
    ops = yastn.operators.SpinlessFermions(sym=sym)
    geo = fpeps.SquareLattice(dims=(2, 2), boundary=rng.choice(('obc', 'infinite')))
    vec = {s: ops.vec_n(rng.randint(0, 1)) for s in geo.sites()}
    H = HeapRecorder()
    psi = fpeps.product_peps(geo, vec)
    psi2 = fpeps.product_peps(geo, {s: ops.vec_n(1 - int(v.n[0])) for s, v in vec.items()})
    H.add(psi)
    H.add(psi2)
    c1 = H.call('fresh', 'peps.copy', lambda: psi.copy())
    c2 = H.call('fresh', 'peps.clone', lambda: psi.clone())
    sh = H.call('pure', 'peps.shallow_copy', lambda: psi.shallow_copy())
    s0 = geo.sites()[0]
    H.call('inplace', 'peps.__setitem__', lambda: psi.__setitem__(s0, 2 * psi[s0]), recv=1)
    # the same while a patch is open (evolution_step_ works on a patch): copies taken then must not share the patched tensors either
    sp = rng.sample(geo.sites(), rng.randint(1, len(geo.sites())))
    H.call('inplace', 'peps.move_to_patch', lambda: psi.move_to_patch(sp), recv=1)
    H.call('fresh', 'peps.copy (patch open)', lambda: psi.copy())
    H.call('fresh', 'peps.clone (patch open)', lambda: psi.clone())
    H.call('pure', 'peps.shallow_copy (patch open)', lambda: psi.shallow_copy())
    H.call('inplace', 'peps.__setitem__ (patched site)', lambda: psi.__setitem__(sp[0], 3 * psi[sp[0]]), recv=1)

    def wr():
        t = psi[sp[0]]
        tb = t.get_blocks_charge()[0]
        blk = t[tb]
        blk[...] = blk + 1
    H.call('inplace', 'block view write at a patched site', wr, recv=1)
    H.call('inplace', 'peps.apply_patch', lambda: psi.apply_patch(), recv=1)

    def gate():
        g = fpeps.gates.gate_nn_hopping(0.3, 0.1, ops.I(), ops.c(), ops.cp(), geo.bonds()[0])
        psi2.apply_gate_(g)
    H.call('inplace', 'peps.apply_gate_', gate, recv=2)
    H.call('pure', 'peps.to_tensor', lambda: psi2.to_tensor() if geo.boundary == 'obc' else None)
    # double-layer views: same bra and ket, and a distinct bra
    d1 = H.call('pure', 'Peps2Layers(psi)', lambda: fpeps.Peps2Layers(psi))
    d2 = H.call('pure', 'Peps2Layers(bra=psi2, ket=psi)', lambda: fpeps.Peps2Layers(bra=psi2, ket=psi))
    for nm, d in (('same bra', d1), ('distinct bra', d2)):
        if d is not None:
            for k in ('copy', 'clone'):
                if hasattr(d, k):
                    H.call('raises', 'Peps2Layers.%s (%s)' % (k, nm), lambda: getattr(d, k)())
                    if H.ev[-1]['out'] == 'ok':
                        H.ev[-1]['kind'] = 'fresh'
                        if H.ev[-1]['changed'] or H.ev[-1]['shares']:
                            pass
                    else:
                        H.ev[-1]['kind'] = 'raises'
    H.call('inplace', 'peps.__setitem__ (after copies)', lambda: psi2.__setitem__(s0, -1 * psi2[s0]), recv=2)
    return {'ev': H.ev, 'what': 'peps %s seed=%s' % (sym, seed)}


def env_driver(args):
    """ environments: EnvCTM / EnvBP built on a PEPS (copy, clone, shallow_copy, measurements, update_ / expand_outward_ / reset_ / iterate_, assignment of a tensor of
    a site), and the MPS environment Env(bra, op, ket) (setup_ / update_env_ / measure): the PEPS / MPS / MPO they are built from are watched like every other object """
    import yastn
    import yastn.tn.fpeps as fpeps
    import yastn.tn.mps as mps
    sym, seed = args
    rng = random.Random(seed)
    ops = yastn.operators.SpinlessFermions(sym=sym)
    boundary = rng.choice(('obc', 'infinite'))
    geo = fpeps.SquareLattice(dims=(2, 2), boundary=boundary)
    vec = {s: ops.vec_n((s[0] + s[1] + seed) % 2) for s in geo.sites()}
    H = HeapRecorder()
    psi = fpeps.product_peps(geo, vec)
    for b in geo.bonds()[:3]:
        psi.apply_gate_(fpeps.gates.gate_nn_hopping(0.4, 0.2, ops.I(), ops.c(), ops.cp(), b))
    H.add(psi)
    ops.config.backend.random_seed(seed)
    ctm = fpeps.EnvCTM(psi, init=rng.choice(('eye', 'rand', 'dl')))
    ictm = H.add(ctm)
    s0, s1 = geo.sites()[0], geo.sites()[-1]
    opts = {'D_total': 4, 'tol': 1e-12}
    H.call('fresh', 'EnvCTM.copy', lambda: ctm.copy())
    H.call('fresh', 'EnvCTM.clone', lambda: ctm.clone())
    H.call('pure', 'EnvCTM.shallow_copy', lambda: ctm.shallow_copy())
    H.call('pure', 'EnvCTM.measure_1site', lambda: (ctm.measure_1site(ops.n()), None)[1])
    H.call('pure', 'EnvCTM.measure_nn', lambda: (ctm.measure_nn(ops.cp(), ops.c()), None)[1])
    H.call('inplace', 'EnvCTM.update_', lambda: (ctm.update_(opts_svd=dict(opts), moves=rng.choice(('hv', 'lrtb') if boundary == 'obc' else ('hv',))), None)[1], recv=ictm)
    H.call('pure', 'EnvCTM.measure_2x2', lambda: (ctm.measure_2x2(ops.n(), ops.n(), sites=[(0, 0), (1, 1)]), None)[1])
    H.call('pure', 'EnvCTM.calculate_corner_svd', lambda: (ctm.calculate_corner_svd(), None)[1])
    H.call('fresh', 'EnvCTM.copy (after update_)', lambda: ctm.copy())
    if boundary == 'obc':
        H.call('inplace', 'EnvCTM.expand_outward_', lambda: ctm.expand_outward_(), recv=ictm)
        H.call('pure', 'EnvCTM.boundary_mps', lambda: ctm.boundary_mps(n=0, dirn='r'))
        H.call('pure', 'EnvCTM.measure_nsite_exact', lambda: (ctm.measure_nsite_exact(ops.n(), ops.n(), sites=[(0, 0), (1, 0)]), None)[1])

    def assign():
        ctm[s0].tl = 2 * ctm[s0].tl
    H.call('inplace', 'EnvCTM[site].tl = ...', assign, recv=ictm)

    def view_write():
        t = ctm[s1].t
        blk = t[t.get_blocks_charge()[0]]
        blk[...] = blk * 3
    H.call('inplace', 'block view write into an EnvCTM tensor', view_write, recv=ictm)
    H.call('inplace', 'EnvCTM.reset_', lambda: ctm.reset_(init='eye'), recv=ictm)
    H.call('inplace', 'EnvCTM.iterate_', lambda: (ctm.iterate_(opts_svd=dict(opts), max_sweeps=2), None)[1], recv=ictm)
    # belief propagation
    bp = fpeps.EnvBP(psi)
    ibp = H.add(bp)
    H.call('fresh', 'EnvBP.copy', lambda: bp.copy())
    H.call('fresh', 'EnvBP.clone', lambda: bp.clone())
    H.call('pure', 'EnvBP.shallow_copy', lambda: bp.shallow_copy())
    H.call('inplace', 'EnvBP.update_', lambda: (bp.update_(), None)[1], recv=ibp)
    H.call('pure', 'EnvBP.measure_1site', lambda: (bp.measure_1site(ops.n()), None)[1])
    H.call('inplace', 'EnvBP.iterate_', lambda: (bp.iterate_(max_sweeps=3), None)[1], recv=ibp)
    H.call('pure', 'EnvBP.measure_nn', lambda: (bp.measure_nn(ops.cp(), ops.c()), None)[1])
    H.call('fresh', 'EnvBP.copy (after iterate_)', lambda: bp.copy())
    # truncation environments are built per call: they must leave the PEPS alone
    H.call('pure', 'EnvNTU.bond_metric', lambda: (fpeps.EnvNTU(psi, which=rng.choice(('NN', 'NN+', 'NNN'))).bond_metric(*_qr(psi, geo.bonds()[0]), geo.bonds()[0].site0, geo.bonds()[0].site1, 'lr'), None)[1])
    bm = H.call('pure', 'EnvBoundaryMPS(psi)', lambda: (fpeps.EnvBoundaryMPS(psi, opts_svd={'D_total': 8}, setup='lr'), None)[1]) if boundary == 'obc' else None
    # MPS environment
    N = 4
    I = mps.product_mpo(ops.I(), N)
    Hm = mps.generate_mpo(I, [mps.Hterm(1.0, (k, k + 1), (ops.cp(), ops.c())) for k in range(N - 1)] + [mps.Hterm(1.0, (k + 1, k), (ops.cp(), ops.c())) for k in range(N - 1)])
    phi = mps.random_mps(I, n=(N // 2,) if sym == 'U1' else ((N // 2) % 2,), D_total=4)
    H.add(Hm)
    iphi = H.add(phi)
    box = {}

    def mk():
        box['env'] = mps.Env(phi, [Hm, phi])
    H.call('pure', 'mps.Env(bra, [op, ket])', mk)
    H.call('pure', 'mps.Env.setup_', lambda: (box['env'].setup_(to='first'), None)[1])        # changes the environment (not a registered object), never psi / H
    H.call('pure', 'mps.Env.measure', lambda: (box['env'].measure(), None)[1])
    H.call('pure', 'mps.Env.update_env_', lambda: (box['env'].update_env_(0, to='last'), None)[1])
    H.call('pure', 'mps.measure_1site / measure_2site', lambda: (mps.measure_1site(phi, ops.n(), phi), mps.measure_2site(phi, ops.cp(), ops.c(), phi, bonds='r1'), None)[2])
    H.call('inplace', 'mps.dmrg_ (one sweep)', lambda: (mps.dmrg_(phi, Hm, method='1site', max_sweeps=1), None)[1], recv=iphi)
    return {'ev': H.ev, 'what': 'env %s %s seed=%s' % (sym, boundary, seed)}


def _qr(psi, bond):
    from c12 import qr_bond
    Q0, Q1, _, _ = qr_bond(psi, bond.site0, bond.site1, psi.nn_bond_dirn(bond.site0, bond.site1))
    return Q0, Q1


def main(tier, seed, replay=None):
    rep = Report('C15', tier, seed, 'model_checking')
    if replay:
        rep.write_evidence = False
    rep.cov['rule'] = ('sequences of public calls (pure operations, copy/clone, shallow_copy/views, documented in-place API incl. set_block, block-view writes, MPS/PEPS item assignment and '
                       'methods ending in _) on tensors, MPS/MPO and PEPS; every live object is digested before and after every call and storage sharing is probed for every new object; '
                       'non-trivial = call that produced a new object, or an in-place call that changed something')
    r = tlc_ok('Heap', 'Heap.cfg', workers=8, timeout=900)
    rep.add_tlc('Heap (pure / fresh / in-place histories, <= 4 objects, depth 6)', r)
    nt = 60 if tier == 'quick' else 900
    syms = ['U1', 'Z2', 'Z3', 'dense', 'Z2xU1', 'U1xU1', 'U1xU1xZ2']
    tj = [(syms[i % 7], (i % 3 == 0) and bool(T.SYMS[syms[i % 7]]), seed * 100003 + i, 14 if tier == 'quick' else 18) for i in range(nt)]
    mj = [(('U1', 'Z2', 'dense')[i % 3], seed * 100019 + i, 14 if tier == 'quick' else 20) for i in range(18 if tier == 'quick' else 240)]
    pj = [(('U1', 'Z2')[i % 2], seed * 100043 + i) for i in range(4 if tier == 'quick' else 24)]
    ej = [(('U1', 'Z2')[i % 2], seed * 100057 + i) for i in range(4 if tier == 'quick' else 24)]
    with ProcessPoolExecutor(max_workers=14) as ex:
        traces = list(ex.map(tensor_driver, tj, chunksize=2)) + list(ex.map(mps_driver, mj)) + list(ex.map(peps_driver, pj)) + list(ex.map(env_driver, ej))
    acc, diag, res = validate_traces('TraceHeap', 'TraceHeap.cfg', traces, shards=16, timeout=3000)
    for t, rj in zip(traces, validate_traces.last_rejects):
        for l, why in rj[:5]:
            e = t['ev'][l - 1]
            rep.violation('heap:%s:%s:%s' % (e['kind'], e['fn'], e['out'] if e['out'] != 'ok' else 'changed' if e['changed'] else 'shares'),
                          '%s, call %d %s (%s): %s' % (t['what'], l, e['fn'], e['kind'], why[:400]), {'op': 'heap', 'trace': t['what'], 'event': e, 'index': l})
    if any((not a) and not rj for a, rj in zip(acc, validate_traces.last_rejects)):
        raise Machinery('heap trace neither accepted nor rejected')
    evs = [e for t in traces for e in t['ev']]
    rep.cov['states'] += sum(x.distinct for x in res)
    rep.cov['transitions'] += sum(x.generated for x in res)
    rep.cov['traces_validated_against_impl'] = len(traces)
    rep.cov['evaluations'] = len(evs)
    rep.cov['distinct_nontrivial'] = sum(1 for e in evs if e['new'] or (e['kind'] == 'inplace' and e['changed']))
    by = {}
    for e in evs:
        by[e['kind'] + ':' + e['fn']] = by.get(e['kind'] + ':' + e['fn'], 0) + 1
    rep.cov['parts'].update({'calls_by_kind_and_function': by, 'results_sharing_storage_with_an_operand': sum(1 for e in evs if e['shares']),
                             'inplace_calls_that_changed_a_sharing_object': sum(1 for e in evs if e['kind'] == 'inplace' and len(e['changed']) > 1)})
    rep.sample(next(e for e in evs if e['shares']))
    rep.sample(next(e for e in evs if e['kind'] == 'inplace' and e['changed']))
    import copy
    bad = {'ev': [{'kind': 'pure', 'fn': 'negative control', 'out': 'ok', 'recv': 0, 'changed': [1], 'new': [2], 'shares': []}]}
    a2, _, _ = validate_traces('TraceHeap', 'TraceHeap.cfg', [bad], shards=1)
    if a2[0]:
        raise Machinery('negative control: pure call with a changed operand accepted')
    rep.cov['parts']['negative_control'] = 'pure call that changed an operand rejected'
    rep.assumptions += ['digest covers struct, slices, data bytes, mfs, hfs, trans, isdiag (tensors); N, pC, factor and site tensors (MPS); site data and patch (PEPS)',
                        'environments (Env*) are not yet among the driven objects']
    return rep.finish()
