"""C10 — TDVP conserves what it must and is exact on the full manifold.

 (1) SweepsMC (shared with C09): the three TDVP sweep schedules as event sequences, every 12site decision sequence for N<=4, run through
     EnvCoherence: fresh reads; time budget (forward minus backward exponentials = 2 per sweep, every site covered).
 (2) I->S: real tdvp_ runs under the outside recorder: coherence of every environment instance, EXACT schedule equality (for 12site with
     the recorded enlarge_bond decisions threaded through the sweeps, 2nd order = 1 sweep per step, 4th order = 5), and per-snapshot
     relations: snapshots tile the time grid, steps*dt = tf-ti; measured verdicts: norm and energy conserved for real time and a
     time-independent Hermitian generator (1site always; 2site/12site when nothing is discarded), charge sector and canonical form kept,
     and at maximal bond dimension the state equals expm(-u t H) psi0 (real, imaginary, complex u; 2nd and 4th order; time-dependent
     generators H(t) = (1 + t) H0, for which the midpoint rule is exact, with dt not dividing the interval).
"""
from __future__ import annotations
import random
import numpy as np
from concurrent.futures import ProcessPoolExecutor
from vlib import Report, validate_traces, tlc, Machinery
import mpsx
from envx import EnvRecorder, cache_events
from c09 import FAMS, hamiltonian, dense_full, dense_op


class _Timeout(Exception):
    pass


def run(args):
    """ one tdvp_ run under a watchdog: expmv caps its Krylov dimension by the number of STORED elements of the start vector, so a
    D=1 symmetric state can make a single local update take thousands of tiny steps (slow, not wrong); such runs are skipped """
    import signal

    def on_alarm(sig, frm):
        raise _Timeout()
    old = signal.signal(signal.SIGALRM, on_alarm)
    signal.alarm(45)
    try:
        return run_inner(args)
    except _Timeout:
        return [{'op': 'skipped', 'what': 'watchdog: run %s took more than 45 s' % (args,)}]
    finally:
        signal.alarm(0)
        signal.signal(signal.SIGALRM, old)


def manifold(psi, legs):
    """ is the MPS manifold the whole charge sector?  Counted independently of yastn's leg algebra: L_q / R_q = number of product states of the
    sites left / right of a bond that arrive at bond charge q (block rule of the site tensors: sum of s*t = n, componentwise modulo the symmetry).
    complete: every admissible bond sector has D_q >= min(L_q, R_q).  one_sided: at every bond L_q <= R_q for all q or L_q >= R_q for all q; only then
    are the projectors of the 1-site splitting pairwise equal or the identity, which is what makes projector splitting EXACT (with sectors complete
    on different sides the splitting error O(dt^3) remains although the state space is the whole sector: mathematics of the method, not a defect) """
    sym = psi.config.sym
    N = psi.N

    def fuse(ts, ss):
        import numpy as _np
        return tuple(int(x) for x in sym.fuse(_np.array([[list(t) for t in ts]], dtype=_np.int64), ss, 1)[0]) if sym.NSYM else ()

    def sectors(leg):
        return {tuple(t): d for t, d in zip(leg.t, leg.D)}
    phys = [sectors(l) for l in legs]
    cand = [()] if sym.NSYM == 0 else [(q,) for q in ((0, 1) if sym.SYM_ID == 'Z2' else range(-2 * N - 2, 2 * N + 3))]     # every bond charge, present in psi or not
    lefts = []
    cur = {tuple(t): 1 for t in psi[0].get_legs(0).t}
    for n in range(N):
        A = psi[n]
        s = A.get_signature()
        nxt = {}
        for tl, c in cur.items():
            for tp, dp in phys[n].items():
                for tr in cand:
                    if fuse((tl, tp, tr), s) == tuple(A.n):
                        nxt[tr] = nxt.get(tr, 0) + c * dp
        lefts.append(nxt)
        cur = nxt
    rights = [None] * N
    cur = {tuple(t): 1 for t in psi[N - 1].get_legs(2).t}
    for n in range(N - 1, -1, -1):
        A = psi[n]
        s = A.get_signature()
        prv = {}
        for tr, c in cur.items():
            for tp, dp in phys[n].items():
                for tl in cand:
                    if fuse((tl, tp, tr), s) == tuple(A.n):
                        prv[tl] = prv.get(tl, 0) + c * dp
        rights[n] = prv
        cur = prv
    complete, one_sided = True, True
    for b in range(N - 1):           # bond between b and b+1
        D = sectors(psi[b].get_legs(2))
        L, R = lefts[b], rights[b + 1]
        qs = [q for q in set(L) | set(R) if L.get(q, 0) > 0 and R.get(q, 0) > 0]
        if any(D.get(q, 0) < min(L[q], R[q]) for q in qs):
            complete = False
        if not (all(L[q] <= R[q] for q in qs) or all(L[q] >= R[q] for q in qs)):
            one_sided = False
    return {'complete': complete, 'one_sided': one_sided}


def run_inner(args):
    import yastn
    import yastn.tn.mps as mps
    import scipy.linalg
    from yastn import YastnError
    fi, seed = args
    fam = FAMS[fi]
    rng = random.Random(seed)
    ops = mpsx.ops_of(fam)
    ops.config.backend.random_seed(seed % 9931)
    N = rng.choice((2, 3, 4, 5))
    I = mps.product_mpo(ops.I(), N)
    terms = hamiltonian(ops, fam, N, rng, I)
    legs = [ops.space()] * N
    as_sum = rng.random() < 0.25 and len(terms) >= 2
    H0 = mps.generate_mpo(I, terms)
    Hd = dense_op(H0, legs)
    Hlist = [mps.generate_mpo(I, terms[:len(terms) // 2]), mps.generate_mpo(I, terms[len(terms) // 2:])] if as_sum else H0
    tdep = rng.random() < 0.3
    if tdep:
        Hfun = (lambda t: [(1 + t) * h for h in Hlist]) if as_sum else (lambda t: (1 + t) * H0)
    method = rng.choice(('1site', '2site', '12site'))
    order = rng.choice(('2nd', '2nd', '4th'))
    u = rng.choice((1j, 1j, 1j, 1.0, 0.5 + 0.5j, -1j))
    normalize = rng.random() < 0.7 if u != 1j else True
    subtract_E = rng.random() < 0.3
    precompute = rng.random() < 0.5
    full = rng.random() < 0.6
    sector = mpsx.random_sector(ops, N, rng)
    try:
        psi = mps.random_mps(I, n=sector, D_total=64 if full else rng.choice((1, 2)), dtype='complex128')
    except YastnError:
        return None
    psi.canonize_(to='first')
    t0c, v0 = dense_full(psi, legs)
    if np.linalg.norm(v0) == 0:
        return None
    fullness = manifold(psi, legs)
    times = rng.choice(((0, 0.13), (0, 0.1, 0.25), (0.05, 0.3), (0, 0.07, 0.2, 0.21)))
    dt = rng.choice((0.05, 0.03, 0.1, 0.5))
    opts_svd = {'D_total': 64, 'tol': 1e-14}
    opts_expmv = {'hermitian': True, 'tol': 1e-12}
    what = '%s/%s N=%d seed=%s %s %s u=%s tdep=%s pre=%s full=%s sum=%s times=%s dt=%s norm=%s subE=%s' % (fam[0], fam[1], N, seed, method, order, u, tdep, precompute, full, as_sum, times, dt, normalize, subtract_E)
    rec = EnvRecorder()
    rec.install()
    ev = []
    E0 = float(np.real(np.vdot(v0, Hd @ v0)))
    nsweeps_total = 0
    k = 0
    try:
        for out in mps.tdvp_(psi, Hfun if tdep else Hlist, times=times, dt=dt, u=u, method=method, order=order, opts_expmv=opts_expmv, opts_svd=opts_svd,
                             normalize=normalize, subtract_E=subtract_E, precompute=precompute):
            k += 1
            nsweeps_total += out.steps * (1 if order == '2nd' else 5)
            tc, v = dense_full(psi, legs)
            nv = float(np.linalg.norm(v))
            tf = times[k]
            # exact reference: H(t) = (1+t) H0 commutes with itself: integral of (1+t) over [times[0], tf]
            integ = (tf - times[0]) + 0.5 * (tf ** 2 - times[0] ** 2) if tdep else (tf - times[0])
            ref = scipy.linalg.expm(-u * integ * Hd) @ v0
            if normalize:
                ref = ref / np.linalg.norm(ref)
            verd = {'same_sector': bool(tuple(tc) == tuple(t0c)), 'canonical_first': bool(psi.is_canonical(to='first') if normalize else all(psi.is_canonical(to='first', n=j) for j in range(1, N))),
                    'tf_is_requested_snapshot': bool(abs(out.tf - tf) <= 1e-12 * max(1, out.steps)),
                    'time_independent_flag': bool(out.time_independent == (not tdep))}
            real_time = (u in (1j, -1j))
            if real_time and not tdep:
                verd['norm_conserved'] = bool(abs(nv - 1) <= 1e-8)
                verd['energy_conserved'] = bool(abs(float(np.real(np.vdot(v, Hd @ v))) / nv ** 2 - E0) <= 1e-7 * max(1.0, abs(E0)))
            if normalize:
                verd['unit_norm'] = bool(abs(nv - 1) <= 1e-8)
            if full and fullness['complete'] and fullness['one_sided']:
                # phase-insensitive comparison is not enough: the state itself must coincide (subtract_E changes only a global phase/scale of the generator)
                if subtract_E:
                    ov = np.vdot(ref, v)
                    verd['exact_on_full_manifold'] = bool(abs(abs(ov) - np.linalg.norm(ref) * nv) <= 1e-7 * max(1.0, nv))
                else:
                    verd['exact_on_full_manifold'] = bool(np.linalg.norm(v - ref) <= 1e-7 * max(1.0, np.linalg.norm(ref)))
            ev.append({'op': 'tdvp_snapshot', 'what': what + ' snapshot %d' % k, 'ti': int(round(out.ti * 10 ** 8)), 'ti_expected': int(round(times[k - 1] * 10 ** 8)),
                       'steps_ok': bool(abs(out.steps * out.dt - (out.tf - out.ti)) <= 1e-12 and out.steps >= 1 and out.dt <= dt * (1 + 1e-12)), 'verdicts': verd})
    except YastnError as ex:
        ev.append({'op': 'tdvp_snapshot', 'what': what + ' raised YastnError: ' + str(ex)[:80], 'ti': 0, 'ti_expected': 1, 'steps_ok': False, 'verdicts': {}})
    finally:
        rec.uninstall()
    mname = {'1site': 'tdvp1', '2site': 'tdvp2', '12site': 'tdvp12'}[method]
    for tr in rec.traces():
        ev.append({'op': 'coherence', 'what': '%s %s' % (what, tr['cls']), 'N': tr['N'], 'pre': tr['pre'], 'events': tr['events']})
    main_envs = [tr for tr in rec.traces() if tr['cls'].startswith('Env_mps_mpo_mps')]
    if not tdep and not as_sum and len(main_envs) == 1 and k == len(times) - 1:
        ce = cache_events(main_envs[0]['events'])
        if method == '12site':
            ev.append({'op': 'schedule', 'what': what, 'N': N, 'methods': ['tdvp12run'], 'nsweeps': nsweeps_total, 'decisions': [rec.decisions], 'tail': [], 'cache': ce, 'interleave_measure': False})
        else:
            ev.append({'op': 'schedule', 'what': what, 'N': N, 'methods': [mname] * nsweeps_total, 'nsweeps': nsweeps_total, 'decisions': [[] for _ in range(nsweeps_total)], 'tail': [],
                       'cache': ce, 'interleave_measure': False})
    return ev


def main(tier, seed, replay=None):
    rep = Report('C10', tier, seed, 'model_checking')
    if replay:
        rep.write_evidence = False
    rep.cov['rule'] = ('tdvp_ runs: N=2..5, random Hermitian MPO generators (single and sums) in U1/Z2/dense, methods 1site/2site/12site, orders 2nd/4th, u in {i, -i, 1, 0.5+0.5i}, '
                       'time grids with several snapshots and dt not dividing the interval (incl. dt > interval), normalize / subtract_E / precompute flags, maximal and small bond '
                       'dimension, time-independent and linear commuting time-dependent generators; non-trivial = snapshot event / coherence trace with >= 1 Heff read')
    r = tlc('SweepsMC', 'SweepsMC.cfg', workers=16, timeout=1800, mem='6g')
    if not r.finished:
        raise Machinery('SweepsMC did not finish cleanly: %s %s' % (r.violated, r.error))
    rep.add_tlc('SweepsMC (tdvp schedules incl. every 12site decision sequence N<=4 x precompute: fresh reads, time budget)', r)
    n = 56 if tier == 'quick' else 800
    jobs = [(i % len(FAMS), seed * 1000601 + i) for i in range(n)]
    with ProcessPoolExecutor(max_workers=14) as ex:
        evs = [e for lst in ex.map(run, jobs, chunksize=1) if lst for e in lst]
    skipped = [e for e in evs if e['op'] == 'skipped']
    evs = [e for e in evs if e['op'] != 'skipped']
    if len(skipped) > n // 4:
        raise Machinery('too many tdvp runs hit the watchdog: %d of %d' % (len(skipped), n))
    traces = [{'ev': evs[i:i + 8]} for i in range(0, len(evs), 8)]
    acc, diag, res = validate_traces('TraceEnv', 'TraceEnv.cfg', traces, shards=16, timeout=3000, mem='4g')
    if not replay:
        from vlib import negative_controls
        def c_stale(e):
            # drop the refresh after a site write: the next read of that environment is stale
            if e['op'] == 'coherence':
                ev = e['events']
                for i in range(4, len(ev) - 1):
                    # update(n -> last) right before a read that uses F[n, n+1] (heff1 at n+1 / heff2 at (n+1, n+2)), site n written just before: without the update the read is stale
                    if ev[i][0] == 'update' and ev[i][2] == 'last' and ev[i + 1][0] in ('heff1', 'heff2') and ev[i + 1][1] == ev[i][1] + 1 \
                            and any(x[0] == 'write' and x[1] == ev[i][1] for x in ev[i - 4:i]) and any(x[0] == 'clear' and x[1] == ev[i][1] for x in ev[i - 4:i]):
                        del ev[i]
                        return True
        def c_sched(e):
            if e['op'] == 'schedule' and len(e['cache']) > 4:
                e['cache'][2], e['cache'][3] = e['cache'][3], e['cache'][2]
                return e['cache'][2] != e['cache'][3]
        def c_energy(e):
            if e['op'] == 'dmrg_sweep':
                e['E'] = e['E0'] - 10 * e['tol'] - 1000          # below the ground-state energy of the sector
                return True
        def c_time(e):
            if e['op'] == 'tdvp_snapshot':
                e['ti'] = e['ti_expected'] + 1
                return True
        rep.cov['parts']['negative_controls_rejected'] = negative_controls('TraceEnv', 'TraceEnv.cfg', traces, [('refresh after a site write dropped', c_stale), ('two schedule events swapped', c_sched),
                                                                                                                 ('energy below E0', c_energy), ('snapshot start time off', c_time)], timeout=900)
    for t, rj in zip(traces, validate_traces.last_rejects):
        for l, why in rj:
            e = t['ev'][l - 1]
            rep.violation('%s:%s' % (e['op'], e['what']), '%s (%s): %s' % (e['op'], e['what'], why[:600]), {'op': e['op'], 'what': e['what'], 'event': {k: v for k, v in e.items() if k not in ('events', 'cache')}})
    if any((not a) and not rj for a, rj in zip(acc, validate_traces.last_rejects)):
        raise Machinery('C10 trace neither accepted nor rejected')
    rep.cov['states'] += sum(x.distinct for x in res)
    rep.cov['transitions'] += sum(x.generated for x in res)
    rep.cov['traces_validated_against_impl'] = sum(1 for e in evs if e['op'] in ('coherence', 'schedule'))
    rep.cov['evaluations'] = len(evs)
    rep.cov['distinct_nontrivial'] = sum(1 for e in evs if e['op'] == 'tdvp_snapshot') + sum(1 for e in evs if e['op'] == 'coherence' and any(x[0].startswith('heff') for x in e['events']))
    snaps = [e for e in evs if e['op'] == 'tdvp_snapshot']
    rep.cov['parts'].update({'runs_skipped_by_watchdog': len(skipped), 'snapshots': len(snaps), 'exactness_claims': sum(1 for e in snaps if 'exact_on_full_manifold' in e['verdicts']),
                             'conservation_claims': sum(1 for e in snaps if 'energy_conserved' in e['verdicts']), 'coherence_traces': sum(1 for e in evs if e['op'] == 'coherence'),
                             'cache_events': sum(len(e['events']) for e in evs if e['op'] == 'coherence'), 'schedule_comparisons': sum(1 for e in evs if e['op'] == 'schedule'),
                             'schedule_comparisons_12site': sum(1 for e in evs if e['op'] == 'schedule' and e['methods'] == ['tdvp12run'])})
    rep.sample(snaps[0] if snaps else None)
    sc = next((e for e in evs if e['op'] == 'schedule'), None)
    if sc:
        rep.sample({k: (v if k != 'cache' else v[:12]) for k, v in sc.items()})
    rep.assumptions += ['norm / energy / distance to expm(-u t H) psi0 (scipy.linalg.expm on the dense H, trusted) are floating-point observations at 1e-7..1e-8; TLC decides protocol, schedule and the '
                        'time-grid relations', 'convergence ORDER for non-commuting time-dependent generators is not measured; the linear commuting family makes the midpoint rule exact instead']
    return rep.finish()
