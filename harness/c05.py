"""C05 — fermionic signs are consistent and order-independent.

 (a) swap_gate: programs under fermionic = True / False / per-component flags; the reference SwapGate / SwapCharge of TensorOps.tla
     multiplies each element by the sign fixed by the parities of the swapped charges in the fermionic components only.
 (b) ncon / einsum: small networks with swaps on open and contracted legs, tensors of odd and even charge; the real result for
     EVERY contraction order must equal the single ORDER-FREE value computed by TLC (TensorOps!Ncon).
 (c) fkron: see Fock.tla / TraceFock.tla — Kronecker products must be the ordered operator products of the CAR representation.
"""
from __future__ import annotations
import itertools
import random
from concurrent.futures import ProcessPoolExecutor
from vlib import Report, validate_traces, Machinery, tlc_ok
import tensors as T
from c01 import report_traces
from c03 import Runner, init_struct

FSYMS = ['Z2', 'U1', 'Z2xU1', 'U1xU1', 'U1xU1xZ2']
WEIGHTS = {'swap_gate': 6, 'swap_charge': 3, 'transpose': 2, 'tensordot': 3, 'fuse': 1.5, 'unfuse': 1, 'conj': 1, 'lincomb': 1, 'trace': 1, 'flip_charges': 0.5}


def ferm_options(sym):
    n = len(T.SYMS[sym])
    opts = [True, False]
    if n == 2:
        opts += [(True, False), (False, True)]
    if n == 3:
        opts += [(False, False, True), (True, True, False), (True, False, True)]
    return opts


def swap_program(args):
    sym, ferm, seed, nsteps = args
    prog, tr = T.generate(sym, ferm, seed, nsteps, WEIGHTS)
    return tr


def raise_site(ex):
    """ exception class + the innermost frame inside yastn's ncon scheduler (call-site identification of a crash) """
    import traceback
    site = '?'
    for fr in traceback.extract_tb(ex.__traceback__):
        if fr.filename.endswith('_einsum.py'):
            site = fr.name
    return 'raised %s@_einsum.%s' % (type(ex).__name__, site)


# canonical reproducers of the known scheduler crashes (KNOWN_FINDINGS.json): executed in every run
CANONICAL = [('Z2', True, [[3, 0, 1], [1, 2, 2, 3]], [[2, 0]]),
             ('Z2', True, [[3, 1], [3, 2, 1], [2, -1, 0]], [[-1, 3], [2, 1]]),
             ('Z2', True, [[3, 3, 1], [2, 1, 2]], [[3, 2]])]


def network(args):
    """ one random small network; returns a trace: init registers + one ncon event holding the results for many contraction orders """
    import yastn
    from yastn import YastnError
    sym, ferm, seed, maxorders = args[:4]
    unroll_mode = len(args) > 4 and args[4]          # C14: no swaps; contract_with_unroll over paths / unrollings / slicings added to the results
    rng = random.Random(seed)
    fixed = None
    if seed < 0:
        fixed = CANONICAL[-seed - 1]
    mod = T.SYMS[sym]
    K = rng.choice((2, 3, 3, 4)) if not fixed else len(fixed[2])
    # universe: two charges (parity 0 and 1 when possible), dimension 1 mostly
    uni = {}
    while len(uni) < 2:
        uni[T.rand_charge(mod, rng)] = 1 if rng.random() < 0.8 else 2
    space = [(t, uni[t]) for t in sorted(uni)]
    # edges
    nedges = rng.randint(K - 1, K + 1)
    legs = [[] for _ in range(K)]        # per tensor: list of (label, signature)
    lab = 0
    # one network in four is DISCONNECTED (outer product of two pieces, contracted last whatever the order): pieces with different numbers of open legs and swaps between
    # open legs of different pieces
    cut = rng.randrange(K - 1) if (not fixed and K >= 2 and rng.random() < 0.25) else None
    for e in range(nedges):
        lab += 1
        if e == cut:
            lab -= 1
            continue
        if e < K - 1:
            i, j = e, e + 1                # a chain keeps the network (or each of its two pieces) connected
        elif cut is not None:
            pick_left = rng.random() < 0.5
            side = [k for k in range(K) if (k <= cut) == pick_left]
            i, j = rng.choice(side), rng.choice(side)
            if i == j and len(legs[i]) >= 3:
                lab -= 1
                continue
        else:
            i, j = rng.randrange(K), rng.randrange(K)
            if i == j and len(legs[i]) >= 3:
                j = (i + 1) % K
        sg = rng.choice((1, -1))
        legs[i].append((lab, sg))
        legs[j].append((lab, -sg))
    if fixed:
        seen = {}
        legs = [[] for _ in range(K)]
        for i, q in enumerate(fixed[2]):
            for l in q:
                if l > 0:
                    sg = -seen[l] if l in seen else 1
                    seen[l] = sg
                else:
                    sg = 1
                legs[i].append((l, sg))
    nopen = 0
    for i in range(K):
        while not fixed and len(legs[i]) < (rng.choice((2, 3)) if cut is None else (rng.choice((1, 2)) if i <= cut else rng.choice((3, 4)))) and len(legs[i]) < 4:
            legs[i].append((-nopen, rng.choice((1, -1))))
            nopen += 1
        if not fixed:
            rng.shuffle(legs[i])
    inits = []
    for i in range(K):
        s = [sg for _, sg in legs[i]]
        lg = [space if rng.random() < 0.8 else space[:1] for _ in s]
        st = init_struct(sym, s, lg, rng, density=rng.choice((0.7, 1.0)), dtype='float64' if rng.random() < 0.8 else 'complex128')
        odd = [n for n in T.admissible_charges(sym, s, lg) if any(x % 2 for x in n)]
        if odd and rng.random() < 0.6:          # tensors of odd parity (in some component) are the hard case for the jump moves
            st['n'] = rng.choice(odd)
        inits.append(st)
    knob = {'fusion': 'hard', 'force': None, 'policy': 'fuse_to_matrix'}
    cfg = T.make_config(sym, ferm, knob['fusion'], knob['force'], knob['policy'])
    ts = [T.build_init(cfg, sym, st) for st in inits]
    obs = [T.alpha(t, sym) for t in ts]
    ev = [{'op': 'init', 'obs': o} for o in obs]
    prog = T.Prog(sym, ferm, inits, [], seed)
    size = 1
    for o in obs:
        size *= max(1, len(o['ent']))
    if size > 20000 or size == 0:
        return T.trace_dict(prog, knob, ev)
    inds = [[l for l, _ in legs[i]] for i in range(K)]
    labels = sorted({l for q in inds for l in q})
    pos = [l for l in labels if l > 0]
    swaps = [list(x) for x in fixed[3]] if fixed else []
    if unroll_mode:
        swaps = []
    elif cut is not None:
        left = [l for i in range(K) if i <= cut for l, _ in legs[i] if l <= 0]
        right = [l for i in range(K) if i > cut for l, _ in legs[i] if l <= 0]
        for _ in range(rng.choice((1, 2))):
            if left and right:
                swaps.append([rng.choice(left), rng.choice(right)])
    for _ in range(rng.choice((0, 1, 2, 3)) if not fixed and not unroll_mode else 0):
        x, y = rng.choice(labels), rng.choice(labels)
        if x != y:
            swaps.append([x, y])
            while rng.random() < 0.2:        # the same crossing listed again: crossings cancel in pairs
                swaps.append([x, y] if rng.random() < 0.5 else [y, x])
    conjs = [0] * K
    orders = list(itertools.permutations(pos))
    rng.shuffle(orders)
    results = []
    for od in orders[:maxorders]:
        try:
            r = yastn.ncon(ts, inds, conjs=conjs, order=list(od), swap=[tuple(x) for x in swaps])
            results.append({'order': list(od), 'out': 'ok', 'obs': T.alpha(r, sym)})
        except YastnError as ex:
            if 'inefficient order' in str(ex) or 'one after another' in str(ex):
                continue          # the scheduler refuses this order (documented); not an answer
            results.append({'order': list(od), 'out': 'YastnError'})
        except Exception as ex:  # noqa
            results.append({'order': list(od), 'out': raise_site(ex)})
    # einsum with the same network (alphabetical default order and one explicit order)
    if len(labels) <= 20 and results:
        alpha = 'abcdefghijklmnopqrstuvwxyz'
        name = {l: alpha[k] for k, l in enumerate(pos)}
        outs = [l for l in labels if l <= 0]
        name.update({l: alpha[len(pos) + k] for k, l in enumerate(sorted(outs, reverse=True))})
        sub = ','.join(''.join(name[l] for l in q) for q in inds) + '->' + ''.join(name[l] for l in sorted(outs, reverse=True))
        sw = ','.join(name[x] + name[y] for x, y in swaps) if swaps else None
        for od in (None, ''.join(name[l] for l in orders[0])):
            try:
                r = yastn.einsum(sub, *ts, order=od, swap=sw)
                results.append({'order': 'einsum %s order=%s' % (sub, od), 'out': 'ok', 'obs': T.alpha(r, sym)})
            except YastnError as ex:
                if 'inefficient order' in str(ex) or 'one after another' in str(ex):
                    continue
                results.append({'order': 'einsum %s order=%s' % (sub, od), 'out': 'YastnError'})
            except Exception as ex:  # noqa
                results.append({'order': 'einsum %s' % sub, 'out': raise_site(ex)})
    # contract_with_unroll: every contraction path and every unrolling / slicing of a label gives the same tensor (C14); labels that sit twice on one tensor (traces)
    # are outside the interleaved einsum format
    if unroll_mode and results and all(len(set(q)) == len(q) for q in inds) and cut is None and all(len(t.struct.t) > 0 for t in ts):      # (get_contraction_path cannot size an operand without blocks: observation, DESIGN 5.3)
        outs = sorted([l for l in labels if l <= 0], reverse=True)
        inter = []
        for t, q in zip(ts, inds):
            inter += [t, tuple('L%d' % l for l in q)]
        inter.append(tuple('L%d' % l for l in outs))
        leg_of = {}
        for t, q in zip(ts, inds):
            for ax, l in enumerate(q):
                leg_of.setdefault('L%d' % l, t.get_legs(ax))
        variants = [('no unroll', None)]
        for _ in range(3):
            lab = rng.choice(sorted(leg_of))
            how = rng.choice(('sectors', 'uniform1', 'uniform2', 'two labels'))
            if how == 'sectors':
                variants.append(('unroll %s by sector' % lab, {lab: yastn.make_sliced_legs(leg_of[lab])}))
            elif how == 'uniform1':
                variants.append(('unroll %s in slices of 1' % lab, {lab: 1}))
            elif how == 'uniform2':
                variants.append(('unroll %s in slices of 2' % lab, {lab: 2}))
            else:
                lab2 = rng.choice(sorted(leg_of))
                # (an operand ALL of whose labels are unrolled becomes a scalar per slice, which get_contraction_path cannot size: observation, DESIGN 5.3)
                if lab2 != lab and not any(set('L%d' % l for l in q) <= {lab, lab2} for q in inds):
                    variants.append(('unroll %s by sector and %s in slices of 1' % (lab, lab2), {lab: yastn.make_sliced_legs(leg_of[lab]), lab2: 1}))
        for name, un in variants:
            for opt in (('auto',) if un is not None and rng.random() < 0.5 else ('auto', 'greedy')):
                try:
                    import copy as _copy
                    un1 = None if un is None else {k: (list(v) if isinstance(v, list) else v) for k, v in un.items()}
                    un2 = None if un is None else {k: (list(v) if isinstance(v, list) else v) for k, v in un.items()}
                    path, _ = yastn.get_contraction_path(*inter, unroll=un1, optimizer=opt) if opt != 'auto' else yastn.get_contraction_path(*inter, unroll=un1)
                    fun = yastn.contract_with_unroll          # (the non-exported variant contract_with_unroll_compute_constants is not public API)
                    r = fun(*inter, unroll=un2, optimize=path)
                    if not isinstance(r, yastn.Tensor):
                        r = yastn.Tensor(config=cfg, s=(), val=r) if False else r
                    results.append({'order': 'contract_with_unroll %s optimizer=%s %s' % (name, opt, fun.__name__), 'out': 'ok', 'obs': T.alpha(r, sym)})
                except YastnError as ex:
                    results.append({'order': 'contract_with_unroll %s optimizer=%s' % (name, opt), 'out': 'YastnError'})
                except Exception as ex:  # noqa
                    results.append({'order': 'contract_with_unroll %s optimizer=%s' % (name, opt), 'out': raise_site(ex)})
    if results:
        ev.append({'op': 'ncon', 'ts': list(range(1, K + 1)), 'conjs': conjs, 'inds': inds, 'swaps': swaps, 'results': results, 'a': 1})
    return T.trace_dict(prog, knob, ev)


def report_nets(rep, nets):
    """ ncon traces: one violation per distinct failing clause; scheduler crashes are identified by their call site """
    import re
    acc, diag, res = validate_traces('TraceTensor', 'TraceTensor.cfg', nets, shards=16, timeout=3000, mem='3g')
    nev = sum(len(t['ev']) for t in nets)
    for t, a, d in zip(nets, acc, diag):
        if a:
            continue
        e = next((x for x in t['ev'] if x['op'] == 'ncon'), None)
        m = re.search(r'"(raised [A-Za-z]+@[A-Za-z_.<>]+)"', d or '')
        kind = m.group(1) if m else 'value'
        flat = [l for q in e['inds'] for l in q] if e else []
        selfloop = {l for q in (e['inds'] if e else []) for l in q if q.count(l) == 2}
        if e and any(x in selfloop or y in selfloop for x, y in e['swaps']):
            sig = 'ncon:swap-on-traced-label:' + kind           # structural class of the input
        elif m:
            sig = 'ncon:' + kind
        else:
            sig = 'ncon:%s:seed=%s:%s' % (t['sym'], t['seed'], (d or '')[:80])
        rep.violation(sig, '%s network seed=%s fermionic=%s inds=%s swaps=%s: %s' % (t['sym'], t['seed'], t['ferm'], e and e['inds'], e and e['swaps'], (d or '')[:700]),
                      {'op': 'ncon', 'sym': t['sym'], 'seed': t['seed'], 'ferm': t['ferm'], 'inds': e and e['inds'], 'swaps': e and e['swaps'],
                       'bad_orders': e and [(r['order'], r['out']) for r in e['results'] if r['out'] != 'ok'][:6]})
    for r in res:
        if r.violated:
            raise Machinery('TraceTensor invariant violated: %s' % r.violated)
    rep.cov['states'] += sum(r.distinct for r in res)
    rep.cov['transitions'] += sum(r.generated for r in res)
    return nev, {'ncon': sum(1 for t in nets for x in t['ev'] if x['op'] == 'ncon')}, 0


def main(tier, seed, replay=None):
    rep = Report('C05', tier, seed, 'model_checking')
    rep.cov['rule'] = ('(a) programs with swap_gate / swap_gate(charge=) under fermionic True/False/per-component flags in Z2, U1, Z2xU1, U1xU1, U1xU1xZ2; (b) random small networks (2-4 tensors, '
                       'chains/loops/self-loops/open legs, odd and even tensor charges, 0-3 swaps on open and contracted legs) evaluated by the real ncon for all contraction orders (<= 24) and by '
                       'einsum, each compared with the order-free value computed by TLC; (c) fkron vs the CAR representation of Fock.tla. non-trivial = event with non-empty operands')
    if replay:
        rep.write_evidence = False
    nprog = 150 if tier == 'quick' else 2500
    jobs = []
    for i in range(nprog):
        sym = FSYMS[i % len(FSYMS)]
        fo = ferm_options(sym)
        jobs.append((sym, fo[(i // len(FSYMS)) % len(fo)], seed * 1000003 + i, 7 if tier == 'quick' else 9))
    nnet = 600 if tier == 'quick' else 8000
    njobs = []
    for i in range(nnet):
        sym = FSYMS[i % len(FSYMS)]
        fo = [f for f in ferm_options(sym) if f is not False]
        njobs.append((sym, fo[(i // len(FSYMS)) % len(fo)], seed * 1000033 + i + 1, 24 if tier == 'quick' else 24))
    njobs += [(c[0], c[1], -(k + 1), 24) for k, c in enumerate(CANONICAL)]
    with ProcessPoolExecutor(max_workers=14) as ex:
        traces = list(ex.map(swap_program, jobs, chunksize=4))
        nets = list(ex.map(network, njobs, chunksize=4))
    nev, kinds, rej = report_traces(rep, traces)
    nev2, kinds2, rej2 = report_nets(rep, nets)
    nev += nev2
    kinds.update(kinds2)
    norders = sum(len(e['results']) for t in nets for e in t['ev'] if e['op'] == 'ncon')
    rep.cov['traces_validated_against_impl'] = len(traces) + len(nets)
    rep.cov['evaluations'] = nev + norders
    rep.cov['distinct_nontrivial'] = sum(1 for t in traces for e in t['ev'] if e['op'] in ('swap_gate', 'swap_charge')) + norders
    rep.cov['parts'].update({'events_by_op': kinds, 'networks': sum(1 for t in nets if any(e['op'] == 'ncon' for e in t['ev'])), 'ncon_and_einsum_calls_compared': norders,
                             'networks_with_swaps': sum(1 for t in nets for e in t['ev'] if e['op'] == 'ncon' and e['swaps'])})
    ex_net = next((e for t in nets for e in t['ev'] if e['op'] == 'ncon' and e['swaps']), None)
    if ex_net:
        rep.sample({'network': {k: ex_net[k] for k in ('inds', 'swaps', 'conjs')}, 'orders_compared': [r['order'] for r in ex_net['results']]})
    import c05_fock
    c05_fock.run(rep, tier, seed)
    rep.assumptions += ['ncon networks use two charge sectors per leg and mostly dimension one (signs depend on charges only)', 'orders the ncon scheduler refuses as inefficient are skipped']
    return rep.finish()
