"""C01 — tensor algebra agrees with dense linear algebra (exact, on Gaussian-integer data).

Programs over append-only registers are generated and executed on real yastn tensors; every step logs the observed
abstract state of the result (or the rejection).  TLC (TraceTensor.tla + TensorOps.tla) recomputes each result from the
observed operands with label-based reference semantics and decides acceptance/rejection, element values, total charge,
signatures, leg order, admissible leg sectors, well-formedness and agreement of block access / to_numpy / to_nonsymmetric.
"""
from __future__ import annotations
import random
from concurrent.futures import ProcessPoolExecutor
from vlib import Report, validate_traces, Machinery
import tensors as T

WEIGHTS = {'lincomb': 3, 'scale': 1, 'conj': 1.5, 'conj_blocks': 0.7, 'flip_signature': 0.7, 'flip_charges': 1, 'transpose': 3,
           'tensordot': 6, 'vdot': 1.5, 'trace': 2, 'add_leg': 1, 'remove_leg': 1, 'fuse': 2, 'unfuse': 2, 'copy': 0.3,
           'consume_transpose': 0.7, 'norm2': 0.5, 'add3': 1, 'diag': 1.2, 'broadcast': 1.2, 'apply_mask': 1.2}
SYMLIST = ['U1', 'Z2', 'Z3', 'dense', 'Z2xU1', 'U1xU1', 'U1xU1xZ2']


def gen_one(args):
    sym, seed, nsteps, weights = args
    prog, tr = T.generate(sym, False, seed, nsteps, weights)
    return tr


def run_programs(rep, nprog, nsteps, seed, weights, pid, ferm=False):
    jobs = [(SYMLIST[i % len(SYMLIST)], seed * 100003 + i, nsteps, weights) for i in range(nprog)]
    with ProcessPoolExecutor(max_workers=14) as ex:
        traces = list(ex.map(gen_one, jobs, chunksize=4))
    return traces


def report_traces(rep, traces, pid_label='tensor'):
    acc, diag, res = validate_traces('TraceTensor', 'TraceTensor.cfg', traces, shards=16, timeout=3000, mem='3g')
    nev = 0
    kinds = {}
    rej = 0
    for t, a, d in zip(traces, acc, diag):
        for e in t['ev']:
            nev += 1
            kinds[e['op']] = kinds.get(e['op'], 0) + 1
            if e.get('out') == 'YastnError':
                rej += 1
        if not a:
            import re as _re
            m = _re.match(r'event (\d+): (.*)', d or '', _re.S)
            l = int(m.group(1)) if m else 0
            e = t['ev'][l - 1] if l else {}
            op = {k: v for k, v in e.items() if k != 'obs'}
            sig = '%s:%s:seed=%s:event=%d:%s' % (t['sym'], e.get('op'), t['seed'], l, t['knob'])
            rep.violation(sig, '%s program seed=%s knob=%s, event %d %s: %s' % (t['sym'], t['seed'], t['knob'], l, op, (m.group(2) if m else d)[:900]),
                          {'op': 'program', 'sym': t['sym'], 'seed': t['seed'], 'knob': t['knob'], 'event': l, 'event_args': op, 'ferm': t['ferm']})
    for r in res:
        if r.violated:
            raise Machinery('TraceTensor invariant violated: %s' % r.violated)
    rep.cov['states'] += sum(r.distinct for r in res)
    rep.cov['transitions'] += sum(r.generated for r in res)
    rep.cov['tlc_runs'].append({'name': 'TraceTensor batched trace validation (%d shards)' % len(res), 'distinct_states': sum(r.distinct for r in res),
                                'states_generated': sum(r.generated for r in res), 'wall_s': round(max(r.wall for r in res), 1)})
    return nev, kinds, rej


def main(tier, seed, replay=None):
    rep = Report('C01', tier, seed, 'model_checking')
    rep.cov['rule'] = ('programs of public tensor operations over append-only registers, generated with a seeded RNG over all shipped symmetries, ranks 0..4, '
                       'random signatures / sector sets / dimensions / total charges / stored-block subsets / real+complex / diagonal operands; every event is validated '
                       'by TLC against label-based reference semantics. non-trivial = event whose operation executed (or had to be rejected) on a register with >= 1 element')
    if replay:
        rep.write_evidence = False
        import json
        c = json.load(open(replay))['case']
        if c.get('kind') in ('S1', 'S2'):
            import c03
            traces = [c03.scenario((c['sym'], c['seed'], c['kind']))]
        else:
            prog, tr = T.generate(c['sym'], False, c['seed'], 7 if tier == 'quick' else 9, WEIGHTS)
            traces = [tr]
        s2seeds = {}
    else:
        nprog = 320 if tier == 'quick' else 4000
        traces = run_programs(rep, nprog, 7 if tier == 'quick' else 9, seed, WEIGHTS, 'C01')
        # trace over FUSED groups whose two sides carry different sector content, stored in a permuted order and possibly lazily transposed
        # (the scenario generator of C03/S2): the random programs above only trace legs that agree sector by sector
        import c03
        s2jobs = [(SYMLIST[i % len(SYMLIST)], seed * 1000211 + 500000 + i, 'S2' if (i // 7) % 2 == 0 else 'S1') for i in range(140 if tier == 'quick' else 1400)]
        with ProcessPoolExecutor(max_workers=14) as ex:
            s2 = list(ex.map(c03.scenario, s2jobs, chunksize=4))
        s2seeds = {j[1]: j[2] for j in s2jobs}
        traces += s2
    nev, kinds, rej = report_traces(rep, traces)
    for v in rep.violations:
        if v[2].get('seed') in s2seeds:
            v[2]['kind'] = s2seeds[v[2]['seed']]
    rep.cov['traces_validated_against_impl'] = len(traces)
    rep.cov['evaluations'] = nev
    rep.cov['distinct_nontrivial'] = sum(1 for t in traces for e in t['ev'] if e['op'] != 'init' and (e.get('out') != 'ok' or 'val' in e or e['obs']['ent']))
    rep.cov['parts'].update({'events_by_op': kinds, 'rejections_checked': rej})
    t0 = traces[len(traces) // 2]
    rep.sample({'sym': t0['sym'], 'seed': t0['seed'], 'ops': [{k: v for k, v in e.items() if k != 'obs'} for e in t0['ev'] if e['op'] != 'init']})
    # negative control: corrupt one element of one observed result
    import copy
    for t in traces:
        cand = [i for i, e in enumerate(t['ev']) if e['op'] == 'tensordot' and e.get('out') == 'ok' and e['obs']['ent']]
        if cand:
            bad = copy.deepcopy(t)
            bad['ev'][cand[0]]['obs']['ent'][0][1][0] += 1
            a2, d2, _ = validate_traces('TraceTensor', 'TraceTensor.cfg', [bad], shards=1)
            if a2[0]:
                raise Machinery('negative control: corrupted tensordot element accepted')
            rep.cov['parts']['negative_control'] = 'corrupted element rejected: %s' % (d2[0] or '')[:100]
            break
    rep.assumptions += ['NumPy backend', 'alpha reads fused tensors through unfuse_legs (a consistent change of the internal fused basis raises no alarm)',
                        'element values are small Gaussian integers, so float64 arithmetic is exact']
    return rep.finish()
