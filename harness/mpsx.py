"""MPS layer of the harness: families (local space x symmetry), integer-valued MPS/MPO, dense observation (alpha of to_tensor)."""
from __future__ import annotations
import random
import numpy as np
from fractions import Fraction
from vlib import Machinery
import tensors as T

FAMILIES = [('Spin12', 'dense'), ('Spin12', 'Z2'), ('Spin12', 'U1'), ('Spin1', 'Z3'), ('Spin1', 'U1'), ('Spin1', 'dense'),
            ('SpinlessFermions', 'Z2'), ('SpinlessFermions', 'U1'),
            ('SpinfulFermions', 'Z2'), ('SpinfulFermions', 'U1'), ('SpinfulFermions', 'U1xU1'), ('SpinfulFermions', 'U1xU1xZ2')]


def ops_of(fam):
    import yastn
    return getattr(yastn.operators, fam[0])(sym=fam[1])


def local_dim(fam):
    return {'Spin12': 2, 'Spin1': 3, 'SpinlessFermions': 2, 'SpinfulFermions': 4}[fam[0]]


def integerise(psi, rng, complex_p=0.0):
    """ overwrite the data of every site tensor by small integers (in place, through block views): an MPS/MPO of the same structure """
    for n in psi.sweep(to='last'):
        A = psi[n]
        for t in A.get_blocks_charge():
            blk = A[t]
            vals = np.array([rng.choice((-2, -1, 1, 1, 2, 0)) for _ in range(blk.size)], dtype=np.float64).reshape(blk.shape)
            if complex_p and np.iscomplexobj(blk):
                vals = vals + 1j * np.array([rng.choice((-1, 0, 0, 1)) for _ in range(blk.size)]).reshape(blk.shape)
            blk[...] = vals
    return psi


def int_mps(I, rng, D=2, n=None, dtype='float64'):
    import yastn.tn.mps as mps
    psi = mps.random_mps(I, n=n, D_total=D, dtype=dtype)
    return integerise(psi, rng, complex_p=0.5 if dtype == 'complex128' else 0)


def int_mpo(I, rng, D=2, dtype='float64'):
    import yastn.tn.mps as mps
    O = mps.random_mpo(I, D_total=D, dtype=dtype)
    return integerise(O, rng, complex_p=0.5 if dtype == 'complex128' else 0)


def dense_obs(obj, sym):
    """ abstract state of an MPS/MPO = alpha of the tensor it represents (central block absorbed on a shallow copy) """
    x = obj
    if obj.pC is not None:
        x = obj.shallow_copy()
        x.absorb_central_()
    return T.alpha(x.to_tensor(), sym, views=False)


def frac(x):
    f = Fraction(float(np.real(x))).limit_denominator(10000)
    return [f.numerator, f.denominator]


def random_sector(ops, N, rng):
    """ total charge of a random product state: always an admissible sector """
    leg = ops.space()
    ts = [leg.t[rng.randrange(len(leg.t))] for _ in range(N)]
    return ops.config.sym.add_charges(*ts) if ts and ops.config.sym.NSYM else None
