"""C12 — Exact PEPS environments give exact expectation values and valid metrics.

 design level (TLC, EnvCoverMC): the region every environment object stands for, as a bag of sites - CTM reset_/expand_outward_ recursion, boundary-MPS
     set-up, the formulas of the measure functions count every site exactly once iff the tensors are exact, exactness arrives after exactly
     max(Nx, Ny) - 1 expansions; NTU cluster shapes.
 bound to the code by recorded traces validated by TLC (TracePepsEnv on PepsMeasure / PepsOps / Fock / EnvCover):
   measure : a finite open PEPS is built from a product state by a shallow circuit of integer two-site gates; to_tensor() is registered as an integer
             Fock vector; every number returned by measure_1site / measure_nn / measure_2site / measure_nsite / measure_2x2 / measure_line /
             measure_nsite_exact of EnvBoundaryMPS (all set-up strings, several opts_var), EnvCTM (expanded the number of times the spec demands)
             and EnvBP (circuits on a spanning forest) is logged as the Gaussian integer nearest to value * <psi|psi>; TLC computes
             <psi|O|psi> and <psi|psi> exactly with Jordan-Wigner signs and demands equality.
   metric  : bond_metric of EnvNTU (six cluster types), exact EnvCTM and EnvBP on every bond: Hermiticity defect and smallest eigenvalue against TolMetric.
   evolve  : evolution_step_ with a non-binding truncation: to_tensor() afterwards, rescaled by one scalar, must be EXACTLY the gate applied to the
             registered state (computed by TLC), the reported truncation error at round-off level.
   cover   : which PEPS tensors an environment object depends on (one tensor perturbed at a time on a generic PEPS) = the region of EnvCover.
"""
from __future__ import annotations
import random
import itertools
import numpy as np
from concurrent.futures import ProcessPoolExecutor
from vlib import Report, validate_traces, tlc_ok, Machinery
import pepsx

DEN_MAX = 2 ** 26
PPT = 1e12
WHICH = ['NN', 'NN+', 'NN++', 'NNN', 'NNN+', 'NNN++']
LATTICES = [(1, 2), (2, 1), (1, 3), (3, 1), (2, 2), (2, 3), (3, 2), (1, 4), (4, 1), (2, 4), (4, 2), (3, 3), (1, 5), (5, 1)]
SETUPS = ['lr', 'tb', 'lrtb', 'l', 'r', 't', 'b']
OPTS_VAR = [None, {'max_sweeps': 2}, {'max_sweeps': 3, 'normalize': True}, {'max_sweeps': 1, 'normalize': False}]


def ppt(x):
    """ floor(x * 1e12) clipped to TLC's integer range """
    if not np.isfinite(x):
        return 2 ** 30 if not x < 0 else -2 ** 30
    return int(max(-2 ** 30, min(2 ** 30, np.floor(float(x) * PPT))))


def fidx(order, site):
    return order.index(tuple(site) if not isinstance(site, tuple) else site)


def hop_gate(fam, rng):
    """ integer two-site operator a + b (A_0 B_1 + A_1 B_0) [+ c C_0 D_1]: identity present (keeps the state non-zero), a hopping / exchange / pairing
    term in BOTH directions (builds superpositions from product states), optionally one more term """
    import yastn
    movers = [p for p in fam.pairs if 'I' not in p and p[0] != p[1] and not (p[0].startswith('n') and p[1].startswith('n')) and 'nund' not in p]
    others = [p for p in fam.pairs if p != ('I', 'I')]
    I2 = yastn.fkron(fam.named['I'], fam.named['I'])
    G = rng.choice([1, 1, 1, 2, 1j]) * I2
    a, b = rng.choice(movers)
    c = rng.choice([1, -1, 1j, -1j])
    G = G + c * yastn.fkron(fam.named[a], fam.named[b], sites=(0, 1)) + rng.choice([c, -c, np.conj(c)]) * yastn.fkron(fam.named[a], fam.named[b], sites=(1, 0))
    if rng.random() < 0.4:
        a, b = rng.choice(others)
        G = G + rng.choice([1, -1, 1j, 2]) * yastn.fkron(fam.named[a], fam.named[b], sites=(0, 1) if rng.random() < 0.5 else (1, 0))
    return G


def spanning_forest(g, rng):
    """ random spanning tree of the lattice graph (bonds as (s0, s1) in lattice order) """
    bonds = [(tuple(b.site0), tuple(b.site1)) for b in g.bonds()]
    rng.shuffle(bonds)
    parent = {tuple(s): tuple(s) for s in g.sites()}

    def find(x):
        while parent[x] != x:
            x = parent[x]
        return x
    tree = []
    for s0, s1 in bonds:
        a, b = find(s0), find(s1)
        if a != b:
            parent[a] = b
            tree.append((s0, s1))
    return tree


def build_state(fam, g, rng, ngates, tree, tag, register=True):
    """ product state + shallow integer circuit; returns psi, events, register id of the final state """
    import yastn.tn.fpeps as fpeps
    order = [tuple(s) for s in g.sites()]
    N, nm = len(order), fam.nm
    # near half filling so that the gates find something to move
    occs = {}
    for i, s in enumerate(order):
        occs[s] = fam.occs[(s[0] + s[1] + (rng.random() < 0.25)) % len(fam.occs)] if rng.random() < 0.8 else rng.choice(fam.occs)
    psi = fpeps.product_peps(g, {s: fam.projector(occs[s]) for s in order})
    if not register:
        bonds = tree if tree is not None else [(tuple(b.site0), tuple(b.site1)) for b in g.bonds()]
        for k in range(ngates):
            s0, s1 = bonds[k % len(bonds)] if rng.random() < 0.6 else bonds[k % len(bonds)][::-1]
            before = psi.copy()
            psi.apply_gate_(fpeps.gates.decompose_nn_gate(hop_gate(fam, rng), bond=(s0, s1)))
            if not float(psi.to_tensor().norm()) > 0:      # the gate annihilated the state: every metric of the zero state vanishes
                psi = before
        return psi, order, [], 0
    ent, integral = pepsx.state_entries(fam, psi, order)
    ev = [{'op': 'init', 'what': tag + ' init', 'dst': 0, 'ent': ent, 'integral': integral}]
    cur = 0
    bonds = tree if tree is not None else [(tuple(b.site0), tuple(b.site1)) for b in g.bonds()]
    used = {}
    maxper = 1 if N >= 8 else 2
    trials = 0
    applied = 0
    while applied < ngates and trials < 4 * ngates:
        trials += 1
        cand = [b for b in bonds if used.get(b, 0) < maxper]
        if not cand:
            break
        bond = rng.choice(cand)
        s0, s1 = bond if rng.random() < 0.6 else bond[::-1]
        Gnn = hop_gate(fam, rng)
        gate = fpeps.gates.decompose_nn_gate(Gnn, bond=(s0, s1))
        before = psi.copy()
        psi.apply_gate_(gate)
        ent, integral = pepsx.state_entries(fam, psi, order)
        den = sum(e[2] ** 2 + e[3] ** 2 for e in ent)
        if den == 0 or den > DEN_MAX or max(abs(e[2]) + abs(e[3]) for e in ent) > 2 ** 12:
            psi = before
            continue
        units = pepsx.operator_units(fam, Gnn, 2)
        gmap = [fidx(order, s0) * nm + a + 1 for a in range(nm)] + [fidx(order, s1) * nm + a + 1 for a in range(nm)]
        ev.append({'op': 'apply', 'kind': 'units', 'gate': units, 'map': gmap, 'what': '%s gate %d on %s-%s' % (tag, applied, s0, s1),
                   'src': cur, 'dst': cur + 1, 'nm': nm, 'gr': fam.gr, 'ent': ent, 'integral': integral})
        cur += 1
        applied += 1
        used[bond] = used.get(bond, 0) + 1
    return psi, order, ev, cur


class Collector:
    """ measured numbers grouped by the operator they claim to measure """

    def __init__(self, fam, order):
        self.fam, self.order, self.data, self.raised = fam, order, {}, []

    def add(self, label, names, sites, value):
        key = (tuple(names), tuple(fidx(self.order, tuple(s)) for s in sites))
        self.data.setdefault(key, []).append((label, complex(value)))

    def events(self, src, den, tag):
        out = []
        for (names, pos), obs in sorted(self.data.items()):
            rows = []
            for label, m in obs:
                x = m * den
                if not np.isfinite(x.real) or not np.isfinite(x.imag):
                    rows.append([label, 0, 0, False])
                    continue
                r, i = int(round(x.real)), int(round(x.imag))
                near = abs(x - complex(r, i)) <= 1e-8 * den * max(1.0, abs(m))
                rows.append([label, r, i, bool(near)])
            nms = [n for n in names if n != 'I']
            ps = [p for n, p in zip(names, pos) if n != 'I']
            out.append({'op': 'measure', 'what': '%s <%s> at %s' % (tag, ' '.join(names), [self.order[p] for p in pos]), 'src': src, 'kind': 'terms',
                        'terms': [{'amp': [1, 0], 'ops': nms, 'pos': ps}], 'nm': self.fam.nm, 'gr': self.fam.gr, 'den': den, 'obs': rows})
        return out


def neutral_pairs(fam):
    """ operator pairs whose product conserves every charge (non-zero expectation values in symmetric states) """
    ps = [p for p in fam.pairs if p != ('I', 'I') and 'I' not in p]
    return ps


def nsite_words(fam):
    if fam.kind == 'spinful':
        return [('cpu', 'cu', 'nd'), ('cpu', 'cu', 'cpd', 'cd'), ('nu', 'nd', 'nu'), ('Sp', 'Sm', 'nu'), ('cpd', 'nu', 'cd'), ('cpu', 'cpu', 'cu', 'cu'), ('cpu', 'cpd', 'cu', 'cd'), ('cpd', 'cu', 'cd', 'cpu')]
    return [('cp', 'c', 'n'), ('cp', 'c', 'cp', 'c'), ('n', 'n', 'n'), ('cp', 'n', 'c'), ('c', 'cp', 'n', 'n'), ('cp', 'cp', 'c', 'c'), ('cp', 'c', 'c', 'cp'), ('c', 'cp', 'cp', 'c')]


def pick_sites(w, sites, rng):
    """ sites for a word of operators: distinct ones, or with a site repeated (adjacent or not: (a, b, a, b), (a, a, b, b), (a, b, b, a), (a, b, a)): the operators of one site
    are then multiplied in the given order, with the sign of moving them past the odd operators in between """
    if rng.random() < 0.4 and len(sites) >= 2 and len(w) >= 3:
        a, b = rng.sample(sites, 2)
        pats = {3: [(a, b, a), (a, a, b), (b, a, a)], 4: [(a, b, a, b), (a, a, b, b), (a, b, b, a), (b, a, b, a)], 5: [(a, b, a, b, a)]}[min(len(w), 5)]
        ss = list(rng.choice(pats))
        return ss if len(ss) == len(w) else None
    if len(sites) < len(w):
        return None
    return rng.sample(sites, len(w))


def measure_all(fam, g, psi, order, rng, tree, tag, heavy):
    """ every measure function of every exact environment; returns Collector, verdict events """
    import yastn.tn.fpeps as fpeps
    from yastn import YastnError
    Nx, Ny = g.dims
    ops = fam.named
    col = Collector(fam, order)
    extra = []
    sites = list(order)
    bonds = [(tuple(b.site0), tuple(b.site1)) for b in g.bonds()]
    one = [n for n in fam.local if n != 'I'][:3] + ['I']
    pairs = neutral_pairs(fam)
    pairs = rng.sample(pairs, min(len(pairs), 3 if heavy else 2))
    words = rng.sample(nsite_words(fam), 3)
    Dbig = 4096
    opts_svd = {'D_total': Dbig, 'tol': 1e-14}

    def guard(label, f):
        try:
            return f()
        except Exception as ex:   # a measure function that fails on a valid request is logged and decided by TLC (verdict false)
            extra.append({'op': 'verdict', 'what': '%s %s raised %s: %s' % (tag, label, type(ex).__name__, str(ex)[:120]), 'verdicts': {'measure_function_returns': False}})
            return None
    # ---------------- boundary MPS ----------------
    setups = ['lrtb'] + rng.sample(SETUPS, 2 if heavy else 1)
    for su in setups:
        ov = rng.choice(OPTS_VAR)
        lab = 'bmps[%s,%s]' % (su, 'default' if ov is None else ','.join('%s=%s' % kv for kv in sorted(ov.items())))
        env = guard(lab + ' setup', lambda: fpeps.EnvBoundaryMPS(psi, opts_svd=opts_svd, setup=su, opts_var=ov))
        if env is None:
            continue
        keys = sorted((int(n), d) for (n, d) in env._env.keys())
        extra.append({'op': 'bmkeys', 'what': '%s %s boundaries present' % (tag, lab), 'dims': [Nx, Ny], 'setup': list(su), 'keys': [[n, d] for n, d in keys]})
        disc = max([float(v['discarded']) for v in env.info.values()] + [0.0])
        if disc > 1e-10:
            raise Machinery('boundary MPS truncated although D_total=%d (discarded %.1e)' % (Dbig, disc))
        have = set(keys)
        lr_all = all((ny, 'l') in have and (ny, 'r') in have for ny in range(Ny))
        tb_all = all((nx, 't') in have and (nx, 'b') in have for nx in range(Nx))
        for nme in one:
            if lr_all:
                r = guard(lab + '.measure_1site(%s)' % nme, lambda: env.measure_1site(ops[nme]))
                for s, v in (r or {}).items():
                    col.add(lab + '.1site', [nme], [s], v)
            for s in sites:
                if (s[1], 'l') in have and (s[1], 'r') in have and (lr_all is False or rng.random() < 0.3):
                    v = guard(lab + '.measure_1site(%s, site=%s)' % (nme, s), lambda: env.measure_1site(ops[nme], site=s))
                    if v is not None:
                        col.add(lab + '.1site(site)', [nme], [s], v)
        for (a, b) in pairs:
            if lr_all and tb_all and bonds:
                r = guard(lab + '.measure_nn(%s,%s)' % (a, b), lambda: env.measure_nn(ops[a], ops[b]))
                for (s0, s1), v in (r or {}).items():
                    col.add(lab + '.nn', [a, b], [s0, s1], v)
            else:
                sub = [bd for bd in bonds if (bd[0][0] == bd[1][0] and (bd[0][0], 't') in have and (bd[0][0], 'b') in have) or (bd[0][1] == bd[1][1] and (bd[0][1], 'l') in have and (bd[0][1], 'r') in have)]
                if sub:
                    r = guard(lab + '.measure_nn(dict %s,%s)' % (a, b), lambda: env.measure_nn({fpeps.Bond(*bd): (ops[a], ops[b]) for bd in sub}))
                    for (s0, s1), v in (r or {}).items():
                        col.add(lab + '.nn(dict)', [a, b], [s0, s1], v)
            for dirn, ok in (('v', lr_all), ('h', tb_all)):
                if ok and (heavy or rng.random() < 0.5):
                    prs = rng.choice(['corner <=', 'row <', '<', '<='])
                    r = guard(lab + '.measure_2site(%s,%s,%s,%s)' % (a, b, prs, dirn), lambda: env.measure_2site(ops[a], ops[b], pairs=prs, dirn=dirn, opts_svd=opts_svd))
                    for (s0, s1), v in (r or {}).items():
                        if s0 == s1:
                            continue      # same-site products O.P are outside the operator tables of the reference
                        col.add(lab + '.2site[%s,%s]' % (prs, dirn), [a, b], [s0, s1], v)
        if lr_all:
            for w in words:
                ss = pick_sites(w, sites, rng)
                if ss is None:
                    continue
                v = guard(lab + '.measure_nsite(%s, %s)' % (w, ss), lambda: env.measure_nsite(*[ops[x] for x in w], sites=ss, opts_svd=opts_svd))
                if v is not None:
                    col.add(lab + '.nsite', list(w), ss, v)
    # ---------------- CTM ----------------
    need = max(Nx, Ny) - 1
    for extra_k in ((0, 1) if heavy else (0,)):
        k = need + extra_k
        lab = 'ctm[k=%d]' % k
        ctm = fpeps.EnvCTM(psi, init='eye' if k == 0 else 'dl')
        for _ in range(k - 1):
            ctm.expand_outward_()
        extra.append({'op': 'ctmk', 'what': '%s %s expansions used' % (tag, lab), 'dims': [Nx, Ny], 'k': k})
        for nme in one:
            r = guard(lab + '.measure_1site(%s)' % nme, lambda: ctm.measure_1site(ops[nme]))
            for s, v in (r or {}).items():
                col.add(lab + '.1site', [nme], [s], v)
            s = rng.choice(sites)
            v = guard(lab + '.measure_1site(%s, site)' % nme, lambda: ctm.measure_1site(ops[nme], site=fpeps.Site(*s)))
            if v is not None:
                col.add(lab + '.1site(site)', [nme], [s], v)
        for (a, b) in pairs:
            if bonds:
                r = guard(lab + '.measure_nn(%s,%s)' % (a, b), lambda: ctm.measure_nn(ops[a], ops[b]))
                for (s0, s1), v in (r or {}).items():
                    col.add(lab + '.nn', [a, b], [s0, s1], v)
                bd = rng.choice(bonds)
                for q in (bd, bd[::-1]):
                    v = guard(lab + '.measure_nn(%s,%s,bond=%s)' % (a, b, q), lambda: ctm.measure_nn(ops[a], ops[b], bond=(fpeps.Site(*q[0]), fpeps.Site(*q[1]))))
                    if v is not None:
                        col.add(lab + '.nn(bond)', [a, b], [q[0], q[1]], v)
            if Nx * Ny > 1:
                prs = rng.choice(['corner <', 'row <', '<'])
                dirn = rng.choice('hv')
                r = guard(lab + '.measure_2site(%s,%s,%s,%s)' % (a, b, prs, dirn), lambda: ctm.measure_2site(ops[a], ops[b], xrange=(0, Nx), yrange=(0, Ny), pairs=prs, dirn=dirn, opts_svd=opts_svd))
                for (s0, s1), v in (r or {}).items():
                    if s0 != s1:
                        col.add(lab + '.2site[%s,%s]' % (prs, dirn), [a, b], [s0, s1], v)
            # every ordered pair of sites through the n-site functions that accept it
            prs_all = [(s0, s1) for s0 in sites for s1 in sites if s0 != s1]
            for (s0, s1) in rng.sample(prs_all, min(len(prs_all), 8 if heavy else 4)):
                for fun in ('measure_nsite', 'measure_nsite_exact', 'measure_line', 'measure_2x2'):
                    if fun == 'measure_line' and not (s0[0] == s1[0] or s0[1] == s1[1]):
                        continue
                    if fun == 'measure_2x2' and not (abs(s0[0] - s1[0]) <= 1 and abs(s0[1] - s1[1]) <= 1 and Nx > 1 and Ny > 1):
                        continue
                    v = guard(lab + '.%s(%s,%s at %s,%s)' % (fun, a, b, s0, s1), lambda: getattr(ctm, fun)(ops[a], ops[b], sites=[fpeps.Site(*s0), fpeps.Site(*s1)]))
                    if v is not None:
                        col.add(lab + '.' + fun, [a, b], [s0, s1], v)
        for w in words + ([words[0]] if len(sites) >= 2 else []):
            ss = pick_sites(w, sites, rng)
            if ss is None:
                continue
            funs = ['measure_nsite', 'measure_nsite_exact']
            if max(s[0] for s in ss) - min(s[0] for s in ss) <= 1 and max(s[1] for s in ss) - min(s[1] for s in ss) <= 1 and Nx > 1 and Ny > 1:
                funs.append('measure_2x2')
            if len(set(s[0] for s in ss)) == 1 or len(set(s[1] for s in ss)) == 1:
                funs.append('measure_line')
            for fun in funs:
                v = guard(lab + '.%s(%s at %s)' % (fun, w, ss), lambda: getattr(ctm, fun)(*[ops[x] for x in w], sites=[fpeps.Site(*s) for s in ss]))
                if v is not None:
                    col.add(lab + '.' + fun, list(w), ss, v)
    # ---------------- belief propagation on loop-free entanglement ----------------
    if tree is not None:
        lab = 'bp'
        bp = fpeps.EnvBP(psi)
        info = bp.iterate_(max_sweeps=60, diff_tol=1e-13)
        extra.append({'op': 'verdict', 'what': '%s bp converged in %d sweeps (max_diff %.1e)' % (tag, info.sweeps, info.max_diff), 'verdicts': {'bp_converged': bool(info.converged)}})
        for nme in one:
            r = guard(lab + '.measure_1site(%s)' % nme, lambda: bp.measure_1site(ops[nme]))
            if r is not None and not isinstance(r, dict):
                r = {sites[0]: r}
            for s, v in (r or {}).items():
                col.add(lab + '.1site', [nme], [s], v)
        for (a, b) in pairs:
            if tree:
                r = guard(lab + '.measure_nn(%s,%s)' % (a, b), lambda: bp.measure_nn(ops[a], ops[b]))
                for (s0, s1), v in (r or {}).items():
                    if (tuple(s0), tuple(s1)) in tree:        # a bond outside the tree closes a loop of correlations: BP is not exact there
                        col.add(lab + '.nn', [a, b], [s0, s1], v)
                bd = rng.choice(tree)[::-1]
                v = guard(lab + '.measure_nn(bond reversed)', lambda: bp.measure_nn(ops[a], ops[b], bond=(fpeps.Site(*bd[0]), fpeps.Site(*bd[1]))))
                if v is not None:
                    col.add(lab + '.nn(bond)', [a, b], [bd[0], bd[1]], v)
    return col, extra


def qr_bond(psi, s0, s1, dirn):
    if dirn == 'lr':
        Q0, R0 = psi[s0].qr(axes=((0, 1, 2, 4), 3), sQ=-1, Qaxis=3)
        Q1, R1 = psi[s1].qr(axes=((0, 2, 3, 4), 1), sQ=1, Qaxis=1, Raxis=-1)
    else:
        Q0, R0 = psi[s0].qr(axes=((0, 1, 3, 4), 2), sQ=1, Qaxis=2)
        Q1, R1 = psi[s1].qr(axes=((1, 2, 3, 4), 0), sQ=-1, Qaxis=0, Raxis=-1)
    return Q0, Q1, R0, R1


def metric_numbers(G):
    Gn = float(G.norm())
    if np.isfinite(Gn) and Gn == 0:
        return 0, 0            # the zero matrix is Hermitian and positive semi-definite; counted separately (see evolve events for its consequence)
    if not Gn > 0:
        return 2 ** 30, -2 ** 30
    nonherm = float((G - G.H).norm()) / Gn
    S, _ = ((G + G.H) / 2).eigh(axes=(0, 1))
    smin = float(np.min(S.to_numpy().diagonal().real)) / Gn
    return ppt(nonherm) + 1, ppt(smin)


def metric_events(g, psi, rng, tree, tag, heavy):
    """ Hermiticity and positivity of every bond metric of the truncation environments """
    import yastn.tn.fpeps as fpeps
    from yastn.tn.fpeps._evolution import BondMetric, BipartiteBondMetric
    Nx, Ny = g.dims
    out = []
    envs = [('ntu[%s]' % w, fpeps.EnvNTU(psi, which=w)) for w in WHICH]
    if tree is not None:
        bp = fpeps.EnvBP(psi)
        bp.iterate_(max_sweeps=60, diff_tol=1e-13)
        envs.append(('bp', bp))
    bonds = list(g.bonds())
    for lab, env in envs:
        for b in bonds:
            s0, s1 = b.site0, b.site1
            dirn = psi.nn_bond_dirn(s0, s1)
            Q0, Q1, _, _ = qr_bond(psi, s0, s1, dirn)
            what = '%s bond_metric %s bond %s-%s (%s)' % (tag, lab, tuple(s0), tuple(s1), dirn)
            try:
                fgf = env.bond_metric(Q0, Q1, s0, s1, dirn)
            except Exception as ex:
                out.append({'op': 'verdict', 'what': what + ' raised %s: %s' % (type(ex).__name__, str(ex)[:100]), 'verdicts': {'bond_metric_returns': False}})
                continue
            gs = [('g', fgf.g)] if isinstance(fgf, BondMetric) else [('gL', fgf.gL), ('gR', fgf.gR)]
            for nm_, G in gs:
                nh, sm = metric_numbers(G)
                out.append({'op': 'metric', 'what': what + ' ' + nm_ + (' ZERO-METRIC' if (nh, sm) == (0, 0) else ''), 'nonherm': nh, 'mineig': sm})
    return out


def evolve_events(fam, g, psi, order, src, rng, tree, tag, heavy):
    """ evolution_step_ whose truncation does not bind, against the exactly applied gate """
    import yastn.tn.fpeps as fpeps
    Nx, Ny = g.dims
    nm = fam.nm
    out = []
    bonds = tree if tree is not None else [(tuple(b.site0), tuple(b.site1)) for b in g.bonds()]
    if not bonds:
        return out
    kinds = ['ntu[%s]' % w for w in WHICH]
    if tree is not None:
        kinds.append('bp')
    for kind in (kinds if heavy else rng.sample(kinds, 3)):
        bond = rng.choice(bonds)
        s0, s1 = bond if rng.random() < 0.6 else bond[::-1]
        Gnn = hop_gate(fam, rng)
        gate = fpeps.gates.decompose_nn_gate(Gnn, bond=(fpeps.Site(*s0), fpeps.Site(*s1)))
        exact = psi.copy()
        exact.apply_gate_(gate)
        xent, xint = pepsx.state_entries(fam, exact, order)
        den = sum(e[2] ** 2 + e[3] ** 2 for e in xent)
        if den == 0 or den > DEN_MAX:
            continue
        phi = psi.copy()
        if kind.startswith('ntu'):
            env = fpeps.EnvNTU(phi, which=kind[4:-1])
            opts_post = None
        else:
            env = fpeps.EnvBP(phi)
            env.iterate_(max_sweeps=60, diff_tol=1e-13)
            opts_post = None
        what = '%s evolution_step_ %s gate on %s-%s' % (tag, kind, s0, s1)
        try:
            infos = fpeps.evolution_step_(env, [gate], opts_svd={'D_total': 4096, 'tol': 1e-14}, opts_post_truncation=opts_post)
        except Exception as ex:
            zero = False
            if kind.startswith('ntu'):
                # known finding: the SVD-1 hairs of a symmetric tensor can make the whole cluster metric vanish identically; the step then fails
                chk = exact.copy()
                b0, b1 = (s0, s1) if chk.nn_bond_dirn(fpeps.Site(*s0), fpeps.Site(*s1)) in ('lr', 'tb') else (s1, s0)
                dirn = chk.nn_bond_dirn(fpeps.Site(*b0), fpeps.Site(*b1))
                Q0, Q1, _, _ = qr_bond(chk, fpeps.Site(*b0), fpeps.Site(*b1), dirn)
                try:
                    zero = float(fpeps.EnvNTU(chk, which=kind[4:-1]).bond_metric(Q0, Q1, fpeps.Site(*b0), fpeps.Site(*b1), dirn).g.norm()) == 0
                except Exception:
                    zero = False
            out.append({'op': 'verdict', 'what': ('KF-zero-metric ' if zero else '') + what + ' raised %s: %s' % (type(ex).__name__, str(ex)[:100]), 'verdicts': {'evolution_step_returns': False}})
            continue
        info = infos[0]
        # observed state, rescaled by ONE least-squares scalar onto the exactly evolved integer vector
        T, X = phi.to_tensor(), exact.to_tensor()
        lg = None
        import yastn
        c = yastn.vdot(T, X) / yastn.vdot(T, T)
        scaled = phi.copy()
        first = order[0]
        scaled[fpeps.Site(*first)] = phi[fpeps.Site(*first)] * complex(c)
        ent, integral = pepsx.state_entries(fam, scaled, order)
        units = pepsx.operator_units(fam, Gnn, 2)
        gmap = [fidx(order, s0) * nm + a + 1 for a in range(nm)] + [fidx(order, s1) * nm + a + 1 for a in range(nm)]
        nh = info.nonhermitian_part if info.nonhermitian_part is not None else 0.0
        me = info.min_eigenvalue if info.min_eigenvalue is not None else 0.0
        out.append({'op': 'evolve', 'kind': 'units', 'gate': units, 'map': gmap, 'what': what + ' best=%s terr=%.1e' % (info.best_method, info.truncation_error),
                    'src': src, 'dst': src + 5000 + len(out), 'nm': nm, 'gr': fam.gr, 'ent': ent, 'integral': integral,
                    'terr': ppt(info.truncation_error) + 1, 'nonherm': ppt(nh) + 1 if nh else 0, 'mineig': ppt(me)})
    return out


def _limit_memory():
    # pool initializer: one job may not take more than 8 GB of address space (a few cluster metrics on the largest lattices would otherwise invite the OOM killer, which
    # takes the whole check with it); such a job ends with MemoryError and is reported as skipped
    import resource
    resource.setrlimit(resource.RLIMIT_AS, (8 << 30, 8 << 30))


def run(args):
    try:
        return run_inner(args)
    except Machinery as ex:
        return [{'op': 'machinery', 'what': str(ex)}]
    except (MemoryError, SystemError) as ex:
        return [{'op': 'verdict', 'what': 'job %s skipped: needs more than 8 GB (%s)' % (list(args), type(ex).__name__), 'verdicts': {'skipped_too_large_for_the_sandbox': True}}]


def run_inner(args):
    import yastn.tn.fpeps as fpeps
    fi, dims, seed, tier = args
    dims = tuple(dims)
    rng = random.Random(seed)
    fam = pepsx.Family(*pepsx.FAMILIES[fi])
    heavy = tier == 'thorough'
    g = fpeps.SquareLattice(dims=dims, boundary='obc')
    N = dims[0] * dims[1]
    use_tree = rng.random() < 0.35 or min(dims) == 1
    tree = spanning_forest(g, rng) if use_tree else None
    tag = '%s/%s %sx%s seed=%d%s' % (fam.kind, fam.sym, dims[0], dims[1], seed, ' tree' if tree is not None else '')
    if N * fam.nm > 9:
        # too many amplitudes to register: bond metrics only (the state is still a circuit state)
        # (few entangled bonds on the largest lattices: the NNN++ cluster of a 3x4 .. 4x4 lattice is the whole lattice, in two layers)
        psi, order, ev, cur = build_state(fam, g, rng, rng.randint(8, 14) if N * fam.nm <= 12 else rng.randint(4, 7), tree, tag, register=False)
        return [{'op': 'verdict', 'what': tag + ' metric-only state built', 'verdicts': {'built': True}}] + metric_events(g, psi, rng, tree, tag, heavy)
    ngates = rng.randint(2, 5) if N <= 4 else rng.randint(4, 9) if N < 9 else rng.randint(7, 12)
    psi, order, ev, cur = build_state(fam, g, rng, ngates, tree, tag)
    ent = ev[-1]['ent']
    den = sum(e[2] ** 2 + e[3] ** 2 for e in ent)
    col, extra = measure_all(fam, g, psi, order, rng, tree, tag, heavy)
    ev += extra
    ev += col.events(cur, den, tag)
    ev += metric_events(g, psi, rng, tree, tag, heavy)
    ev += evolve_events(fam, g, psi, order, cur, rng, tree, tag, heavy)
    return ev


def lattice_for(fi, i, rng):
    """ lattice of job i: the small ones in turn, half of the single-mode jobs on the largest lattices """
    nm = 1 if pepsx.FAMILIES[fi][0] != 'spinful' else 2
    lats = [d for d in LATTICES if d[0] * d[1] * nm <= 9]
    big = [d for d in lats if d[0] * d[1] * nm >= 8]
    if big and rng.random() < 0.45:
        return rng.choice(big)
    return lats[i % len(lats)]


# ------------------------------------------------------------------ dependency probes (cover events)
def random_peps(dims, seed, sym='dense', bonds=None):
    """ generic PEPS: complex random tensors, bond dimension 2 on every bond of the lattice """
    import yastn
    import yastn.tn.fpeps as fpeps
    cfg = yastn.make_config(sym='dense')
    cfg.backend.random_seed(seed)
    g = fpeps.SquareLattice(dims=dims, boundary='obc')
    psi = fpeps.Peps(g)
    for s in g.sites():
        D = [2 if g.nn_site(s, d) is not None and (bonds is None or frozenset((tuple(s), tuple(g.nn_site(s, d)))) in bonds) else 1 for d in 'tlbr']
        legs = [yastn.Leg(cfg, s=sg, D=(d,)) for sg, d in zip((-1, 1, 1, -1), D)] + [yastn.Leg(cfg, s=1, D=(2,))]
        psi[s] = yastn.rand(cfg, legs=legs, dtype='complex128')
    return cfg, g, psi


def perturbed(cfg, psi, site):
    import yastn
    out = psi.copy()
    A = psi[site]
    out[site] = A + 0.37 * yastn.rand(cfg, legs=A.get_legs(), dtype='complex128')
    return out


def differs(A, B):
    if A is None or B is None:
        return (A is None) != (B is None)
    na = float(A.norm())
    return float((A - B).norm()) > 1e-9 * max(na, 1e-300)


def cover_run(args):
    try:
        return cover_inner(args)
    except Machinery as ex:
        return [{'op': 'machinery', 'what': str(ex)}]


def cover_inner(args):
    """ which PEPS tensors does each environment object depend on?  one tensor is perturbed at a time on a generic PEPS """
    import yastn.tn.fpeps as fpeps
    dims, model, seed, sub = args
    rng = random.Random(seed)
    cfg, g, psi = random_peps(dims, seed)
    sites = [tuple(s) for s in g.sites()]
    Nx, Ny = dims
    out = []
    tag = 'cover %s %dx%d seed=%d' % (model, Nx, Ny, seed)
    variants = {q: perturbed(cfg, psi, fpeps.Site(*q)) for q in sites}
    if model == 'ctm':
        def envs(p, kmax):
            res = []
            e = fpeps.EnvCTM(p, init='eye')
            res.append({(s, dn): getattr(e[fpeps.Site(*s)], dn) for s in sites for dn in ('t', 'l', 'b', 'r', 'tl', 'tr', 'bl', 'br')})
            for _ in range(kmax):
                e.expand_outward_()
                res.append({(s, dn): getattr(e[fpeps.Site(*s)], dn) for s in sites for dn in ('t', 'l', 'b', 'r', 'tl', 'tr', 'bl', 'br')})
            return res
        kmax = max(Nx, Ny)
        base = envs(psi, kmax)
        pert = {q: envs(variants[q], kmax) for q in sites}
        for k in range(kmax + 1):
            for (s, dn), T in base[k].items():
                deps = [list(q) for q in sites if differs(T, pert[q][k][(s, dn)])]
                out.append({'op': 'cover', 'what': '%s k=%d tensor %s of %s' % (tag, k, dn, s), 'model': 'ctm', 'dims': [Nx, Ny], 'k': k, 'site': list(s), 'dn': dn, 'deps': deps})
    elif model == 'ctmu':
        # EnvCTM.update_ (projector moves) on a finite lattice from reset_('eye'): after which move sequences is which measured value exact?  (CtmMoves.tla)
        import yastn
        leg = psi[fpeps.Site(0, 0)].get_legs(4)
        O = yastn.rand(cfg, legs=[leg, leg.conj()], dtype='complex128')
        P = yastn.rand(cfg, legs=[leg, leg.conj()], dtype='complex128')
        ref = fpeps.EnvCTM(psi, init='eye')
        for _ in range(max(Nx, Ny)):
            ref.expand_outward_()
        hb = [(s, (s[0], s[1] + 1)) for s in sites if s[1] + 1 < Ny]
        vb = [(s, (s[0] + 1, s[1])) for s in sites if s[0] + 1 < Nx]
        seqs = [list(p) for p in itertools.permutations('lrtb')][seed % 6::6] + [list('hv') * n for n in range(1, max(Nx, Ny) + 1)] + [list('vh') * max(1, max(Nx, Ny) - 1)]
        for _ in range(sub or 8):
            seqs.append([rng.choice('hvlrtb') for _ in range(rng.randint(1, 5))])
        unclear = 0
        seqs += [[m] for m in 'hvlrtb']
        runs = [('eye', mv) for mv in seqs]
        for start, mv in runs:
            e = fpeps.EnvCTM(psi, init='eye')
            e.update_(opts_svd={'D_total': 256, 'tol': 1e-14}, moves=''.join(mv))
            obs = [('1site', s, e.measure_1site(O, site=fpeps.Site(*s)), ref.measure_1site(O, site=fpeps.Site(*s))) for s in sites]
            obs += [('nnh', a, e.measure_nn(O, P, bond=(fpeps.Site(*a), fpeps.Site(*b))), ref.measure_nn(O, P, bond=(fpeps.Site(*a), fpeps.Site(*b)))) for a, b in hb]
            obs += [('nnv', a, e.measure_nn(O, P, bond=(fpeps.Site(*a), fpeps.Site(*b))), ref.measure_nn(O, P, bond=(fpeps.Site(*a), fpeps.Site(*b)))) for a, b in vb]
            for kind, s, v, r in obs:
                err = abs(complex(v) - complex(r)) / max(abs(complex(r)), 1e-3)
                if 1e-8 < err < 1e-5 or not np.isfinite(err):
                    unclear += 1        # neither clearly exact nor clearly different (generic tensors: never seen)
                    continue
                out.append({'op': 'ctmu', 'what': '%s start=%s moves=%s %s at %s err=%.1e' % (tag, start, ''.join(mv), kind, s, err), 'dims': [Nx, Ny], 'start': start, 'moves': mv, 'kind': kind,
                            'site': list(s), 'exact': bool(err <= 1e-8)})
        out.append({'op': 'verdict', 'what': '%s unclear=%d' % (tag, unclear), 'verdicts': {'exactness_classified': unclear <= len(runs)}})
    elif model == 'bm':
        opts = {'D_total': 4096, 'tol': 1e-14}
        ov = rng.choice(OPTS_VAR)
        base = fpeps.EnvBoundaryMPS(psi, opts_svd=opts, setup='lrtb', opts_var=ov)._env
        pert = {q: fpeps.EnvBoundaryMPS(variants[q], opts_svd=opts, setup='lrtb', opts_var=ov)._env for q in sites}
        for (n, dn), M in sorted(base.items()):
            deps = []
            for q in sites:
                P = pert[q][(n, dn)]
                d = M - P
                if float(d.norm()) > 1e-9 * float(M.norm()):
                    deps.append(list(q))
            out.append({'op': 'cover', 'what': '%s boundary (%d, %s) opts_var=%s' % (tag, n, dn, ov), 'model': 'bm', 'dims': [Nx, Ny], 'n': int(n), 'dn': dn, 'deps': deps})
    elif model == 'bp':
        # entanglement on a random forest (bond dimension 2 there, 1 elsewhere); messages after k = 1.. sweeps of update_ in the order the code performs the single updates
        forest = spanning_forest(g, rng)
        forest = [b for b in forest if rng.random() < 0.85] or forest[:1]
        Eset = {frozenset(b) for b in forest}
        cfg, g, psi = random_peps(dims, seed, bonds=Eset)
        variants = {q: perturbed(cfg, psi, fpeps.Site(*q)) for q in sites}
        probe = fpeps.EnvBP(psi)
        seq = [(tuple(b.site0), tuple(b.site1)) for b in probe.bonds('h')] + [(tuple(b.site1), tuple(b.site0)) for b in probe.bonds('h')[::-1]] \
            + [(tuple(b.site0), tuple(b.site1)) for b in probe.bonds('v')] + [(tuple(b.site1), tuple(b.site0)) for b in probe.bonds('v')[::-1]]
        kmax = 3

        def msgs(p):
            e = fpeps.EnvBP(p)
            res = []
            for _ in range(kmax):
                e.update_()
                res.append({(s, dn): getattr(e[fpeps.Site(*s)], dn + 'R') for s in sites for dn in 'tlbr'})
            return res
        base = msgs(psi)
        pert = {q: msgs(variants[q]) for q in sites}
        for k in range(1, kmax + 1):
            for (s, dn), M in base[k - 1].items():
                deps = [list(q) for q in sites if differs(M, pert[q][k - 1][(s, dn)])]
                out.append({'op': 'cover', 'what': '%s k=%d message %s of %s forest=%s' % (tag, k, dn, s, sorted(tuple(sorted(b)) for b in Eset)), 'model': 'bp', 'dims': [Nx, Ny], 'k': k,
                            'E': [[list(a), list(b)] for a, b in forest], 'seq': [[list(a), list(b)] for a, b in seq], 'site': list(s), 'dn': dn, 'deps': deps})
    else:   # ntu
        bonds = list(g.bonds())
        if sub:
            bonds = rng.sample(bonds, min(len(bonds), sub))
        for which in WHICH:
            for b in bonds:
                s0, s1 = b.site0, b.site1
                dirn = psi.nn_bond_dirn(s0, s1)
                Q0, Q1, _, _ = qr_bond(psi, s0, s1, dirn)
                G = fpeps.EnvNTU(psi, which=which).bond_metric(Q0, Q1, s0, s1, dirn).g
                deps = []
                for q in sites:
                    if q in (tuple(s0), tuple(s1)):
                        continue
                    G2 = fpeps.EnvNTU(variants[q], which=which).bond_metric(Q0, Q1, s0, s1, dirn).g
                    if differs(G, G2):
                        deps.append(list(q))
                out.append({'op': 'cover', 'what': '%s %s bond %s-%s' % (tag, which, tuple(s0), tuple(s1)), 'model': 'ntu', 'dims': [Nx, Ny], 'which': which,
                            'dirn': 'h' if dirn == 'lr' else 'v', 'site': list(tuple(s0)), 'deps': deps})
    return out


def canonical_zero_metric():
    """ canonical reproducer of the known finding 'SVD-1 hair in a charged sector': a stored 4x2 spin-1/2 Z2 PEPS on which one corner matrix of the NN++ cluster of
    the bond (0,0)-(1,0) has its largest singular value exactly degenerate between the neutral and the odd sector; cut_into_hairs keeps the odd one, the hairs
    carry charge 1, the cluster metric vanishes identically and evolution_step_ fails """
    import os
    import yastn.tn.fpeps as fpeps
    fam = pepsx.Family('spin', 'Z2')
    d = np.load(os.path.join(os.path.dirname(os.path.abspath(__file__)), 'data', 'c12_zero_metric_peps.npy'), allow_pickle=True).item()
    psi = fpeps.Peps.from_dict(d)
    g = psi.geometry
    order = [tuple(s) for s in g.sites()]
    ent, integral = pepsx.state_entries(fam, psi, order)
    ev = [{'op': 'init', 'what': 'canonical zero-metric state spin/Z2 4x2', 'dst': 0, 'ent': ent, 'integral': integral}]

    class Fixed(random.Random):
        def sample(self, pop, k):
            return ['ntu[NN++]'] if 'ntu[NN++]' in pop else super().sample(pop, k)

        def choice(self, seq):
            if any(isinstance(x, tuple) and x == ((0, 0), (1, 0)) for x in seq):
                return ((0, 0), (1, 0))
            return super().choice(seq)
    ev += evolve_events(fam, g, psi, order, 0, Fixed(1), None, 'canonical spin/Z2 4x2', False)
    return ev


def main(tier, seed, replay=None):
    import json
    rep = Report('C12', tier, seed, 'model_checking')
    if replay:
        rep.write_evidence = False
    rep.cov['rule'] = ('finite open PEPS on 1x2 .. 3x3, 2x4, 4x2, 1x5 lattices (<= 9 modes), 8 families (spinless U1/Z2, spinful Z2/U1xU1/U1xU1xZ2, spin-1/2 dense/Z2/U1), product state + '
                       'shallow circuit of integer two-site gates (SVD split, both orientations; on all bonds or on a random spanning tree); every measure function of EnvBoundaryMPS '
                       '(7 set-up strings, 4 opts_var), EnvCTM (spec-demanded number of expansions, and one more), EnvBP (tree circuits); bond metrics of 6 NTU clusters + BP on every bond; '
                       'evolution_step_ with non-binding truncation; dependency probes; non-trivial = measure event with a non-zero expected numerator, metric event, evolve event, cover event')
    r = tlc_ok('EnvCoverMC', 'EnvCoverMC.cfg', workers=4, timeout=900)
    rep.add_tlc('EnvCoverMC (coverage of CTM / boundary-MPS / NTU objects, lattices up to 4x4, 5 expansions)', r)
    r = tlc_ok('CtmMovesMC', 'CtmMovesMC.cfg', workers=4, timeout=900)
    rep.add_tlc('CtmMovesMC (every sequence of EnvCTM.update_ moves h, v, l, r, t, b on lattices up to 4x4; one sweep of the four sequential moves in any order is exact)', r)
    r = tlc_ok('BpCoverMC', 'BpCoverMC.cfg' if tier == 'quick' else 'BpCoverMC_forest.cfg', workers=8, timeout=2400, mem='6g')
    rep.add_tlc('BpCoverMC (belief-propagation messages in any order of single updates: %s)' % ('every entanglement graph of 1x3 and 2x2, cycles included' if tier == 'quick' else 'every forest of 1x4, 2x3, 3x2'), r)
    r = tlc_ok('FockMC', 'FockMC.cfg', workers=4, timeout=600)
    rep.add_tlc('FockMC (CAR on all basis states, 4 modes)', r)
    nF = len(pepsx.FAMILIES)
    if replay:
        case = json.load(open(replay))['case']
        jobs = [tuple(case['job'])] if case['job'][0] not in ('cover', 'canonical-zero-metric') else []
        cjobs = [tuple(tuple(x) if isinstance(x, list) else x for x in case['job'][1:])] if case['job'][0] == 'cover' else []
    else:
        n = 48 if tier == 'quick' else 640
        jr = random.Random(seed * 7919 + 1)
        jobs = [(i % nF, lattice_for(i % nF, i // nF + seed, jr), seed * 1000003 + i, tier) for i in range(n)]
        # larger lattices, bond metrics only (no registered state); two-mode families stay at <= 10 sites (to_tensor() of the circuit state is still needed for its norm)
        big = [(3, 4), (4, 3)] if tier == 'quick' else [(3, 4), (4, 3), (4, 4), (3, 5), (5, 3), (2, 5)] * 4
        jobs += [(i % nF, d if pepsx.Family(*pepsx.FAMILIES[i % nF]).nm == 1 else [(2, 5), (5, 2), (2, 4)][i % 3], seed * 1000003 + 5000 + i, tier) for i, d in enumerate(big)]
        if tier == 'quick':
            cjobs = [((2, 3), 'ctm', seed, 0), ((3, 3), 'ctm', seed + 1, 0), ((3, 2), 'bm', seed, 0), ((3, 3), 'bm', seed + 1, 0), ((3, 3), 'ntu', seed, 4), ((2, 4), 'ntu', seed + 1, 3), ((4, 4), 'ntu', seed + 2, 2),
                     ((2, 3), 'bp', seed, 0), ((3, 3), 'bp', seed + 1, 0), ((1, 4), 'bp', seed + 2, 0),
                     ((2, 3), 'ctmu', seed, 6), ((3, 3), 'ctmu', seed + 1, 5), ((3, 2), 'ctmu', seed + 2, 6), ((1, 4), 'ctmu', seed + 3, 6)]
        else:
            cjobs = [(d, 'ctm', seed + i, 0) for i, d in enumerate(LATTICES + [(3, 4), (4, 4)])] + [(d, 'bm', seed + i, 0) for i, d in enumerate(LATTICES + [(3, 4), (4, 4)])] \
                + [(d, 'ntu', seed + i, 0) for i, d in enumerate([(2, 2), (2, 3), (3, 2), (3, 3), (2, 4), (4, 2), (1, 4), (4, 1), (3, 4), (4, 3), (4, 4), (4, 5), (5, 4)])] \
                + [(d, 'bp', seed + 7 * i + j, 0) for i, d in enumerate(LATTICES + [(3, 4), (4, 4)]) for j in range(3)] \
                + [(d, 'ctmu', seed + 11 * i, 12) for i, d in enumerate(LATTICES + [(3, 4), (4, 3)])]
    with ProcessPoolExecutor(max_workers=15, initializer=_limit_memory) as ex:
        fut = [ex.submit(cover_run, j) for j in cjobs]
        results = list(ex.map(run, jobs, chunksize=1))
        cresults = [f.result() for f in fut]
    jobs = list(jobs) + [('cover',) + tuple(j) for j in cjobs]
    results = results + cresults
    if not replay:
        jobs.append(('canonical-zero-metric',))
        results.append(canonical_zero_metric())
    traces = []
    for job, evs in zip(jobs, results):
        if not evs:
            continue
        mach = [e for e in evs if e['op'] == 'machinery']
        if mach:
            raise Machinery(mach[0]['what'])
        traces.append({'ev': evs, 'job': list(job)})
    # negative controls: one corrupted copy per event kind must be rejected exactly at the corrupted event
    controls = []
    if not replay:
        import copy
        for kind in ('measure', 'cover', 'metric', 'evolve', 'bmkeys', 'ctmu'):
            for t in traces:
                idx = [i for i, e in enumerate(t['ev']) if e['op'] == kind and (kind != 'measure' or e['obs'])]
                if not idx:
                    continue
                c = copy.deepcopy(t['ev'])
                e = c[idx[len(idx) // 2]]
                if kind == 'measure':
                    e['obs'][-1][1] += 1
                elif kind == 'cover':
                    e['deps'] = e['deps'][:-1] if e['deps'] else [[0, 0]]
                elif kind == 'ctmu':
                    # a value claimed exact after a SINGLE move on a lattice with both directions: no corner region is covered yet, the model must refuse
                    ex = [i for i in idx if len(c[i]['moves']) == 1 and min(c[i]['dims']) >= 2 and not c[i]['exact']]
                    if not ex:
                        continue
                    idx = ex
                    e = c[idx[len(idx) // 2]]
                    e['exact'] = True
                elif kind == 'metric':
                    e['mineig'] = -1000
                elif kind == 'evolve':
                    e['ent'] = e['ent'][:-1] + [[e['ent'][-1][0], e['ent'][-1][1], e['ent'][-1][2] + 1, e['ent'][-1][3]]]
                else:
                    e['keys'] = e['keys'][:-1]
                controls.append((kind, idx[len(idx) // 2] + 1, c))
                break
    acc, diag, res = validate_traces('TracePepsEnv', 'TracePepsEnv.cfg', [{'ev': t['ev']} for t in traces] + [{'ev': c[2]} for c in controls], shards=16, timeout=3000, mem='4g')
    nt = len(traces)
    for (kind, pos, _), a, rj in zip(controls, acc[nt:], validate_traces.last_rejects[nt:]):
        if a or pos not in [l for l, _ in rj]:
            raise Machinery('negative control: a corrupted %s event (position %d) was accepted by TracePepsEnv' % (kind, pos))
    rep.cov['parts']['negative_controls_rejected'] = [c[0] for c in controls]
    acc, diag = acc[:nt], diag[:nt]
    validate_traces.last_rejects = validate_traces.last_rejects[:nt]
    for t, rj in zip(traces, validate_traces.last_rejects):
        for l, why in rj[:3]:
            e = t['ev'][l - 1]
            rep.violation(signature(e), '%s (%s): %s' % (e['op'], e['what'], why[:700]), {'job': t['job'], 'event': l, 'op': e['op'], 'what': e['what']})
    if any((not a) and not rj for a, rj in zip(acc, validate_traces.last_rejects)):
        raise Machinery('C12 trace neither accepted nor rejected')
    evs = [e for t in traces for e in t['ev']]
    rep.cov['states'] += sum(x.distinct for x in res)
    rep.cov['transitions'] += sum(x.generated for x in res)
    rep.cov['traces_validated_against_impl'] = len(traces)
    rep.cov['evaluations'] = len(evs)
    ms = [e for e in evs if e['op'] == 'measure']
    nz = [e for e in ms if any(o[1] or o[2] for o in e['obs'])]
    rep.cov['parts']['jobs_skipped_for_memory'] = [e['what'] for e in evs if e['op'] == 'verdict' and 'skipped_too_large_for_the_sandbox' in e['verdicts']]
    rep.cov['distinct_nontrivial'] = len(nz) + sum(1 for e in evs if e['op'] in ('metric', 'evolve', 'cover', 'ctmu'))

    def cnt(sub, pool=None):
        return sum(1 for e in (pool if pool is not None else ms) for o in e['obs'] if sub in o[0])
    rep.cov['parts'].update({
        'states': sum(1 for t in traces if t['job'][0] not in ('cover', 'canonical-zero-metric')), 'state_sizes': sorted(set(len([e for e in t['ev'] if e['op'] in ('init', 'apply')][-1]['ent']) for t in traces if t['ev'][0]['op'] == 'init'))[-8:],
        'measure_events': len(ms), 'measure_events_nonzero_expectation': len(nz), 'measured_numbers': sum(len(e['obs']) for e in ms),
        'by_environment': {'boundary_mps': cnt('bmps['), 'ctm': cnt('ctm['), 'bp': cnt('bp.')},
        'by_function': {k: cnt(k) for k in ('.1site', '.1site(site)', '.nn', '.nn(bond)', '.nn(dict)', '.2site[', '.nsite', '.measure_nsite', '.measure_nsite_exact', '.measure_line', '.measure_2x2')},
        'by_setup': {su: cnt('bmps[%s,' % su) for su in SETUPS},
        'identity_measured': sum(1 for e in ms if not e['terms'][0]['ops']), 'words_of_3_or_4_operators': sum(1 for e in ms if len(e['terms'][0]['ops']) >= 3),
        'metric_events': {w: sum(1 for e in evs if e['op'] == 'metric' and ('ntu[%s]' % w) in e['what']) for w in WHICH} | {'bp': sum(1 for e in evs if e['op'] == 'metric' and ' bp ' in e['what'])},
        'evolve_events': sum(1 for e in evs if e['op'] == 'evolve'), 'cover_events': sum(1 for e in evs if e['op'] == 'cover'),
        'ctm_update_move_events': {'measured exact (coverage must be complete in the model)': sum(1 for e in evs if e['op'] == 'ctmu' and e['exact']),
                                   'measured not exact (no claim; single moves serve as negative controls)': sum(1 for e in evs if e['op'] == 'ctmu' and not e['exact'])},
        'measure_function_raised': sum(1 for e in evs if e['op'] == 'verdict' and 'measure_function_returns' in e['verdicts']),
        'lattices': sorted(set(t['ev'][0]['what'].split()[1] for t in traces if t['job'][0] not in ('cover', 'canonical-zero-metric'))),
        'identically_zero_metrics': sum(1 for e in evs if e['op'] == 'metric' and 'ZERO-METRIC' in e['what'])})
    rep.sample({k: v for k, v in (nz[0] if nz else ms[0]).items() if k != 'obs'} | {'obs': (nz[0] if nz else ms[0])['obs'][:4]} if ms else None)
    rep.assumptions += ['measured numbers are compared after rounding value * <psi|psi> to the nearest Gaussian integer (must be within 1e-8 * <psi|psi> * max(1, |value|)); <psi|psi> <= 2^26',
                        'metric tolerances TolMetric = 1e-10, truncation error TolTrunc = 1e-7 (both relative) are constants of PepsMeasure.tla',
                        'NumPy backend; boundary MPS with D_total = 4096 and tol = 1e-14 (the run aborts as machinery failure if anything is discarded)',
                        'EnvCTM as a truncation environment (bond_metric / update_bond_ on finite lattices) is outside the statement and not exercised']
    return rep.finish()


def signature(e):
    """ stable signature of a failing event: the function and the kind of object, not the seed """
    w = e['what']
    if e['op'] == 'verdict' and w.startswith('KF-zero-metric'):
        import re
        return 'evolve:zero-metric:%s' % re.search(r'ntu\[([^\]]+)\]', w).group(1)
    if e['op'] == 'verdict':
        import re
        m = re.search(r'(bmps\[[^\]]*\]|ctm\[k=\d+\]|bp)\.(\w+)', w)
        lat = w.split()[1] if len(w.split()) > 1 else ''
        if m and 'raised' in w:
            return 'raised:%s.%s:%s:%s' % (m.group(1).split('[')[0], m.group(2), 'line' if (lat.startswith('1x') or lat.endswith('x1')) else 'plane', w.split('raised ')[1].split(':')[0])
    return '%s:%s' % (e['op'], w)
