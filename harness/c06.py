"""C06 — MPS/MPO algebra agrees with the states and operators it represents.

Registers hold alpha(to_tensor()) of real MPS/MPO objects with small-integer site tensors, so every object has an exact Gaussian-integer
dense representative.  TLC (TraceTensor: m_* events) recomputes each result of the MPS algebra from the observed operands with the
TENSOR semantics of TensorOps: sums with amplitudes = LinComb, scalar multiplication / division (incl. the separate norm factor),
MPO@MPS = Dot over the bra legs, MPO@MPO, conj, transpose, conjugate-transpose, reverse_sites, product states = outer products;
measure_overlap and measure_mpo (single MPO, sums of MPOs with amplitudes, conj/H/transposed MPOs) are exact numbers.
"""
from __future__ import annotations
import random
import numpy as np
from concurrent.futures import ProcessPoolExecutor
from vlib import Report, validate_traces, Machinery
import tensors as T
import mpsx
from c01 import report_traces

AMPS = [[1, 0], [-1, 0], [2, 0], [-2, 0], [0, 1], [0, -1], [0, 2], [3, 0]]


def rounded_obs(obj, sym, tol=1e-7):
    """ alpha of the dense tensor of an object produced by a floating-point routine (SVD / QR inside): entries rounded to Gaussian integers,
    None if they are not integers within tol (relative to the largest entry) """
    x = obj
    if getattr(obj, 'pC', None) is not None:
        x = obj.shallow_copy()
        x.absorb_central_()
    t = x.to_tensor() if hasattr(x, 'to_tensor') else x
    t = t.copy()
    d = np.asarray(t._data)
    if not np.all(np.isfinite(d)):
        return None
    r = np.round(d.real) + (1j * np.round(d.imag) if np.iscomplexobj(d) else 0)
    scale = max(1.0, float(np.max(np.abs(d)))) if d.size else 1.0
    if d.size and float(np.max(np.abs(d - r))) > tol * scale:
        return None
    t._data[...] = r
    return T.alpha(t, sym, views=False)


def cnum(z):
    c = complex(*z)
    return c.real if c.imag == 0 else c


def program(args):
    import yastn
    import yastn.tn.mps as mps
    from yastn import YastnError
    fi, seed, nsteps = args
    fam = mpsx.FAMILIES[fi]
    sym = fam[1]
    rng = random.Random(seed)
    ops = mpsx.ops_of(fam)
    ops.config.backend.random_seed(seed % 10007)
    d = mpsx.local_dim(fam)
    N = rng.choice((1, 2, 2, 3)) if d >= 3 else rng.choice((1, 2, 3, 3, 4))
    Nmpo_ok = (d ** (2 * N)) <= 260
    I = mps.product_mpo(ops.I(), N)
    objs, kinds, ev = [], [], []
    proto = []          # environment-protocol events of compression_ runs (validated by TraceEnv)

    def add(o, kind, e):
        obs = mpsx.dense_obs(o, sym)
        if len(obs['ent']) > 300:
            return None
        e['obs'] = obs
        e['out'] = 'ok'
        ev.append(e)
        objs.append(o)
        # an object with a site tensor without any block (e.g. x - x) stays registered and checked, but is not used as an operand again:
        # the library represents the zero state with empty legs, on which environments are not defined (documented limitation, DESIGN.md)
        kinds.append(kind if all(len(o[n].struct.t) > 0 for n in o.sweep(to='last')) else 0)
        return len(objs) - 1
    # initial objects
    for k in range(2):
        for _ in range(6):
            try:
                psi = mpsx.int_mps(I, rng, D=rng.choice((1, 2, 3)), dtype='complex128' if rng.random() < 0.25 else 'float64')
                break
            except YastnError:
                psi = None
        if psi is None:
            return None
        if k == 1 and rng.random() < 0.5 and objs:
            # same charge sector as the first one, so that sums are possible
            try:
                psi = mpsx.int_mps(I, rng, D=2, n=objs[0].virtual_leg('first').t[0] if hasattr(objs[0], 'virtual_leg') else None)
            except Exception:  # noqa
                pass
        add(psi, 1, {'op': 'init'})
    if Nmpo_ok:
        add(mpsx.int_mpo(I, rng, D=2, dtype='complex128' if rng.random() < 0.2 else 'float64'), 2, {'op': 'init'})
        # a charged product MPO (e.g. a raising operator on one site) and its relatives
        names = [nm for nm in ('cp', 'c', 'sp', 'sm') if hasattr(ops, nm)]
        if names and N >= 1:
            site = rng.randrange(N)
            nm = rng.choice(names)
            try:
                loc = getattr(ops, nm)() if fam[0] != 'SpinfulFermions' else getattr(ops, nm)(rng.choice(('u', 'd')))
                add(mps.product_mpo([loc if n == site else ops.I() for n in range(N)]), 2, {'op': 'init'})
            except Exception:  # noqa
                pass
    if not objs:
        return None

    def measure_event(p, rs, amp, q):
        v = mps.measure_mpo(objs[p], objs[rs[0]], objs[q]) if (len(rs) == 1 and amp[0] == [1, 0]) else mps.measure_mpo(objs[p], [cnum(z) * objs[j] for j, z in zip(rs, amp)], objs[q])
        ev.append({'op': 'm_measure', 'a': p + 1, 'b': q + 1, 'rs': [j + 1 for j in rs], 'amp': amp, 'N': N, 'out': 'ok', 'val': T._gint(v)})
    # charged MPO and its relatives between the states it connects: <O psi| O |psi>, <psi| O^+ |O psi>, and the conjugated versions
    try:
        ch = [i for i, k in enumerate(kinds) if k == 2 and any(ev_obs(ev, i)['n'])]
        ps = [i for i, k in enumerate(kinds) if k == 1]
        if ch and ps:
            iO, ip = ch[-1], ps[0]
            iphi = add(objs[iO] @ objs[ip], 1, {'op': 'm_apply', 'a': iO + 1, 'b': ip + 1, 'N': N, 'ph': 1})
            if iphi is not None and kinds[iphi] == 1:
                iOH = add(objs[iO].H, 2, {'op': 'm_hc', 'a': iO + 1, 'N': N, 'ph': 2})
                iOc = add(objs[iO].conj(), 2, {'op': 'm_conj', 'a': iO + 1, 'N': N, 'ph': 2})
                ipc = add(objs[ip].conj(), 1, {'op': 'm_conj', 'a': ip + 1, 'N': N, 'ph': 1})
                iphic = add(objs[iphi].conj(), 1, {'op': 'm_conj', 'a': iphi + 1, 'N': N, 'ph': 1})
                measure_event(iphi, [iO], [[1, 0]], ip)
                if iOH is not None:
                    measure_event(ip, [iOH], [[1, 0]], iphi)
                    measure_event(ip, [iOH, iOH], [[2, 0], [0, 1]], iphi)
                if None not in (iOc, ipc, iphic):
                    measure_event(iphic, [iOc], [[1, 0]], ipc)
    except YastnError:
        pass
    for _ in range(nsteps):
        r = rng.random()
        psis = [i for i, k in enumerate(kinds) if k == 1]
        mpos = [i for i, k in enumerate(kinds) if k == 2]
        a = rng.choice([i for i, k in enumerate(kinds) if k > 0] or [0])
        ph = kinds[a]
        if ph == 0:
            break
        e = None
        try:
            if r < 0.2:
                # linear combination of 2-3 compatible objects
                oa = ev_obs(ev, a)
                cands = [j for j in range(len(objs)) if kinds[j] == ph and ev_obs(ev, j)['s'] == oa['s'] and ev_obs(ev, j)['n'] == oa['n']]
                rs = [a] + [rng.choice(cands) for _ in range(rng.choice((1, 1, 2)))]
                amp = [rng.choice(AMPS) for _ in rs]
                res = mps.add(*[objs[j] for j in rs], amplitudes=[cnum(z) for z in amp]) if rng.random() < 0.7 else None
                if res is None:
                    res = cnum(amp[0]) * objs[rs[0]]
                    for j, z in zip(rs[1:], amp[1:]):
                        res = res + cnum(z) * objs[j]
                add(res, ph, {'op': 'm_lin', 'a': a + 1, 'rs': [j + 1 for j in rs], 'amp': amp, 'N': N, 'ph': ph})
            elif r < 0.32:
                z = rng.choice(AMPS + [[0, 0]])
                res = cnum(z) * objs[a] if rng.random() < 0.5 else objs[a] * cnum(z)
                add(res, ph, {'op': 'm_scale', 'a': a + 1, 'amp': [z], 'N': N, 'ph': ph, 'factor0': mpsx.frac(objs[a].factor), 'factor': mpsx.frac(res.factor)})
            elif r < 0.40:
                z = rng.choice(AMPS[:7])
                res = objs[a] / cnum(z)
                obs = mpsx.dense_obs(res, sym) if all(abs(x) == 1 for x in z if x) else None
                if obs is not None:
                    add(res, ph, {'op': 'm_div', 'a': a + 1, 'amp': [z], 'N': N, 'ph': ph, 'factor0': mpsx.frac(objs[a].factor), 'factor': mpsx.frac(res.factor)})
                else:
                    # divide something that was multiplied by the same number before: (z x) / z
                    tmp = cnum(z) * objs[a]
                    i1 = add(tmp, ph, {'op': 'm_scale', 'a': a + 1, 'amp': [z], 'N': N, 'ph': ph, 'factor0': mpsx.frac(objs[a].factor), 'factor': mpsx.frac(tmp.factor)})
                    if i1 is not None:
                        res = tmp / cnum(z)
                        add(res, ph, {'op': 'm_div', 'a': i1 + 1, 'amp': [z], 'N': N, 'ph': ph, 'factor0': mpsx.frac(tmp.factor), 'factor': mpsx.frac(res.factor)})
            elif r < 0.52 and mpos and psis:
                m, p = rng.choice(mpos), rng.choice(psis)
                res = objs[m] @ objs[p]
                add(res, 1, {'op': 'm_apply', 'a': m + 1, 'b': p + 1, 'N': N, 'ph': 1})
            elif r < 0.58 and len(mpos) >= 1 and d ** (2 * N) <= 70:
                m1, m2 = rng.choice(mpos), rng.choice(mpos)
                res = objs[m1] @ objs[m2]
                add(res, 2, {'op': 'm_compose', 'a': m1 + 1, 'b': m2 + 1, 'N': N, 'ph': 2})
            elif r < 0.64 and mpos and psis:
                # zipper / variational compression WITHOUT truncation reproduce the exact product (SVD inside: entries rounded, must be integers within 1e-7)
                m, p = rng.choice(mpos), rng.choice(psis)
                big = {'D_total': 4096, 'tol': 1e-13}
                how = rng.choice(('zipper', 'zipper', 'compress', 'compress-iter'))
                outs = []
                exact = mpsx.dense_obs(objs[m] @ objs[p], sym)
                if not exact['ent']:
                    continue        # the product is the zero vector: the library has no representation of it for SVD-based routines (division by the norm)
                try:
                    z = mps.zipper(objs[m], objs[p], opts_svd=big, normalize=False)
                except (ValueError, np.linalg.LinAlgError) as ex:
                    ev.append({'op': 'm_apply', 'a': m + 1, 'b': p + 1, 'N': N, 'ph': 1, 'out': 'zipper raised %s on a non-zero product' % type(ex).__name__, 'via': 'zipper'})
                    continue
                if how == 'zipper':
                    outs.append(('zipper', z))
                else:
                    # the environment protocol of the variational compression is recorded from outside (envx) and validated against EnvCoherence / Sweeps!Comp1, Comp2
                    import envx
                    rec = envx.EnvRecorder()
                    rec.install()
                    meth = rng.choice(('1site', '2site'))
                    nsw = 0
                    try:
                        if how == 'compress':
                            out = mps.compression_(z, (objs[m], objs[p]), method=meth, max_sweeps=rng.choice((1, 2, 3)), normalize=False, opts_svd=big)
                            nsw = out.sweeps
                            outs.append(('compression_', z))
                        else:
                            for k_, out in enumerate(mps.compression_(z, (objs[m], objs[p]), method=meth, max_sweeps=3, iterator=True, normalize=False, opts_svd=big)):
                                nsw = out.sweeps
                                outs.append(('compression_ iterator %s sweep %d' % (meth, out.sweeps), z.copy()))
                    finally:
                        rec.uninstall()
                    for tr in rec.traces():
                        what = 'compression_ %s %s N=%d seed=%s sweeps=%d %s' % (meth, how, N, seed, nsw, tr['cls'])
                        proto.append({'op': 'coherence', 'what': what, 'N': tr['N'], 'pre': tr['pre'], 'events': tr['events']})
                        proto.append({'op': 'schedule', 'what': what, 'N': tr['N'], 'methods': ['comp1' if meth == '1site' else 'comp2'] * nsw, 'decisions': [[] for _ in range(nsw)],
                                      'tail': [], 'cache': envx.cache_events(tr['events']), 'interleave_measure': True})
                for lab, res in outs:
                    o = rounded_obs(res, sym)
                    if o is None:
                        ev.append({'op': 'm_apply', 'a': m + 1, 'b': p + 1, 'N': N, 'ph': 1, 'out': 'not the integer product (%s)' % lab, 'via': lab})
                    elif len(o['ent']) <= 300:
                        ev.append({'op': 'm_apply', 'a': m + 1, 'b': p + 1, 'N': N, 'ph': 1, 'out': 'ok', 'obs': o, 'via': lab})
                        objs.append(res)
                        kinds.append(0)          # registered and checked, not used as an operand (floating-point site tensors)
            elif r < 0.67:
                # mps_from_tensor of the dense tensor gives back the same object
                o0 = ev_obs(ev, a)
                ten = objs[a].to_tensor() if objs[a].pC is None else None
                if ten is not None and N >= 1 and o0['ent']:
                    res = mps.mps_from_tensor(ten, nr_phys=ph, canonize=rng.choice(('last', 'first')), opts_svd={'D_total': 4096, 'tol': 1e-13})
                    o = rounded_obs(res, sym)
                    if o is None:
                        ev.append({'op': 'copy', 'a': a + 1, 'out': 'mps_from_tensor does not reproduce the tensor', 'via': 'mps_from_tensor'})
                    else:
                        ev.append({'op': 'copy', 'a': a + 1, 'out': 'ok', 'obs': o, 'via': 'mps_from_tensor'})
                        objs.append(res)
                        kinds.append(0)
            elif r < 0.70:
                k = rng.choice(('m_conj', 'm_transpose', 'm_hc', 'm_reverse'))
                res = {'m_conj': lambda o: o.conj(), 'm_transpose': lambda o: o.transpose() if rng.random() < 0.5 else o.T,
                       'm_hc': lambda o: o.conjugate_transpose() if rng.random() < 0.5 else o.H, 'm_reverse': lambda o: o.reverse_sites()}[k](objs[a])
                add(res, ph, {'op': k, 'a': a + 1, 'N': N, 'ph': ph})
            elif r < 0.82 and psis:
                p, q = rng.choice(psis), rng.choice(psis)
                v = mps.measure_overlap(objs[p], objs[q]) if rng.random() < 0.5 else mps.vdot(objs[p], objs[q])
                ev.append({'op': 'm_overlap', 'a': p + 1, 'b': q + 1, 'N': N, 'out': 'ok', 'val': T._gint(v)})
            elif mpos and psis:
                p, q = rng.choice(psis), rng.choice(psis)
                rs = [rng.choice(mpos) for _ in range(rng.choice((1, 1, 2, 3)))]
                amp = [rng.choice(AMPS[:6]) for _ in rs]
                if len(rs) == 1 and amp[0] == [1, 0]:
                    v = mps.measure_mpo(objs[p], objs[rs[0]], objs[q]) if rng.random() < 0.5 else mps.vdot(objs[p], objs[rs[0]], objs[q])
                else:
                    v = mps.measure_mpo(objs[p], [cnum(z) * objs[j] for j, z in zip(rs, amp)], objs[q])
                ev.append({'op': 'm_measure', 'a': p + 1, 'b': q + 1, 'rs': [j + 1 for j in rs], 'amp': amp, 'N': N, 'out': 'ok', 'val': T._gint(v)})
        except YastnError as ex:
            pass          # an operation the library rejects (e.g. incompatible charges): not part of the program
        except Machinery:
            raise
        if len(objs) > 11:
            break
    return {'sym': sym, 'ferm': T.ferm_vector(sym, ops.config.fermionic), 'seed': seed, 'family': list(fam),
            'knob': {'fusion': 'hard', 'force': 'none', 'policy': 'fuse_to_matrix'}, 'ev': ev, 'proto': proto}


def pbc_program(args):
    """ periodic MPO: the dense matrix of MpoPBC.to_tensor() (also with a non-unit factor) and measure_mpo(bra, Hp, ket) against the ring contraction of the SITE
    TENSORS carried out with tensor events (tensordot / trace / transpose, each validated by TLC): to_tensor() must be a copy of that register """
    import yastn
    import yastn.tn.mps as mps
    from yastn import YastnError
    fi, seed = args
    fam = mpsx.FAMILIES[fi]
    sym = fam[1]
    rng = random.Random(seed)
    ops = mpsx.ops_of(fam)
    cfg = ops.config
    cfg.backend.random_seed(seed % 10007)
    d = mpsx.local_dim(fam)
    N = rng.choice((1, 1, 2, 2, 3)) if d == 2 else rng.choice((1, 1, 2))
    phys = ops.space()
    regs, ev = [], []

    def reg(t, e):
        o = T.alpha(t, sym, views=False)
        if len(o['ent']) > 300:
            raise Machinery('pbc: tensor too large for the exact engine')
        e['obs'] = o
        e['out'] = 'ok'
        ev.append(e)
        regs.append(t)
        return len(regs) - 1

    def do(op):
        out, res = T.apply_op(op, regs)
        e = T.event_of(op, out, res, sym, None)
        if out != 'ok':
            raise Machinery('pbc reference contraction failed: %s' % out)
        if len(e['obs']['ent']) > 300:
            return None
        ev.append(e)
        regs.append(res)
        return len(regs) - 1
    # virtual leg of the ring: 1-2 sectors of dimension 1-2
    if T.SYMS[sym]:
        ts = sorted(set([tuple(0 for _ in T.SYMS[sym])] + [tuple(phys.t[rng.randrange(len(phys.t))]) for _ in range(rng.choice((0, 1)))]))
        v = yastn.Leg(cfg, s=-1, t=ts, D=[rng.choice((1, 2)) for _ in ts])
    else:
        v = yastn.Leg(cfg, s=-1, D=(rng.choice((1, 2, 3)),))
    Hp = mps.Mpo(N, periodic=True)
    sites = []
    for n in range(N):
        for _ in range(8):
            A = yastn.rand(cfg, legs=[v, phys, v.conj(), phys.conj()], n=cfg.sym.zero() if T.SYMS[sym] else None, dtype='complex128' if rng.random() < 0.2 else 'float64')
            if A.size:
                break
        if not A.size:
            return None
        for t in A.get_blocks_charge():
            blk = A[t]
            vals = np.array([rng.choice((-2, -1, 1, 1, 2, 0)) for _ in range(blk.size)], dtype=np.float64).reshape(blk.shape)
            if np.iscomplexobj(blk):
                vals = vals + 1j * np.array([rng.choice((-1, 0, 0, 1)) for _ in range(blk.size)]).reshape(blk.shape)
            blk[...] = vals
        Hp[n] = A
        sites.append(reg(A, {'op': 'init'}))
    # ring contraction with tensor events: legs (vl, k0, b0, k1, b1, ..., vr) then trace over (vl, vr)
    cur = do({'op': 'transpose', 'a': sites[0], 'p': [0, 1, 3, 2]})            # vl k0 b0 vr
    for n in range(1, N):
        if cur is None:
            return None
        nl = 2 + 2 * n
        cur = do({'op': 'tensordot', 'a': cur, 'b': sites[n], 'la': [nl - 1], 'lb': [0], 'conj': [0, 0]})     # ... k_n vr b_n
        if cur is None:
            return None
        cur = do({'op': 'transpose', 'a': cur, 'p': list(range(nl - 1)) + [nl - 1, nl + 1, nl]})
    if cur is None:
        return None
    ring = do({'op': 'trace', 'a': cur, 'l0': [0], 'l1': [2 * N + 1]})
    if ring is None:
        return None
    try:
        ev.append({'op': 'copy', 'a': ring + 1, 'out': 'ok', 'obs': T.alpha(Hp.to_tensor(), sym, views=False), 'via': 'MpoPBC.to_tensor N=%d' % N})
        regs.append(Hp.to_tensor())
        z = rng.choice(AMPS)
        sc = do({'op': 'scale', 'a': ring, 'amp': [z]})
        Hs = cnum(z) * Hp if rng.random() < 0.5 else Hp * cnum(z)
        if sc is not None:
            ev.append({'op': 'copy', 'a': sc + 1, 'out': 'ok', 'obs': T.alpha(Hs.to_tensor(), sym, views=False), 'via': 'scaled MpoPBC.to_tensor N=%d factor=%s' % (N, Hs.factor)})
            regs.append(Hs.to_tensor())
        # <bra| Hp |ket> with integer MPS: the dense number through tensor events, the measured one as a second vdot event over the same registers
        I = mps.product_mpo(ops.I(), N)
        ket = None
        for _ in range(6):
            try:
                ket = mpsx.int_mps(I, rng, D=rng.choice((1, 2)))
                nk = ket.virtual_leg('first').t[0] if T.SYMS[sym] else None
                bra = mpsx.int_mps(I, rng, D=2, n=nk) if rng.random() < 0.7 else ket
                break
            except YastnError:
                ket = None
        if ket is None:
            return {'sym': sym, 'ferm': T.ferm_vector(sym, cfg.fermionic), 'seed': seed, 'family': list(fam), 'kind': 'pbc',
                    'knob': {'fusion': 'hard', 'force': 'none', 'policy': 'fuse_to_matrix'}, 'ev': ev}
        ik = reg(ket.to_tensor(), {'op': 'init'})
        ib = reg(bra.to_tensor(), {'op': 'init'}) if bra is not ket else ik
        for which, H in ((ring, Hp), (sc, Hs)):
            if which is None:
                continue
            hk = do({'op': 'tensordot', 'a': which, 'b': ik, 'la': [2 * k + 1 for k in range(N)], 'lb': list(range(N)), 'conj': [0, 0]})
            if hk is None:
                continue
            out, val = T.apply_op({'op': 'vdot', 'a': ib, 'b': hk, 'conj': [1, 0]}, regs)
            ev.append(T.event_of({'op': 'vdot', 'a': ib, 'b': hk, 'conj': [1, 0]}, out, val, sym, None))
            m = mps.measure_mpo(bra, H, ket) if rng.random() < 0.5 else mps.vdot(bra, H, ket)
            e2 = T.event_of({'op': 'vdot', 'a': ib, 'b': hk, 'conj': [1, 0]}, 'num', complex(m), sym, None)
            e2['via'] = 'measure_mpo with MpoPBC N=%d' % N
            ev.append(e2)
    except YastnError as ex:
        raise Machinery('pbc driver: %s' % ex)
    return {'sym': sym, 'ferm': T.ferm_vector(sym, cfg.fermionic), 'seed': seed, 'family': list(fam), 'kind': 'pbc',
            'knob': {'fusion': 'hard', 'force': 'none', 'policy': 'fuse_to_matrix'}, 'ev': ev}


def ev_obs(ev, j):
    regs = [e for e in ev if 'obs' in e]
    return regs[j]['obs']


def main(tier, seed, replay=None):
    rep = Report('C06', tier, seed, 'model_checking')
    if replay:
        rep.write_evidence = False
    rep.cov['rule'] = ('expression programs over MPS/MPO objects with integer site tensors (chain lengths 1..4, spin-1/2, spin-1, spinless and spinful fermions in every supported symmetry, bond '
                       'dimension 1..3, real/complex, non-unit factors, charged MPOs and their conj/transpose/H); every result is compared exactly with the dense tensor semantics; '
                       'non-trivial = event whose result (or operands, for numbers) has >= 1 non-zero element')
    n = 240 if tier == 'quick' else 4000
    jobs = [(i % len(mpsx.FAMILIES), seed * 1000211 + i, 10 if tier == 'quick' else 14) for i in range(n)]
    pjobs = [(i % len(mpsx.FAMILIES), seed * 1000231 + i) for i in range(n // 2)]
    if replay:
        import json
        c = json.load(open(replay))['case']
        fi = [list(f) for f in mpsx.FAMILIES].index(list(c['family']))
        jobs = [(fi, c['seed'], 10 if tier == 'quick' else 14)] if c.get('kind') != 'pbc' else []
        pjobs = [(fi, c['seed'])] if c.get('kind') == 'pbc' else []
    with ProcessPoolExecutor(max_workers=14) as ex:
        traces = [t for t in ex.map(program, jobs, chunksize=4) if t]
        traces += [t for t in ex.map(pbc_program, pjobs, chunksize=4) if t]
    proto = [e for t in traces for e in t.pop('proto', [])]
    if not replay:
        from vlib import tlc_ok
        r = tlc_ok('SweepsMC', 'SweepsMC.cfg', workers=8, timeout=1800, mem='6g')
        rep.add_tlc('SweepsMC (schedules of dmrg_ / tdvp_ / compression_ through EnvCoherence: every read fresh, N<=4)', r)
    nev, kinds, rej = report_traces(rep, traces)
    # protocol of the variational compression: every read of the environment cache fresh (EnvCoherence), cache events exactly Sweeps!Comp1 / Comp2 per sweep
    if proto:
        ptr = [{'ev': proto[i:i + 12]} for i in range(0, len(proto), 12)]
        pacc, pdiag, pres = validate_traces('TraceEnv', 'TraceEnv.cfg', ptr, shards=8, timeout=1800)
        for t, rj in zip(ptr, validate_traces.last_rejects):
            for l, why in rj[:3]:
                e = t['ev'][l - 1]
                rep.violation('compression-protocol:%s:%s' % (e['op'], e['what']), '%s (%s): %s' % (e['op'], e['what'], why[:600]), {'op': 'protocol', 'what': e['what']})
        if any((not a) and not rj for a, rj in zip(pacc, validate_traces.last_rejects)):
            raise Machinery('C06 protocol trace neither accepted nor rejected')
        rep.cov['states'] += sum(x.distinct for x in pres)
        rep.cov['transitions'] += sum(x.generated for x in pres)
        if not replay:
            import copy
            bad = copy.deepcopy(next((e for e in proto if e['op'] == 'schedule' and len(e['cache']) > 6), None))
            if bad is not None:
                bad['cache'][3], bad['cache'][4] = bad['cache'][4], bad['cache'][3]
                if bad['cache'][3] != bad['cache'][4]:
                    a2, _, _ = validate_traces('TraceEnv', 'TraceEnv.cfg', [{'ev': [bad]}], shards=1, timeout=600)
                    if a2[0]:
                        raise Machinery('negative control: a compression_ schedule with two cache events swapped was accepted')
                    rep.cov['parts']['compression_protocol_negative_control_rejected'] = True
    rep.cov['parts']['compression_protocol'] = {'coherence_traces': sum(1 for e in proto if e['op'] == 'coherence'), 'schedule_comparisons': sum(1 for e in proto if e['op'] == 'schedule'),
                                                'cache_events': sum(len(e['events']) for e in proto if e['op'] == 'coherence')}
    bys = {(t['seed'], t.get('kind', 'program')): t for t in traces}
    for v in rep.violations:
        t = bys.get((v[2].get('seed'), 'pbc')) if ('pbc', v[2].get('seed')) in {(t.get('kind'), t['seed']) for t in traces} and any(e.get('via', '').find('MpoPBC') >= 0 for e in bys[(v[2]['seed'], 'pbc')]['ev'][:v[2].get('event', 0)]) else bys.get((v[2].get('seed'), 'program'))
        t = t or bys.get((v[2].get('seed'), 'pbc'))
        if t:
            v[2]['family'] = t['family']
            v[2]['kind'] = t.get('kind', 'program')
    if not replay:
        from vlib import negative_controls
        def c_val(e):
            if e['op'].startswith('m_') and 'val' in e and any(e['val']):
                e['val'] = [e['val'][0] + 1] + list(e['val'][1:])
                return True
        def c_ent(e):
            if e['op'].startswith('m_') and e.get('out', 'ok') == 'ok' and 'obs' in e and e['obs']['ent']:
                x = e['obs']['ent'][0][1]
                x[0] += 1
                return True
        rep.cov['parts']['negative_controls_rejected'] = negative_controls('TraceTensor', 'TraceTensor.cfg', traces, [('overlap / expectation value + 1', c_val), ('element of an MPS expression + 1', c_ent)], timeout=900, mem='3g')
    rep.cov['traces_validated_against_impl'] = len(traces)
    rep.cov['evaluations'] = nev
    rep.cov['distinct_nontrivial'] = sum(1 for t in traces for e in t['ev'] if e['op'] != 'init' and (('obs' in e and e['obs']['ent']) or ('val' in e and any(e['val']))))
    via = {}
    for t in traces:
        for e in t['ev']:
            if 'via' in e:
                k = e['via'].split(' N=')[0].split(' sweep')[0]
                via[k] = via.get(k, 0) + 1
    rep.cov['parts'].update({'events_by_op': kinds, 'families': sorted({'%s/%s' % tuple(t['family']) for t in traces}), 'floating_point_routines_and_periodic_mpo': via,
                             'periodic_mpo_programs': sum(1 for t in traces if t.get('kind') == 'pbc')})
    t0 = traces[len(traces) // 2]
    rep.sample({'family': t0['family'], 'seed': t0['seed'], 'ops': [{k: v for k, v in e.items() if k != 'obs'} for e in t0['ev'] if e['op'] != 'init']})
    rep.assumptions += ['mps_from_tensor, zipper and variational compression are SVD-based: their results are compared after rounding to the integer product (1e-7)', 'chain lengths bounded by the size of the dense representative (<= 300 elements)']
    return rep.finish()
