"""Tensor layer of the harness: projection alpha (real yastn.Tensor -> abstract JSON state of TensorOps.tla),
construction of hash-valued integer tensors from structures, random program generation and execution with event logging.

alpha uses only the public, logical view (get_legs, history, unfuse_legs, block access, to_numpy) plus a read-only copy of the
raw block structure (struct.s/n/t/D/size) for the representation-level well-formedness clause of C02.
"""
from __future__ import annotations
import itertools
import random
import numpy as np
from vlib import Machinery

SYMS = {'dense': (), 'Z2': (2,), 'Z3': (3,), 'U1': (0,), 'Z2xU1': (2, 0), 'U1xU1': (0, 0), 'U1xU1xZ2': (0, 0, 2)}


def sym_class(name):
    import yastn.sym as ys
    return {'dense': ys.sym_none, 'Z2': ys.sym_Z2, 'Z3': ys.sym_Z3, 'U1': ys.sym_U1, 'Z2xU1': ys.sym_Z2xU1,
            'U1xU1': ys.sym_U1xU1, 'U1xU1xZ2': ys.sym_U1xU1xZ2}[name]


def make_config(sym, fermionic=False, fusion='hard', force=None, policy='fuse_to_matrix'):
    import yastn
    return yastn.make_config(sym=sym_class(sym), fermionic=fermionic, default_fusion=fusion, force_fusion=force, tensordot_policy=policy)


# ------------------------------------------------------------------ alpha
def parse_history(h):
    """ 'm(p(oo)o)' -> preorder list of [k, mode] """
    out = []
    stack = []
    i = 0
    while i < len(h):
        c = h[i]
        if c in 'pms':
            out.append([0, c])
            stack.append(len(out) - 1)
            i += 2  # skip '('
            continue
        if c == 'o':
            out.append([0, 'o'])
            if stack:
                out[stack[-1]][0] += 1
        elif c == ')':
            j = stack.pop()
            if stack:
                out[stack[-1]][0] += 1
        i += 1
    return out


def collapse_sum(tree):
    """ a leg produced by yastn.block ('s' node) cannot be unfused: in the abstract view it is a native leg (the direct sum of the blocked spaces) """
    out, i = [], 0
    while i < len(tree):
        k, mode = tree[i]
        if mode == 's':
            # skip the whole subtree
            need, j = k, i + 1
            while need > 0:
                need += tree[j][0] - 1
                j += 1
            out.append([0, 'o'])
            i = j
        else:
            out.append([k, mode])
            i += 1
    return out


def _gint(x):
    re, im = float(np.real(x)), float(np.imag(x))
    if abs(re - round(re)) > 1e-9 or abs(im - round(im)) > 1e-9:
        raise Machinery('non-integer datum in an exact engine: %r' % (x,))
    return [int(round(re)), int(round(im))]


def fully_unfused(a):
    b = a
    for _ in range(8):
        fused = [i for i in range(b.ndim) if b.get_legs(i).is_fused() and 's' not in b.get_legs(i).history()]
        if not fused or b.isdiag:
            return b
        b = b.unfuse_legs(axes=tuple(fused))
    raise Machinery('unfuse did not terminate')


def entries_from_blocks(b, legs):
    nsym = b.config.sym.NSYM
    ent = []
    for t in b.get_blocks_charge():
        blk = np.asarray(b[t])
        ts = [list(t[k * nsym:(k + 1) * nsym]) for k in range(len(legs))]
        if b.isdiag:
            for i in np.flatnonzero(blk):
                ent.append([[[ts[0], int(i) + 1], [ts[1], int(i) + 1]], _gint(blk[i])])
        elif blk.ndim == 0:
            if blk != 0:
                ent.append([[], _gint(blk[()])])
        else:
            for idx in zip(*np.nonzero(blk)):
                ent.append([[[ts[k], int(i) + 1] for k, i in enumerate(idx)], _gint(blk[idx])])
    return ent


def entries_from_dense(arr, legs):
    """ dense array indexed leg by leg: sectors ascending by charge, then index within the sector """
    maps = []
    for lg in legs:
        m = []
        for t, D in zip(lg.t, lg.D):
            m += [[list(t), i + 1] for i in range(D)]
        maps.append(m)
    arr = np.asarray(arr)
    if arr.ndim == 0 and not legs:
        return [[[], _gint(arr[()])]] if arr != 0 else []
    if arr.ndim != len(legs) or any(arr.shape[k] != len(maps[k]) for k in range(len(legs))):
        return 'shape %s does not match legs %s' % (arr.shape, [len(m) for m in maps])
    return [[[maps[k][i] for k, i in enumerate(idx)], _gint(arr[idx])] for idx in zip(*np.nonzero(arr))]


def alpha(a, sym, views=True, noent=False):
    nsym = a.config.sym.NSYM
    st = a.struct
    nl = len(st.s)
    try:
        cons = 'ok' if a.is_consistent() else 'False'
    except AssertionError as e:
        cons = 'AssertionError %s' % e
    except Exception as e:  # noqa
        cons = type(e).__name__
    raw = {'s': list(st.s), 'n': list(st.n), 't': [[list(t[k * nsym:(k + 1) * nsym]) for k in range(nl)] for t in st.t],
           'D': [list(D) for D in st.D], 'size': int(st.size), 'dg': bool(a.isdiag), 'cons': cons}
    try:
        grp = [collapse_sum(parse_history(a.get_legs(i).history())) for i in range(a.ndim)]
        b = fully_unfused(a)
        legs = [b.get_legs(i) for i in range(b.ndim)]
    except Machinery:
        raise
    except Exception as ex:  # noqa   a tensor returned by a public operation cannot be read back through get_legs / unfuse_legs
        return {'sym': sym, 's': [], 'n': list(st.n), 'legs': [], 'grp': [], 'ent': [], 'dg': bool(a.isdiag), 'raw': raw,
                'views': 'get_legs/unfuse_legs of the result raised %s: %s' % (type(ex).__name__, str(ex)[:80])}
    from yastn import YastnError
    block_view_error = None
    try:
        ent = entries_from_blocks(b, legs) if not noent else []
    except YastnError as ex:   # get_blocks_charge() listed a key that block access rejects: fall back to the dense view, flag it
        block_view_error = 'block access a[t] fails for a charge listed by get_blocks_charge(): %s' % ex
        ent = entries_from_dense(b.to_numpy(), legs)
    o = {'sym': sym, 's': [lg.s for lg in legs], 'n': list(a.n), 'legs': [[[list(t), int(D)] for t, D in zip(lg.t, lg.D)] for lg in legs],
         'grp': grp, 'ent': ent, 'dg': bool(a.isdiag), 'raw': raw, 'views': 'same'}
    if block_view_error:
        o['views'] = block_view_error
    elif views and not noent:
        key = lambda e: repr(e[0])
        e0 = sorted(ent, key=key)
        try:
            e1 = entries_from_dense(b.to_numpy(), legs)
            # a tensor without blocks has zero-dimensional legs, which a dense yastn tensor cannot represent (documented rejection)
            e2 = entries_from_dense(b.to_nonsymmetric().to_numpy(), legs) if len(b.struct.t) else e1
            e3 = entries_from_dense(b.to_numpy(legs=dict(enumerate(legs))), legs)
            for nm, ex in (('to_numpy', e1), ('to_nonsymmetric', e2), ('to_numpy(legs=get_legs)', e3)):
                if isinstance(ex, str):
                    o['views'] = '%s: %s' % (nm, ex)
                elif sorted(ex, key=key) != e0:
                    o['views'] = '%s differs from the block view' % nm
            tl, tD = list(b.get_blocks_charge()), list(b.get_blocks_shape())
            if len(tl) != len(tD) or any(np.asarray(b[t]).shape != tuple(D) for t, D in zip(tl, tD)) and not b.isdiag:
                o['views'] = 'get_blocks_charge/get_blocks_shape disagree with block access'
        except Machinery:
            raise
        except Exception as e:  # noqa
            o['views'] = 'view raised %s' % type(e).__name__
    return o


# ------------------------------------------------------------------ structures and hash-valued data
def rand_charge(mod, rng, B=1):
    return tuple(rng.randrange(m) if m else rng.randint(-B, B) for m in mod)


def rand_leg_space(sym, rng, maxsec=2, maxdim=2, dims=None):
    """ dims: per-program map charge -> dimension, so that equal sectors of different legs agree (most of the time) """
    mod = SYMS[sym]
    dims = dims if dims is not None else {}
    if not mod:
        return [((), dims.setdefault((), rng.randint(1, maxdim + 1)))]
    secs = set()
    for _ in range(rng.randint(1, maxsec)):
        secs.add(rand_charge(mod, rng))
    return [(t, dims.setdefault(t, rng.randint(1, maxdim)) if rng.random() < 0.97 else rng.randint(1, maxdim)) for t in sorted(secs)]


def canon(mod, q):
    return tuple((x % m) if m else x for x, m in zip(q, mod))


def fuse_charge(mod, ts, ss):
    return canon(mod, tuple(sum(s * t[c] for t, s in zip(ts, ss)) for c in range(len(mod))))


def build_tensor(cfg, sym, s, legs, n, rng, density=0.8, dtype='float64', isdiag=False, target_sym=None, blocks=None):
    """ legs: list of leg spaces [(t, D), ...];  values: small non-zero (Gaussian) integers.
    target_sym: the tensor lives in another group that admits the same blocks (C16: same layout, different symmetry) """
    import yastn
    mod = SYMS[sym]
    nt = canon(SYMS[target_sym], n) if target_sym else n
    a = yastn.Tensor(config=cfg, s=tuple(s), n=nt if mod else None, isdiag=isdiag, dtype=dtype)
    combos = list(itertools.product(*legs)) if legs else [()]
    allowed = [c for c in combos if fuse_charge(mod, [x[0] for x in c], s) == tuple(n)]
    if isdiag:
        allowed = [c for c in allowed if c[0][0] == c[1][0]]
    chosen = [c for c in allowed if rng.random() < density]
    if blocks is not None:      # explicit list of stored blocks (per-leg charges)
        want = {tuple(tuple(t) for t in b) for b in blocks}
        chosen = [c for c in allowed if tuple(tuple(x[0]) for x in c) in want]
    for c in chosen:
        Ds = tuple(x[1] for x in c)
        ts = tuple(itertools.chain.from_iterable(x[0] for x in c))
        shape = (Ds[0],) if isdiag else Ds
        val = np.array([rng.choice((-3, -2, -1, 1, 2, 3)) if rng.random() < 0.85 else 0 for _ in range(int(np.prod(shape)) if shape else 1)], dtype=np.float64)
        if dtype == 'complex128':
            val = val + 1j * np.array([rng.choice((-2, -1, 0, 0, 1, 2)) for _ in range(len(val))])
        val = val.reshape(shape) if shape else val.reshape(())
        if mod:
            a.set_block(ts=ts, Ds=Ds if not isdiag else Ds[0], val=val)
        else:
            a.set_block(Ds=Ds if not isdiag else Ds[0], val=val)
    return a


def admissible_charges(sym, s, legs):
    mod = SYMS[sym]
    out = set()
    for c in itertools.product(*legs):
        out.add(fuse_charge(mod, [x[0] for x in c], s))
    return sorted(out)


# ------------------------------------------------------------------ programs
class Prog:
    """ a program = initial structures + op list; executed on real tensors under a configuration """

    def __init__(self, sym, ferm, inits, ops, seed):
        self.sym, self.ferm, self.inits, self.ops, self.seed = sym, ferm, inits, ops, seed


def ferm_vector(sym, ferm):
    n = len(SYMS[sym])
    if ferm is True:
        return [True] * n
    if ferm is False:
        return [False] * n
    return [bool(x) for x in ferm]


def gen_inits(sym, rng, nreg=3, maxrank=4, complex_p=0.3, diag_p=0.1, want_diag=False):
    """ initial structures drawn over a small pool of leg spaces so that contractions / additions are often possible """
    mod = SYMS[sym]
    dims = {}
    pool = [rand_leg_space(sym, rng, maxsec=3 if rng.random() < 0.5 else 2, dims=dims) for _ in range(3)]
    inits = []
    for r in range(nreg):
        if inits and rng.random() < 0.3:     # same shape as an earlier one (for lincomb / vdot), different stored blocks
            s0 = inits[rng.randrange(len(inits))]
            inits.append(dict(s0, dataseed=rng.randrange(1 << 30), density=rng.choice((0.5, 0.8, 1.0))))
            continue
        if mod and (rng.random() < diag_p or (want_diag and r == nreg - 1)):
            lg = pool[rng.randrange(3)]
            sg = rng.choice((1, -1))
            inits.append({'s': [sg, -sg], 'legs': [lg, lg], 'n': tuple(0 for _ in mod), 'dtype': 'complex128' if rng.random() < 0.4 else 'float64', 'isdiag': True,
                          'dataseed': rng.randrange(1 << 30), 'density': 1.0})
            continue
        rank = rng.choice((0, 1, 2, 2, 3, 3, 3, 4, 4)) if maxrank >= 4 else rng.randint(1, maxrank)
        legs = [pool[rng.randrange(3)] for _ in range(rank)]
        if rank == 4:
            legs = [lg[:2] for lg in legs]
        s = [rng.choice((1, -1)) for _ in range(rank)]
        ns = admissible_charges(sym, s, legs) if rank else [tuple(0 for _ in mod)]
        n = rng.choice(ns)
        inits.append({'s': s, 'legs': legs, 'n': n, 'dtype': 'complex128' if rng.random() < complex_p else 'float64', 'isdiag': False,
                      'dataseed': rng.randrange(1 << 30), 'density': rng.choice((0.4, 0.7, 1.0))})
    return inits


def build_init(cfg, sym, st):
    return build_tensor(cfg, sym, st['s'], st['legs'], st['n'], random.Random(st['dataseed']), density=st['density'], dtype=st['dtype'], isdiag=st['isdiag'], blocks=st.get('blocks'))


GINTS = [[1, 0], [-1, 0], [2, 0], [-2, 0], [3, 0], [0, 1], [0, -1], [0, 2], [1, 1], [0, 0]]


def choose_op(regs, obs, rng, weights, sym, allow_invalid=0.08):
    """ pick the next operation given the observed abstract states of the registers; returns an op dict (0-based register / axes) """
    kinds = list(weights)
    for _ in range(30):
        kind = rng.choices(kinds, [weights[k] for k in kinds])[0]
        a = rng.randrange(len(regs)) if rng.random() < 0.5 else rng.randrange(max(0, len(regs) - 3), len(regs))
        if kind == 'unfuse':
            c = [j for j in range(len(regs)) if any(len(g) > 1 for g in obs[j]['grp'])]
            if not c:
                continue
            a = rng.choice(c[-4:])
        elif kind == 'remove_leg':
            c = [j for j in range(len(regs)) if any(all(len(lg) <= 1 and all(D == 1 for _, D in lg) for lg in nat_legs(obs[j], k))
                                                    for k, g in enumerate(obs[j]['grp']))]
            if c:
                a = rng.choice(c)
        elif kind == 'trace':
            c = [j for j in range(len(regs)) if any(obs[j]['grp'][i] == obs[j]['grp'][k] and leg_sig(obs[j], i) == [-x for x in leg_sig(obs[j], k)]
                                                    for i in range(len(obs[j]['grp'])) for k in range(i))]
            if c:
                a = rng.choice(c)
        oa = obs[a]
        lr = len(oa['grp'])
        bad = rng.random() < allow_invalid
        if kind == 'lincomb':
            cands = [b for b in range(len(regs)) if obs[b]['s'] == oa['s'] and obs[b]['grp'] == oa['grp'] and obs[b]['dg'] == oa['dg']
                     and (obs[b]['n'] == oa['n'] or bad)]
            if not cands:
                continue
            return {'op': 'lincomb', 'a': a, 'b': rng.choice(cands), 'amp': [rng.choice(GINTS[:9]), rng.choice(GINTS)]}
        if kind == 'add3':
            cands = [b for b in range(len(regs)) if obs[b]['s'] == oa['s'] and obs[b]['grp'] == oa['grp'] and obs[b]['dg'] == oa['dg'] and obs[b]['n'] == oa['n']]
            if len(cands) < 2:
                continue
            return {'op': 'add3', 'a': a, 'b': rng.choice(cands), 'c': rng.choice(cands), 'amp': [rng.choice(GINTS[:9]), rng.choice(GINTS[:9]), rng.choice(GINTS)]}
        if kind == 'diag':
            c = [j for j in range(len(regs)) if obs[j]['dg'] or (len(obs[j]['s']) == 2 and len(obs[j]['grp']) == 2 and obs[j]['s'][0] == -obs[j]['s'][1]
                                                                and not any(obs[j]['n']))]
            if not c:
                continue
            return {'op': 'diag', 'a': rng.choice(c)}
        if kind in ('broadcast', 'apply_mask'):
            dg = [j for j in range(len(regs)) if obs[j]['dg']]
            if not dg:
                continue
            d = rng.choice(dg)
            b = rng.randrange(len(regs))
            fz = [j for j in range(len(regs)) if any(len(g) > 1 for g in obs[j]['grp']) and any(len(g) == 1 for g in obs[j]['grp'])]
            if fz and rng.random() < 0.6:
                b = rng.choice(fz)
            lrb = len(obs[b]['grp'])
            ax = [k for k in range(lrb) if len(obs[b]['grp'][k]) == 1 and legs_agree(obs[d], 0, obs[b], k)]
            if bad and lrb:
                ax = [rng.randrange(lrb)]
            if not ax:
                continue
            return {'op': kind, 'a': d, 'b': b, 'axis': rng.choice(ax)}
        if kind == 'scale':
            return {'op': 'scale', 'a': a, 'amp': [rng.choice(GINTS)]}
        if kind in ('conj', 'conj_blocks', 'flip_signature', 'copy', 'consume_transpose', 'norm2'):
            return {'op': kind, 'a': a}
        if kind == 'flip_charges':
            if lr == 0 or oa['dg']:
                continue
            axes = [k for k in range(lr) if len(oa['grp'][k]) == 1 and rng.random() < 0.5] or ([0] if len(oa['grp'][0]) == 1 else None)
            if axes is None:
                continue
            return {'op': 'flip_charges', 'a': a, 'axes': axes}
        if kind == 'transpose':
            if lr < 2:
                continue
            p = list(range(lr))
            rng.shuffle(p)
            return {'op': 'transpose', 'a': a, 'p': p}
        if kind in ('tensordot', 'vdot'):
            b = rng.randrange(len(regs))
            if any(len(g) > 1 for g in oa['grp']) and rng.random() < 0.8:      # fused operand: look for a partner sharing a fused tree
                cb = [j for j in range(len(regs)) if any(g in oa['grp'] and len(g) > 1 for g in obs[j]['grp'])]
                if cb:
                    b = rng.choice(cb)
            ob = obs[b]
            conj = [rng.randint(0, 1), rng.randint(0, 1)] if rng.random() < 0.4 else ([0, 0] if kind == 'tensordot' else [1, 0])
            sa = lambda k: (-1 if conj[0] else 1) * leg_sig(oa, k)
            sb = lambda k: (-1 if conj[1] else 1) * leg_sig(ob, k)
            lrb = len(ob['grp'])
            if kind == 'vdot':
                if lr != lrb:
                    continue
                okv = all(oa['grp'][k] == ob['grp'][k] and sa(k) == [-x for x in sb(k)] for k in range(lr))
                if not okv and not bad:
                    conj = [1 - conj[0], conj[1]]
                return {'op': 'vdot', 'a': a, 'b': b, 'conj': conj}
            pairs = [(i, j) for i in range(lr) for j in range(lrb) if oa['grp'][i] == ob['grp'][j] and sa(i) == [-x for x in sb(j)]
                     and legs_agree(oa, i, ob, j)]
            rng.shuffle(pairs)
            la, lb = [], []
            want = rng.choice((0, 1, 1, 1, 2, 2, 3))
            for i, j in pairs:
                if len(la) < want and i not in la and j not in lb and not (a == b and False):
                    la.append(i)
                    lb.append(j)
            if bad and lr and lrb:
                la, lb = [rng.randrange(lr)], [rng.randrange(lrb)]
            if size_estimate(oa, ob, la, lb) > 4000:
                continue
            return {'op': 'tensordot', 'a': a, 'b': b, 'la': la, 'lb': lb, 'conj': conj}
        if kind == 'trace':
            pairs = [(i, j) for i in range(lr) for j in range(lr) if i != j and oa['grp'][i] == oa['grp'][j]
                     and leg_sig(oa, i) == [-x for x in leg_sig(oa, j)] and legs_agree(oa, i, oa, j)]
            if bad and lr >= 2:
                pairs = [(0, 1)]
            if not pairs:
                continue
            rng.shuffle(pairs)
            l0, l1 = [], []
            for i, j in pairs:
                if i not in l0 + l1 and j not in l0 + l1 and len(l0) < rng.choice((1, 1, 2)):
                    l0.append(i)
                    l1.append(j)
            return {'op': 'trace', 'a': a, 'l0': l0, 'l1': l1}
        if kind == 'add_leg':
            if oa['dg'] or lr >= 5:
                continue
            return {'op': 'add_leg', 'a': a, 'pos': rng.randint(0, lr), 's': rng.choice((1, -1)), 't': list(rand_charge(SYMS[sym], rng)),
                    'tnone': rng.random() < 0.25}
        if kind == 'remove_leg':
            c = [k for k in range(lr) if all(len(lg) <= 1 and all(D == 1 for _, D in lg) for lg in nat_legs(oa, k))]
            if bad and lr:
                c = [rng.randrange(lr)]
            if not c or oa['dg']:
                continue
            return {'op': 'remove_leg', 'a': a, 'pos': rng.choice(c)}
        if kind == 'fuse':
            if lr < 2 or oa['dg'] or sum(len(g) for g in oa['grp']) > 14:
                continue
            p = list(range(lr))
            rng.shuffle(p)
            parts, i = [], 0
            while i < lr:
                k = rng.choice((1, 2, 2, 3))
                parts.append(p[i:i + k])
                i += k
            if all(len(x) == 1 for x in parts):
                parts = [p[:2]] + [[x] for x in p[2:]]
            mode = rng.choice(('hard', 'meta', 'none'))
            op = {'op': 'fuse', 'a': a, 'parts': parts, 'mode': mode}
            # twin: fuse a partner of the same leg structure (independently chosen blocks) the same way, so that binary operations
            # over fused legs with equal / overlapping / disjoint sector content become possible
            tw = [j for j in range(len(regs)) if j != a and obs[j]['grp'] == oa['grp'] and not obs[j]['dg'] and
                  (obs[j]['s'] == oa['s'] or obs[j]['s'] == [-x for x in oa['s']])]
            if tw and rng.random() < 0.7:
                op['then'] = {'op': 'fuse', 'a': rng.choice(tw), 'parts': parts, 'mode': mode if rng.random() < 0.9 else 'hard'}
            return op
        if kind == 'unfuse':
            f = [k for k in range(lr) if len(oa['grp'][k]) > 1]
            if not f or oa['dg']:
                continue
            axes = [k for k in f if rng.random() < 0.7] or [f[0]]
            if rng.random() < 0.2:
                axes = axes + [k for k in range(lr) if k not in f][:1]
            return {'op': 'unfuse', 'a': a, 'axes': axes}
        if kind == 'swap_charge':
            if lr < 1 or not SYMS[sym]:
                continue
            return {'op': 'swap_charge', 'a': a, 'axes': rng.sample(range(lr), rng.randint(1, min(lr, 3))), 'charge': list(rand_charge(SYMS[sym], rng, 2))}
        if kind == 'swap_gate':
            if lr < 2 or not SYMS[sym]:
                continue
            npairs = rng.choice((1, 1, 2))
            pairs = []
            for _ in range(npairs):
                g1 = rng.sample(range(lr), rng.choice((1, 1, 2)) if lr > 2 else 1)
                rest = [k for k in range(lr) if k not in g1] if rng.random() < 0.8 else list(range(lr))
                g2 = rng.sample(rest, min(len(rest), rng.choice((1, 1, 2))))
                pairs.append([g1, g2])
            return {'op': 'swap_gate', 'a': a, 'pairs': pairs}
    return {'op': 'copy', 'a': 0}


def nat_range(o, k):
    start = sum(sum(1 for x in g if x[0] == 0) for g in o['grp'][:k])
    return range(start, start + sum(1 for x in o['grp'][k] if x[0] == 0))


def leg_sig(o, k):
    return [o['s'][i] for i in nat_range(o, k)]


def nat_legs(o, k):
    return [o['legs'][i] for i in nat_range(o, k)]


def legs_agree(oa, i, ob, j):
    for la, lb in zip(nat_legs(oa, i), nat_legs(ob, j)):
        da, db = {tuple(t): D for t, D in la}, {tuple(t): D for t, D in lb}
        if any(da[t] != db[t] for t in da if t in db):
            return False
    return True


def size_estimate(oa, ob, la, lb):
    return len(oa['ent']) * len(ob['ent'])


def apply_op(op, regs):
    """ execute one op on real tensors; returns ('ok', tensor) | ('num', value) | ('YastnError', None) | ('raised X', None) """
    import yastn
    from yastn import YastnError
    a = regs[op['a']]
    k = op['op']
    if a is None or any(regs[op[x]] is None for x in ('b', 'c') if x in op) or any(regs[i] is None for i in op.get('ts', [])):
        return 'operand missing (an earlier step failed in this execution)', None
    try:
        if k == 'block':
            blocked = [n for n in range(len(op['pos'][0])) if n not in op['common']]
            return 'ok', yastn.block({tuple(p[n] for n in blocked): regs[i] for i, p in zip(op['ts'], op['pos'])}, common_legs=tuple(op['common']) if op['common'] else None)
        if k == 'route':
            # an ALTERNATIVE ROUTE to the value already held (and validated) in register a.  'blockdot': sum_k <x_k . conj(y_k)> over the first three legs, computed by
            # hard-fusing the three legs of every operand (nested as op['nest']), blocking the fused operands along the fused leg and contracting the two blocked legs once
            def nest(t):
                if op['nest'] == 'post':     # only (l0 l1) is fused before blocking; the blocked leg is fused with l2 afterwards: p(s(p(l0 l1) ...) l2)
                    return t.fuse_legs(axes=((0, 1), 2, 3), mode='hard')
                if op['nest'] == 'right':
                    return t.fuse_legs(axes=(0, (1, 2), 3), mode='hard').fuse_legs(axes=((0, 1), 2), mode='hard')
                if op['nest'] == 'left':
                    return t.fuse_legs(axes=((0, 1), 2, 3), mode='hard').fuse_legs(axes=((0, 1), 2), mode='hard')
                return t.fuse_legs(axes=((0, 1, 2), 3), mode='hard')
            if any(regs[i] is None for i in op['xs'] + op['ys']):
                return 'operand missing (an earlier step failed in this execution)', None
            if op['nest'] == 'post':
                X = yastn.block({(i,): nest(regs[j]) for i, j in enumerate(op['xs'])}, common_legs=(1, 2)).fuse_legs(axes=((0, 1), 2), mode='hard')
                Y = yastn.block({(i,): nest(regs[j]) for i, j in enumerate(op['ys'])}, common_legs=(1, 2))
                Y = yastn.tensordot(Y, regs[op['em']], axes=(2, 0)).fuse_legs(axes=((0, 1), 2), mode='hard')
                return 'ok', yastn.tensordot(X, Y, axes=(0, 0), conj=(0, 1))
            X = yastn.block({(i,): nest(regs[j]) for i, j in enumerate(op['xs'])}, common_legs=(1,))
            Y = yastn.block({(i,): nest(regs[j]) for i, j in enumerate(op['ys'])}, common_legs=(1,))
            return 'ok', yastn.tensordot(X, Y, axes=(0, 0), conj=(0, 1))
        if k == 'lincomb':
            x, y = complex(*op['amp'][0]), complex(*op['amp'][1])
            b = regs[op['b']]
            if x == 1 and y == 1:
                return 'ok', a + b
            if x == 1 and y == -1:
                return 'ok', a - b
            cx = lambda z: z.real if z.imag == 0 else z
            return 'ok', yastn.add(a, b, amplitudes=[cx(x), cx(y)]) if op['amp'][0][0] % 2 else cx(x) * a + cx(y) * b
        if k == 'scale':
            x = complex(*op['amp'][0])
            x = x.real if x.imag == 0 else x
            return 'ok', (x * a if op['amp'][0][0] >= 0 else a * x)
        if k == 'conj':
            return 'ok', a.conj()
        if k == 'conj_blocks':
            return 'ok', a.conj_blocks()
        if k == 'flip_signature':
            return 'ok', a.flip_signature()
        if k == 'copy':
            return 'ok', a.copy()
        if k == 'consume_transpose':
            return 'ok', a.consume_transpose()
        if k == 'norm2':
            return 'num', complex(yastn.vdot(a, a))
        if k == 'diag':
            return 'ok', a.diag()
        if k == 'broadcast':
            return 'ok', a.broadcast(regs[op['b']], axes=op['axis'])
        if k == 'apply_mask':
            return 'ok', a.apply_mask(regs[op['b']], axes=op['axis'])
        if k == 'flip_charges':
            return 'ok', a.flip_charges(axes=tuple(op['axes']))
        if k == 'transpose':
            return 'ok', a.transpose(axes=tuple(op['p']))
        if k == 'tensordot':
            ax = (tuple(op['la']), tuple(op['lb']))
            if len(op['la']) == 1 and op['la'][0] % 2:
                ax = (op['la'][0], op['lb'][0])
            return 'ok', yastn.tensordot(a, regs[op['b']], axes=ax, conj=tuple(op['conj']))
        if k == 'vdot':
            return 'num', complex(yastn.vdot(a, regs[op['b']], conj=tuple(op['conj'])))
        if k == 'trace':
            return 'ok', a.trace(axes=(tuple(op['l0']), tuple(op['l1'])))
        if k == 'add_leg':
            if op.get('tnone'):
                return 'ok', a.add_leg(axis=op['pos'] - (len(a.mfs) + 1 if op['s'] > 0 else 0), s=op['s'])     # default charge; negative axis form
            return 'ok', a.add_leg(axis=op['pos'], s=op['s'], t=tuple(op['t']))
        if k == 'add3':
            cx = lambda z: (lambda w: w.real if w.imag == 0 else w)(complex(*z))
            return 'ok', yastn.add(a, regs[op['b']], regs[op['c']], amplitudes=[cx(z) for z in op['amp']])
        if k == 'remove_leg':
            return 'ok', a.remove_leg(axis=op['pos'])
        if k == 'fuse':
            axes = tuple(p[0] if len(p) == 1 else tuple(p) for p in op['parts'])
            return 'ok', a.fuse_legs(axes=axes, mode=None if op['mode'] == 'none' else op['mode'])
        if k == 'unfuse':
            return 'ok', a.unfuse_legs(axes=tuple(op['axes']) if len(op['axes']) != 1 else op['axes'][0])
        if k == 'swap_charge':
            return 'ok', a.swap_gate(axes=tuple(op['axes']), charge=tuple(op['charge']))
        if k == 'swap_gate':
            axes = []
            for g1, g2 in op['pairs']:
                axes += [tuple(g1) if len(g1) > 1 else g1[0], tuple(g2) if len(g2) > 1 else g2[0]]
            return 'ok', a.swap_gate(axes=tuple(axes))
    except YastnError:
        return 'YastnError', None
    except Machinery:
        raise
    except Exception as e:  # noqa
        return 'raised %s' % type(e).__name__, None
    raise Machinery('unknown op %s' % k)


def event_of(op, out, res, sym, nreg_map):
    e = {k: v for k, v in op.items()}
    e['a'] = op['a'] + 1
    for kk in ('ts', 'xs', 'ys'):
        if kk in op:
            e[kk] = [i + 1 for i in op[kk]]
    if 'em' in op:
        e['em'] = op['em'] + 1
    if 'b' in op:
        e['b'] = op['b'] + 1
    if 'c' in op:
        e['c'] = op['c'] + 1
    if op['op'] == 'add_leg':
        e['tnone'] = bool(op.get('tnone'))
    e['out'] = out if out != 'num' else 'ok'
    if out == 'ok':
        try:
            e['obs'] = alpha(res, sym)
        except Machinery:
            raise
        except Exception as ex:     # the result cannot even be read through the public API (ill-formed tensor): a verdict of the trace spec, not a harness failure
            e['out'] = 'unreadable result (%s)' % type(ex).__name__
    if out == 'num':
        e['val'] = _gint(res)
    return e


def generate(sym, ferm, seed, nsteps, weights, knob=None, want_diag=False):
    """ generate a program by running it (default configuration); returns (Prog, trace dict) """
    rng = random.Random(seed)
    knob = knob or {'fusion': 'hard', 'force': None, 'policy': 'fuse_to_matrix'}
    cfg = make_config(sym, ferm, knob['fusion'], knob['force'], knob['policy'])
    inits = gen_inits(sym, rng, nreg=4 if want_diag else 3, want_diag=want_diag)
    regs = [build_init(cfg, sym, st) for st in inits]
    obs = [alpha(t, sym) for t in regs]
    ev = [{'op': 'init', 'obs': o} for o in obs]
    ops = []
    pending = []
    for _ in range(nsteps):
        op = pending.pop() if pending else choose_op(regs, obs, rng, weights, sym)
        if 'then' in op:
            pending.append(op.pop('then'))
        out, res = apply_op(op, regs)
        e = event_of(op, out, res, sym, None)
        if out == 'ok' and e['out'] == 'ok' and len(e['obs']['ent']) > 160:
            continue      # keep tensors small enough for TLC (the op is simply not part of the program)
        op['reg'] = bool(out == 'ok' and e['out'] == 'ok')     # whether this op defines a register (kept aligned across executions under other configurations)
        e['reg'] = op['reg']
        ops.append(op)
        ev.append(e)
        if out == 'ok' and e['out'] == 'ok':
            regs.append(res)
            obs.append(e['obs'])
    prog = Prog(sym, ferm, inits, ops, seed)
    return prog, trace_dict(prog, knob, ev)


def trace_dict(prog, knob, ev):
    return {'sym': prog.sym, 'ferm': ferm_vector(prog.sym, prog.ferm), 'seed': prog.seed,
            'knob': {'fusion': knob['fusion'], 'force': knob['force'] or 'none', 'policy': knob['policy']}, 'ev': ev}


def execute(prog, knob, placements=None, rng=None):
    """ re-execute a generated program under another configuration / with consume_transpose() or copy() inserted on operands
    (placements: probability); returns trace dict.  Register numbering is the same as long as the same ops succeed. """
    cfg = make_config(prog.sym, prog.ferm, knob['fusion'], knob['force'], knob['policy'])
    regs = [build_init(cfg, prog.sym, st) for st in prog.inits]
    ev = [{'op': 'init', 'obs': alpha(t, prog.sym)} for t in regs]
    for op in prog.ops:
        if placements and rng is not None:
            for key in ('a', 'b'):
                if key in op and rng.random() < placements and regs[op[key]] is not None:
                    i = op[key]
                    regs = list(regs)
                    regs[i] = regs[i].consume_transpose() if rng.random() < 0.6 else regs[i].copy()
        out, res = apply_op(op, regs)
        ev.append(event_of(op, out, res, prog.sym, None))
        if op.get('reg', out == 'ok'):
            regs.append(res if out == 'ok' else None)      # a register the generating execution defined: keep the numbering even if this execution failed here
        elif out == 'ok' and 'obs' in ev[-1]:
            ev[-1]['reg'] = False                          # computed here although the generating execution was rejected: validated, compared, but not a register of the program
    return trace_dict(prog, knob, ev)
