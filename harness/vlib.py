"""Common layer of the yastn verification harness: TLC runner, evidence / replay / known-finding plumbing.

Everything here is stdlib-only.  yastn is imported live from $VERIF_REPO (default /repo), so every
check sees the current working tree.
"""
from __future__ import annotations
import hashlib
import json
import os
import re
import shutil
import subprocess
import sys
import tempfile
import time

VERIF = os.path.dirname(os.path.dirname(os.path.abspath(__file__)))
REPO = os.environ.get('VERIF_REPO', '/repo')
SPEC = os.path.join(VERIF, 'spec')
JAR = '/opt/veriftools/tla/tla2tools.jar:/opt/veriftools/tla/CommunityModules-deps.jar'
if REPO not in sys.path:
    sys.path.insert(0, REPO)
os.environ.setdefault('PYTHONHASHSEED', '0')


class Machinery(Exception):
    """ Failure of the verification machinery itself (exit 2, never a VIOLATION). """


_scratch = []


def scratch(prefix='verif-'):
    d = tempfile.mkdtemp(prefix=prefix, dir=os.environ.get('VERIF_TMP', '/var/tmp'))
    _scratch.append(d)
    return d


def cleanup():
    for d in _scratch:
        shutil.rmtree(d, ignore_errors=True)
    _scratch.clear()


class TlcResult:
    def __init__(self, rc, out, wall):
        self.rc, self.out, self.wall = rc, out, wall
        m = re.findall(r'(\d+) states generated, (\d+) distinct states found', out)
        self.generated = int(m[-1][0]) if m else 0
        self.distinct = int(m[-1][1]) if m else 0
        m = re.search(r'depth of the complete state graph search is (\d+)', out)
        self.depth = int(m.group(1)) if m else 0
        self.violated = re.findall(r'Invariant (\S+) is violated', out) + re.findall(r'Action property (\S+) is violated', out) \
            + re.findall(r'Temporal properties were violated', out) + re.findall(r'The postcondition (\S+) is violated', out)
        self.finished = 'Model checking completed. No error has been found.' in out
        self.error = None
        if not self.finished and not self.violated:
            m = re.search(r'Error: (.*(?:\n.*){0,12})', out)
            self.error = m.group(1) if m else ('rc=%d (timeout?)' % rc)
        self.coverage = {}
        for m in re.finditer(r'<(\w+) line \d+, col \d+ to line \d+, col \d+ of module (\w+)>: (\d+):(\d+)', out):
            self.coverage[m.group(1)] = (int(m.group(3)), int(m.group(4)))

    def prints(self, tag):
        """ all PrintT'ed tuples starting with the string tag, parsed into python values """
        from tlaval import fast_prints
        return fast_prints(self.out, tag)


def tlc(module, cfg, *, workers=1, timeout=900, env=None, extra=(), mem='4g', deadlock=False, cwd=SPEC):
    """ run TLC on spec/<module>.tla with spec/<cfg>;  returns TlcResult.  Always under `timeout`. """
    md = scratch('tlcmeta-')
    cmd = ['timeout', str(timeout), 'java', '-XX:+UseParallelGC', '-Xss32m', '-Xmx' + mem, '-cp', JAR, 'tlc2.TLC',
           '-workers', str(workers), '-metadir', md, '-noGenerateSpecTE', '-config', cfg]
    if not deadlock:
        cmd.append('-deadlock')  # disables deadlock checking
    cmd += list(extra) + [module]
    e = dict(os.environ)
    e.update(env or {})
    t0 = time.time()
    p = subprocess.run(cmd, cwd=cwd, env=e, stdout=subprocess.PIPE, stderr=subprocess.STDOUT, text=True)
    shutil.rmtree(md, ignore_errors=True)
    return TlcResult(p.returncode, p.stdout, time.time() - t0)


def tlc_ok(module, cfg, **kw):
    """ model-check a design spec; anything but a clean finish is a machinery failure """
    r = tlc(module, cfg, **kw)
    if not r.finished:
        raise Machinery('TLC on %s/%s did not finish cleanly: violated=%s error=%s\n%s' % (module, cfg, r.violated, r.error, r.out[-3000:]))
    return r


def write_cfg(path, text):
    with open(path, 'w') as f:
        f.write(text)


def digest(obj):
    return hashlib.sha1(json.dumps(obj, sort_keys=True, default=str).encode()).hexdigest()[:12]


# ---------------------------------------------------------------- known findings
def known_findings(pid):
    p = os.path.join(VERIF, 'KNOWN_FINDINGS.json')
    if not os.path.exists(p):
        return []
    return [f for f in json.load(open(p)).get('findings', []) if f['property'] == pid and f.get('status', 'open') == 'open']


# ---------------------------------------------------------------- results
class Report:
    """ collects what a check run covered; writes evidence; prints VIOLATION / KNOWN-FINDING lines """

    def __init__(self, pid, tier, seed, level):
        self.pid, self.tier, self.seed, self.level = pid, tier, seed, level
        self.t0 = time.time()
        self.cov = {'evaluations': 0, 'distinct_nontrivial': 0, 'states': 0, 'transitions': 0,
                    'traces_validated_against_impl': 0, 'samples': [], 'rule': '', 'tlc_runs': [], 'parts': {}}
        self.assumptions = []
        self.violations = []   # (signature, description, replay payload)
        self.known_hit = []
        self.notes = []
        self.write_evidence = True

    def add_tlc(self, name, r: TlcResult):
        self.cov['states'] += r.distinct
        self.cov['transitions'] += r.generated
        self.cov['tlc_runs'].append({'name': name, 'distinct_states': r.distinct, 'states_generated': r.generated,
                                     'depth': r.depth, 'wall_s': round(r.wall, 1)})

    def sample(self, s, cap=6):
        if len(self.cov['samples']) < cap:
            self.cov['samples'].append(s)

    def violation(self, signature, what, payload):
        """ signature: stable string identifying the failing input/site (matched against KNOWN_FINDINGS) """
        for f in known_findings(self.pid):
            if re.fullmatch(f['signature'], signature):
                if f['id'] not in [k['id'] for k in self.known_hit]:
                    self.known_hit.append(f)
                return
        self.violations.append((signature, what, payload))

    def finish(self):
        wall = time.time() - self.t0
        os.makedirs(os.path.join(VERIF, 'evidence'), exist_ok=True)
        os.makedirs(os.path.join(VERIF, 'replays'), exist_ok=True)
        lines = []
        seen = set()
        for sig, what, payload in self.violations:
            if sig in seen:
                continue
            seen.add(sig)
            if len(seen) > 5:
                break
            path = os.path.join(VERIF, 'replays', '%s-%s.json' % (self.pid, digest(sig)))
            json.dump({'property': self.pid, 'signature': sig, 'what': what, 'tier': self.tier, 'seed': self.seed,
                       'case': payload}, open(path, 'w'), indent=1, default=str)
            lines.append('VIOLATION property=%s replay=%s' % (self.pid, path))
            print('  what: %s' % what[:600])
        for f in self.known_hit:
            print('KNOWN-FINDING: property=%s %s' % (self.pid, f['what']))
        for f in known_findings(self.pid):
            if f['id'] not in [k['id'] for k in self.known_hit] and f.get('expect_every_run', True) and self.write_evidence:     # (a replay runs one case only)
                print('STALE-FINDING: property=%s %s (listed as known but not reproduced in this run)' % (self.pid, f['id']))
        cov = dict(self.cov)
        cov['known_findings_reproduced'] = [f['id'] for f in self.known_hit]
        if self.notes:
            cov['notes'] = self.notes
        if not cov['samples']:
            cov['samples'] = ['(no sample recorded)']
        ev = {'property_id': self.pid, 'tier': self.tier, 'seed': self.seed, 'level': self.level, 'coverage': cov,
              'assumptions': self.assumptions, 'wall_s': round(wall, 2), 'violations': len(seen)}
        if self.write_evidence:
            json.dump(ev, open(os.path.join(VERIF, 'evidence', self.pid + '.json'), 'w'), indent=1, default=str)
        for ln in lines:
            print(ln)
        print('%s %s: evaluations=%d nontrivial=%d states=%d traces=%d violations=%d known=%d wall=%.1fs' % (
            self.pid, self.tier, cov['evaluations'], cov['distinct_nontrivial'], cov['states'],
            cov['traces_validated_against_impl'], len(seen), len(self.known_hit), wall))
        cleanup()
        return 1 if lines else 0


# ---------------------------------------------------------------- batched trace validation
def validate_traces(trace_module, cfg, traces, *, shards=None, timeout=900, env=None, mem='3g', extra=()):
    """ traces: list of JSON-able dicts (each gets 'tid' = its index+1 within its shard).
    Runs TLC (one process per shard, -workers 1) on spec/<trace_module>.tla; the trace spec PrintT's
    <<"ACCEPT", tid>> when a trace is fully consumed, <<"REJECT", tid, l, why>> for diagnostics.
    Returns (accepted: list[bool], diag: list[str|None], tlc results). """
    from concurrent.futures import ThreadPoolExecutor
    n = len(traces)
    if n == 0:
        return [], [], []
    shards = shards or min(16, max(1, n // 50))
    d = scratch('traces-')
    idx = [list(range(k, n, shards)) for k in range(shards)]
    files = []
    for k, ids in enumerate(idx):
        fn = os.path.join(d, 'shard%d.ndjson' % k)
        with open(fn, 'w') as f:
            for j, i in enumerate(ids):
                t = dict(traces[i])
                t['tid'] = j + 1
                f.write(json.dumps(t, separators=(',', ':')) + '\n')
        files.append(fn)

    def run(k):
        e = {'TRACE_FILE': files[k]}
        e.update(env or {})
        return tlc(trace_module, cfg, workers=1, timeout=timeout, env=e, mem=mem, extra=extra)
    with ThreadPoolExecutor(max_workers=16) as ex:
        res = list(ex.map(run, range(shards)))
    acc = [False] * n
    rejects = [[] for _ in range(n)]
    for k, r in enumerate(res):
        if r.error and not r.finished:
            raise Machinery('trace validation TLC failure in %s: %s\n%s' % (trace_module, r.error, r.out[-2500:]))
        for v in r.prints('ACCEPT'):
            acc[idx[k][v[1] - 1]] = True
        for v in r.prints('REJECT'):
            rejects[idx[k][v[1] - 1]].append((v[2], str(v[3]) if len(v) > 3 else ''))
    diag = []
    for i in range(n):
        rejects[i].sort()
        if acc[i] and not rejects[i]:
            diag.append(None)
        elif rejects[i]:
            acc[i] = False
            diag.append('event %s: %s' % rejects[i][0])
        else:
            diag.append('no step enabled (no diagnostic)')
    validate_traces.last_rejects = rejects
    return acc, diag, res


def negative_controls(trace_module, cfg, traces, corruptors, **kw):
    """ corruptors: list of (name, fn); fn(event) corrupts the event IN PLACE and returns True if it applied.
    For every corruptor up to three candidate events (in different traces) are corrupted in a deep copy of their trace; original and corrupted traces are validated
    together.  The first candidate whose ORIGINAL trace is accepted counts: its corrupted copy must be REJECTED by the trace spec at exactly that event, otherwise the
    machinery cannot see what it claims to decide (Machinery, exit 2).  (On a tree that breaks the property the originals may be rejected themselves: such candidates
    are skipped - the violation is reported by the main validation.)  Returns the names of the controls that were exercised. """
    import copy
    saved = getattr(validate_traces, 'last_rejects', None)
    batch, meta = [], []
    for name, fn in corruptors:
        found = 0
        for t in traces:
            for i, e in enumerate(t['ev']):
                e2 = copy.deepcopy(e)
                try:
                    ok = fn(e2)
                except (KeyError, IndexError, TypeError):
                    ok = False
                if ok:
                    c = {k: v for k, v in t.items() if k != 'ev'}
                    c['ev'] = list(t['ev'])
                    c['ev'][i] = e2
                    o = {k: v for k, v in t.items() if k != 'ev'}
                    o['ev'] = list(t['ev'])
                    batch += [o, c]
                    meta.append((name, i + 1))
                    found += 1
                    break
            if found >= 3:
                break
    done = []
    if batch:
        acc, diag, _ = validate_traces(trace_module, cfg, batch, shards=min(4, len(batch)), **kw)
        rj = validate_traces.last_rejects
        for k, (name, pos) in enumerate(meta):
            if name in done:
                continue
            if not acc[2 * k]:
                continue          # the original trace is itself rejected (broken tree): not a usable control
            if acc[2 * k + 1] or pos not in [l for l, _ in rj[2 * k + 1]]:
                raise Machinery('negative control "%s": corrupted event %d accepted by %s' % (name, pos, trace_module))
            done.append(name)
    validate_traces.last_rejects = saved
    return done
