"""Parser for TLA+ values as printed by TLC (PrintT output, -simulate trace files, -dump).

ints -> int, strings -> str, TRUE/FALSE -> bool, <<..>> -> tuple, {..} -> frozenset,
[a |-> v, ..] -> dict, (k :> v @@ ..) -> dict, a..b -> tuple(range), identifiers -> str.
"""
from __future__ import annotations
import re

_tok = re.compile(r'\s*(<<|>>|\|->|:>|@@|\.\.|[\[\]{}(),]|-?\d+|"(?:[^"\\]|\\.)*"|[A-Za-z_][A-Za-z_0-9!]*)')


class _P:
    def __init__(self, s, pos=0):
        self.s, self.pos = s, pos

    def peek(self):
        m = _tok.match(self.s, self.pos)
        return m.group(1) if m else None

    def next(self):
        m = _tok.match(self.s, self.pos)
        if not m:
            raise ValueError('bad TLA value at %r' % self.s[self.pos:self.pos + 40])
        self.pos = m.end()
        return m.group(1)

    def expect(self, t):
        x = self.next()
        if x != t:
            raise ValueError('expected %s got %s at %d' % (t, x, self.pos))

    def value(self):
        t = self.next()
        if t == '<<':
            out = []
            if self.peek() == '>>':
                self.next()
                return ()
            while True:
                out.append(self.value())
                t = self.next()
                if t == '>>':
                    return tuple(out)
                if t != ',':
                    raise ValueError('tuple sep %s' % t)
        if t == '{':
            out = []
            if self.peek() == '}':
                self.next()
                return frozenset()
            while True:
                out.append(self.value())
                t = self.next()
                if t == '}':
                    try:
                        return frozenset(out)
                    except TypeError:
                        return tuple(out)
                if t != ',':
                    raise ValueError('set sep %s' % t)
        if t == '[':
            out = {}
            if self.peek() == ']':
                self.next()
                return out
            while True:
                k = self.next()
                self.expect('|->')
                out[k] = self.value()
                t = self.next()
                if t == ']':
                    return out
                if t != ',':
                    raise ValueError('record sep %s' % t)
        if t == '(':
            out = {}
            while True:
                k = self.value()
                self.expect(':>')
                out[k] = self.value()
                t = self.next()
                if t == ')':
                    return out
                if t != '@@':
                    raise ValueError('fun sep %s' % t)
        if t[0] == '"':
            return t[1:-1].replace('\\"', '"').replace('\\\\', '\\')
        if t == 'TRUE':
            return True
        if t == 'FALSE':
            return False
        if re.fullmatch(r'-?\d+', t):
            v = int(t)
            if self.peek() == '..':
                self.next()
                hi = self.value()
                return tuple(range(v, hi + 1))
            return v
        return t  # model value / identifier


def parse(s):
    return _P(s).value()


def parse_all(text):
    """ every value that starts at the beginning of a line with << (PrintT of a tuple), possibly multi-line """
    out = []
    for m in re.finditer(r'(?m)^<<', text):
        p = _P(text, m.start())
        try:
            out.append(p.value())
        except ValueError:
            pass
    return out


def parse_sim_trace(text):
    """ parse a file written by `tlc -simulate file=...`: returns list of (action_name, state dict) """
    steps = []
    for m in re.finditer(r'\\\* <(\w+)[^>]*>\s*\nSTATE_\d+ ==\s*\n((?:.*\n)*?)(?=\n\\\*|\n=+|\Z)', text):
        act, body = m.group(1), m.group(2)
        st = {}
        for vm in re.finditer(r'(?ms)^/\\ (\w+) = (.*?)(?=^/\\ |\Z)', body):
            st[vm.group(1)] = parse(vm.group(2))
        steps.append((act, st))
    return steps


def to_tla(v):
    """ python value -> TLA+ expression text (for cfg constants / generated modules) """
    if isinstance(v, bool):
        return 'TRUE' if v else 'FALSE'
    if isinstance(v, int):
        return str(v)
    if isinstance(v, str):
        return '"%s"' % v
    if isinstance(v, (tuple, list)):
        return '<<' + ', '.join(to_tla(x) for x in v) + '>>'
    if isinstance(v, (set, frozenset)):
        return '{' + ', '.join(to_tla(x) for x in sorted(v, key=repr)) + '}'
    if isinstance(v, dict):
        return '[' + ', '.join('%s |-> %s' % (k, to_tla(x)) for k, x in v.items()) + ']'
    raise TypeError(type(v))


_jdec = None


def fast_prints(text, tag):
    """ PrintT'ed tuples <<"tag", ...>> made only of ints, strings, booleans, sequences and records:
    rewritten textually into JSON and decoded at C speed (multi-line values supported). Returns lists/dicts. """
    import json
    global _jdec
    _jdec = _jdec or json.JSONDecoder()
    if not re.search(r'<<\s*"%s"' % re.escape(tag), text):
        return []
    def conv(m):
        if m.group(1) is not None:
            return m.group(1)          # string literal: untouched
        u = m.group(2).replace('[', '{').replace(']', '}').replace('<<', '[').replace('>>', ']')
        u = re.sub(r'([A-Za-z_][A-Za-z_0-9]*) \|->', r'"\1":', u)
        return u.replace('TRUE', 'true').replace('FALSE', 'false')
    t = re.sub(r'("(?:[^"\\\n]|\\.)*")|([^"]+)', conv, text)
    out = []
    end = 0
    for m in re.finditer(r'(?m)^\[\s*"%s"' % re.escape(tag), t):
        if m.start() < end:
            continue
        try:
            v, end = _jdec.raw_decode(t, m.start())
            out.append(v)
        except ValueError:
            pass
    return out
