"""C08 — canonical forms preserve the state; truncation is honest.

MpsCanon.tla is the gauge state machine of MpsMpoOBC (central block position, per-site isometry flags, exact / ray / unit-norm
guarantees); TLC checks its properties over all sequences of public moves (MpsCanonMC).  Binding (I->S): random sequences of
orthogonalize_site_ / absorb_central_ / diagonalize_central_ / canonize_ / truncate_ / item assignment are executed on real MPS and MPO;
after every move the harness measures the real object (isometries, central block, dense state vs initial one, library's is_canonical,
norm(), Schmidt values and entropies vs numpy SVD of the dense state, discarded weight vs true error) and TraceMpsCanon.tla lets the
model evolve with the same moves and requires every guarantee of the model state to be confirmed.
"""
from __future__ import annotations
import random
import numpy as np
from concurrent.futures import ProcessPoolExecutor
from vlib import Report, validate_traces, tlc_ok, Machinery
import mpsx

TOL = 1e-10
FAMS = [('Spin12', 'dense'), ('Spin12', 'U1'), ('Spin12', 'Z2'), ('Spin1', 'Z3'), ('SpinlessFermions', 'U1'), ('Spin1', 'U1')]


def iso_flags(psi):
    import yastn
    out = []
    for n in range(psi.N):
        A = psi[n]
        res = []
        for cl in (((0, 1) if psi.nr_phys == 1 else (0, 1, 3)), ((1, 2) if psi.nr_phys == 1 else (1, 2, 3))):
            x = yastn.tensordot(A.conj(), A, axes=(cl, cl)) if cl[0] == 0 else yastn.tensordot(A, A.conj(), axes=(cl, cl))
            x = x.drop_leg_history()
            try:
                x0 = yastn.eye(config=x.config, legs=x.get_legs((0, 1))).diag()
                res.append(bool((x - x0).norm() <= TOL * max(1.0, x0.norm() ** 0.5)))
            except Exception:  # noqa
                res.append(False)
        out.append(res)
    return out


def dense_vec(psi, legs0=None):
    phi = psi.shallow_copy()
    phi.absorb_central_()
    t = phi.to_tensor()
    if legs0 is None:
        return t, None
    import yastn
    tl = t.get_legs()
    legs = {i: yastn.legs_union(tl[i], legs0[i]) if len(tl[i].t) else legs0[i] for i in range(t.ndim)} if t.ndim else None
    return t, t.to_numpy(legs=legs).ravel()


def schmidt_ref(vec, dims, N, nrp):
    """ normalised Schmidt values across the N+1 cuts of the dense state (vec indexed by physical legs in chain order) """
    out = []
    per = nrp
    v = vec.reshape(dims)
    nrm = np.linalg.norm(vec)
    for cut in range(N + 1):
        k = cut * per
        m = v.reshape(int(np.prod(dims[:k])) if k else 1, -1)
        s = np.linalg.svd(m, compute_uv=False)
        out.append(np.sort(s[s > 1e-13 * max(1.0, s.max())] / (nrm if nrm else 1.0))[::-1])
    return out


def observe(psi, ctx, before=None):
    import yastn
    o = {'pC': -9 if psi.pC is None else int(psi.pC[0]), 'iso': iso_flags(psi)}
    t, v = dense_vec(psi, ctx['legs0'])
    v0 = ctx['v0']
    n0, n1 = np.linalg.norm(v0), np.linalg.norm(v)
    ov = np.vdot(v0, v)
    o['parallel'] = bool(n1 > 0 and abs(ov) >= (1 - 1e-9) * n0 * n1 and ov.real > 0 and abs(ov.imag) <= 1e-9 * n0 * n1)
    o['same'] = bool(np.linalg.norm(v - v0) <= 1e-9 * n0)
    o['unitnorm'] = bool(abs(n1 - 1) <= 1e-9)
    o['api_canonical_first'] = bool(psi.is_canonical(to='first'))
    o['api_canonical_last'] = bool(psi.is_canonical(to='last'))
    o['norm_ok'] = bool(abs(float(psi.norm()) - n1) <= 1e-9 * max(1.0, n1))
    ok_s, ok_e = True, True
    if n1 > 0:
        dims = [sum(lg.D) for lg in t.get_legs()] if ctx['legs0'] is None else [sum(yastn.legs_union(a, b).D) if len(a.t) else sum(b.D) for a, b in zip(t.get_legs(), ctx['legs0'])]
        ref = schmidt_ref(v, dims, psi.N, psi.nr_phys)
        sv = psi.get_Schmidt_values()
        ent = psi.get_entropy()
        if len(sv) != psi.N + 1:
            ok_s = False
        for k, (s, r) in enumerate(zip(sv, ref)):
            got = np.sort(np.concatenate([np.asarray(s[tb]).real for tb in s.get_blocks_charge()]) if len(s.struct.t) else np.array([]))[::-1]
            got = got[got > 1e-12]
            if len(got) != len(r) or (len(r) and np.max(np.abs(got - r)) > 1e-8):
                ok_s = False
            p = r ** 2
            e_ref = float(-(p * np.log2(p)).sum()) if len(p) else 0.0
            if abs(float(ent[k]) - e_ref) > 1e-7:
                ok_e = False
    o['schmidt_ok'], o['entropy_ok'] = ok_s, ok_e
    o['unchanged'] = True
    o['discarded_ok'] = True
    o['kept_largest'] = True
    return o, v


def make_state(fam, N, rng, kind):
    import yastn
    import yastn.tn.mps as mps
    ops = mpsx.ops_of(fam)
    ops.config.backend.random_seed(rng.randrange(10000))
    I = mps.product_mpo(ops.I(), N)
    if kind == 'mpo':
        return mps.random_mpo(I, D_total=rng.choice((2, 3, 4)), dtype='complex128' if rng.random() < 0.3 else 'float64')
    for _ in range(8):
        try:
            psi = mps.random_mps(I, n=mpsx.random_sector(ops, N, rng), D_total=rng.choice((1, 2, 4, 6)), dtype='complex128' if rng.random() < 0.3 else 'float64')
            break
        except yastn.YastnError:
            psi = None
    if psi is None:
        raise Machinery('could not draw a random MPS')
    if kind == 'degenerate':      # psi + (a copy with other data in the same sector): rank-deficient / degenerate spectra are likely at small D
        try:
            psi = psi + psi       # doubles bond dimension with exactly dependent blocks: rank-deficient Schmidt spectra
        except yastn.YastnError:
            pass
    return psi * rng.choice((1.0, 0.5, 3.0))


def sequence(args):
    import yastn
    from yastn import YastnError
    fi, seed, nmoves = args
    fam = FAMS[fi]
    rng = random.Random(seed)
    N = rng.choice((1, 2, 3, 3, 4))
    kind = rng.choice(('mps', 'mps', 'degenerate', 'mpo'))
    if kind == 'mpo' and N > 3:
        N = 3
    psi = make_state(fam, N, rng, kind)
    t0, _ = dense_vec(psi)
    legs0 = t0.get_legs() if t0.ndim else None
    ctx = {'legs0': legs0}
    _, v0 = dense_vec(psi, legs0)
    ctx['v0'] = v0
    ev = []
    # initial observation
    o, vprev = observe(psi, ctx)
    ev.append({'act': 'observe', 'out': 'ok', 'obs': o})
    for _ in range(nmoves):
        r = rng.random()
        e = {'out': 'ok'}
        before_repr = (psi.pC, [psi.A[k] for k in psi.A])
        try:
            if r < 0.3:
                e.update(act='orth', n=rng.randrange(N), to=rng.choice(('first', 'last')), nz=rng.random() < 0.5)
                psi.orthogonalize_site_(e['n'], to=e['to'], normalize=e['nz'])
            elif r < 0.5:
                e.update(act='absorb', to=rng.choice(('first', 'last')))
                psi.absorb_central_(to=e['to'])
            elif r < 0.62:
                e.update(act='diag', nz=rng.random() < 0.5, binding=False, shrinks=False)
                dims0 = psi.A[psi.pC].get_shape() if psi.pC is not None else None
                d = psi.diagonalize_central_(opts_svd={'tol': 1e-14}, normalize=e['nz'])
                e['disc'] = float(d)
                # exactly-zero Schmidt values of a rank-deficient block are dropped (no weight discarded): U, V non-square, the bond shrinks
                e['shrinks'] = bool(dims0 is not None and psi.pC is not None and psi.A[psi.pC].get_shape()[0] < max(dims0))
            elif r < 0.8:
                e.update(act='canonize', to=rng.choice(('first', 'last')), nz=rng.random() < 0.5)
                psi.canonize_(to=e['to'], normalize=e['nz'])
            elif r < 0.93:
                e.update(act='truncate', to=rng.choice(('first', 'last')), nz=rng.random() < 0.5, binding=False)
                d = psi.truncate_(to=e['to'], opts_svd={'tol': 1e-14}, normalize=e['nz'])
                e['disc'] = float(d)
            else:
                e.update(act='setsite', n=rng.randrange(N))
                psi[e['n']] = psi[e['n']] * 1.5
        except YastnError:
            e['out'] = 'YastnError'
        o, v = observe(psi, ctx)
        if e['out'] == 'YastnError':
            o['unchanged'] = bool(psi.pC == before_repr[0] and all(psi.A[k] is x for k, x in zip(psi.A, before_repr[1])))
        if 'disc' in e:
            o['discarded_ok'] = bool(abs(e['disc']) <= 1e-7)        # nothing binds: the reported discarded weight is at round-off
        e['obs'] = o
        ev.append(e)
        if e['act'] == 'setsite':
            # the model forgets everything it knew; re-anchor the reference state
            ctx['v0'] = v
    # honest truncation: prepare the opposite canonical form, truncate with binding limits, compare the reported number with the true error
    to = rng.choice(('first', 'last'))
    opp = 'last' if to == 'first' else 'first'
    try:
        e = {'act': 'canonize', 'to': opp, 'nz': False, 'out': 'ok'}
        psi.canonize_(to=opp, normalize=False)
        o, vfull = observe(psi, ctx)
        e['obs'] = o
        ev.append(e)
        D = rng.choice((1, 2, 3))
        nz = rng.random() < 0.5
        sv_before = [np.sort(np.concatenate([np.asarray(s[tb]).real for tb in s.get_blocks_charge()]))[::-1] if len(s.struct.t) else np.array([]) for s in psi.get_Schmidt_values()]
        binding = any(len(s[s > 1e-12]) > D for s in sv_before)
        opts = {'D_total': D} if rng.random() < 0.6 else {'D_block': D, 'D_total': D, 'policy': 'lowrank'}
        d = float(psi.truncate_(to=to, opts_svd=opts, normalize=nz))
        e = {'act': 'truncate', 'to': to, 'nz': nz, 'binding': bool(binding), 'out': 'ok', 'disc': d, 'D': D, 'opts': sorted(opts)}
        o, vt = observe(psi, ctx)
        nf = np.linalg.norm(vfull)
        if nz:   # the truncated state is normalised: compare directions; true error of the projection = sqrt(1 - |<psi|psi_t>|^2 / |psi|^2)
            true = float(np.sqrt(max(0.0, 1 - abs(np.vdot(vfull, vt)) ** 2 / (nf ** 2 * max(np.linalg.norm(vt) ** 2, 1e-300)))))
        else:    # the factor keeps the norm of the kept part: the distance itself
            true = float(np.linalg.norm(vfull - vt) / nf) if nf else 0.0
        o['discarded_ok'] = bool(abs(d - true) <= 1e-7)
        bd = psi.get_bond_dimensions()
        o['kept_largest'] = bool(max(bd) <= max(D, 1))
        if N == 2 and psi.nr_phys == 1 and binding:
            # single cut: the kept Schmidt values are exactly the D largest of the original state
            kept = np.sort(np.linalg.svd(vt.reshape(sv_dims(ctx, psi)[0], -1), compute_uv=False))[::-1]
            kept = kept[kept > 1e-12 * max(1, kept.max() if len(kept) else 1)]
            full = np.sort(np.linalg.svd(vfull.reshape(sv_dims(ctx, psi)[0], -1), compute_uv=False))[::-1]
            ref = full[:D] / (np.linalg.norm(full[:D]) if nz else 1.0)
            o['kept_largest'] = bool(o['kept_largest'] and len(kept) <= D and np.allclose(kept, ref[:len(kept)], atol=1e-8))
        e['obs'] = o
        ev.append(e)
    except YastnError as ex:
        pass
    return {'N': N, 'family': list(fam), 'kind': kind, 'seed': seed, 'ev': ev}


def sv_dims(ctx, psi):
    return [sum(lg.D) for lg in ctx['legs0']]


def main(tier, seed, replay=None):
    rep = Report('C08', tier, seed, 'model_checking')
    if replay:
        rep.write_evidence = False
    rep.cov['rule'] = ('random sequences of gauge moves (orthogonalize_site_, absorb_central_, diagonalize_central_, canonize_, truncate_ with non-binding limits, item assignment; both '
                       'directions, normalize True/False) on MPS and MPO of length 1..4 in 6 families (random, rank-deficient psi+psi, non-unit factors, complex), followed by an honest-truncation '
                       'block (opposite canonical form, binding D_total); non-trivial = move after which the model state carries at least one guarantee that was confirmed by measurement')
    r = tlc_ok('MpsCanonMC', 'MpsCanonMC.cfg', workers=8, timeout=900)
    rep.add_tlc('MpsCanonMC (all sequences of public gauge moves, N=3, depth 5)', r)
    n = 180 if tier == 'quick' else 3000
    jobs = [(i % len(FAMS), seed * 1000403 + i, 8 if tier == 'quick' else 12) for i in range(n)]
    with ProcessPoolExecutor(max_workers=14) as ex:
        traces = list(ex.map(sequence, jobs, chunksize=2))
    nev = 0
    for N in sorted({t['N'] for t in traces}):
        grp = [t for t in traces if t['N'] == N]
        acc, diag, res = validate_traces('TraceMpsCanon', 'TraceMpsCanon_N%d.cfg' % N, grp, shards=min(8, len(grp)), timeout=3000)
        rep.cov['states'] += sum(x.distinct for x in res)
        rep.cov['transitions'] += sum(x.generated for x in res)
        for t, a, d in zip(grp, acc, diag):
            nev += len(t['ev'])
            if not a:
                import re
                m = re.match(r'event (\d+): (.*)', d or '', re.S)
                l = int(m.group(1)) if m else 0
                e = t['ev'][l - 1] if l else {}
                act = {k: v for k, v in e.items() if k != 'obs'}
                rep.violation('canon:%s:%s:N=%d:seed=%s:event=%d:%s' % (t['family'][0], t['family'][1], N, t['seed'], l, e.get('act')),
                              '%s/%s %s N=%d seed=%s move %d %s: %s' % (t['family'][0], t['family'][1], t['kind'], N, t['seed'], l, act, (m.group(2) if m else d)[:700]),
                              {'op': 'canon', 'family': t['family'], 'N': N, 'seed': t['seed'], 'event': l, 'move': act, 'obs': e.get('obs')})
    if not replay:
        from vlib import negative_controls
        def c_iso(e):
            if e['act'] == 'canonize' and e['out'] == 'ok' and e['to'] == 'first' and all(x[1] for x in e['obs']['iso']):
                e['obs']['iso'][-1][1] = False            # canonize_(to='first') guarantees a right isometry on every site
                return True
        for t in traces:          # the exact-state guarantee certainly holds for the first move of a sequence
            for e in t['ev'][:2]:
                e['first'] = True
        def c_same(e):
            if e.get('first') and e['act'] in ('orth', 'canonize') and e['out'] == 'ok' and not e.get('nz') and e['obs']['same']:
                e['obs']['same'] = False
                e['obs']['parallel'] = False
                return True
        def c_disc(e):
            if e['act'] == 'truncate' and e.get('binding') and e['obs']['discarded_ok']:
                e['obs']['discarded_ok'] = False
                return True
        Nc = max(t['N'] for t in traces)
        rep.cov['parts']['negative_controls_rejected'] = negative_controls('TraceMpsCanon', 'TraceMpsCanon_N%d.cfg' % Nc, [t for t in traces if t['N'] == Nc],
                                                                           [('isometry flag after canonize_', c_iso), ('state changed by a gauge move', c_same), ('dishonest discarded weight', c_disc)], timeout=900)
    rep.cov['traces_validated_against_impl'] = len(traces)
    rep.cov['evaluations'] = nev
    evs = [e for t in traces for e in t['ev']]
    rep.cov['distinct_nontrivial'] = sum(1 for e in evs if e['out'] == 'ok' and (any(any(x) for x in e['obs']['iso']) or e['obs']['same']))
    by = {}
    for e in evs:
        by[e['act']] = by.get(e['act'], 0) + 1
    rep.cov['parts'].update({'moves_by_kind': by, 'rejected_moves_checked': sum(1 for e in evs if e['out'] == 'YastnError'),
                             'binding_truncations': sum(1 for e in evs if e.get('binding')), 'tolerances': {'isometry': TOL, 'state': 1e-9, 'schmidt': 1e-8, 'discarded': 1e-7}})
    rep.sample({'N': traces[0]['N'], 'family': traces[0]['family'], 'moves': [{k: v for k, v in e.items() if k != 'obs'} for e in traces[0]['ev']]})
    rep.assumptions += ['isometry / same state / unit norm / Schmidt values / true truncation error are floating-point facts measured by the harness (numpy SVD of the dense state as reference) '
                        'and enter as verdict bits; the model decides WHICH guarantees must hold after each move', 'per-cut "keeps the largest Schmidt values" is checked exactly only for a single cut (N=2)']
    return rep.finish()
