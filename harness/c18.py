"""C18 — Krylov solvers agree with dense matrix functions.

 (1) KrylovMC: the adaptive controller of expmv (accept / reject, basis kept / reset, clamps on tau and ncv, forced shrink) against EVERY
     environment (monotone acceptance table, breakdown dimension, arbitrary proposals within what the formulas guarantee): no overshoot,
     ncv range, PROGRESS after every rejection, termination.  KrylovMC_old (rule m == ncv_max, the code before 9c578d6) must FAIL progress:
     the model can see the defect it was used to find.
 (2) I->S: real expmv / eigs / lin_solver calls on random symmetric maps (1..3-leg vectors in U1 / Z2 / Z2xU1 / dense; A.x, A.x + x.B; Hermitian
     and not; real and complex) under an outside recorder of the controller variables; TraceKrylov.tla requires every iteration to be a
     controller transition and the bookkeeping to follow; results are compared with scipy.linalg.expm / numpy eig / residuals on the dense
     matrix of the map restricted to the charge sector (built column by column through the map itself).
"""
from __future__ import annotations
import math
import random
import sys
import numpy as np
from concurrent.futures import ProcessPoolExecutor
from vlib import Report, validate_traces, tlc, Machinery

SYMS = ('U1', 'Z2', 'Z2xU1', 'dense')
MAX_ITERS = 4000


class _Stuck(BaseException):
    pass


class _Slow(BaseException):
    pass


class KRec:
    """ class-level wrapper of Tensor.expand_krylov_space; reads the controller variables of the calling expmv frame """

    def __init__(self):
        self.events = []
        self.last = None

    def install(self):
        import yastn
        self.cls = yastn.Tensor
        self.orig = yastn.Tensor.expand_krylov_space
        rec = self

        def wrap(self_t, f, tol, ncv, hermitian, V, H=None, **kw):
            fr = sys._getframe(1)
            lenIn = len(V)
            snap = None
            if fr.f_code.co_name == 'expmv':
                loc = fr.f_locals
                try:
                    snap = {k: loc[k] for k in ('t_now', 't_out', 'tau', 'ncv', 'ncv_max', 'reject')}
                except KeyError as ex:
                    raise Machinery('controller variable not found in the expmv frame: %s' % ex)
                key = (float(snap['t_now']), float(snap['tau']), int(snap['ncv']), lenIn, bool(snap['reject']))
                if key == rec.last and key[4]:
                    rec.events.append({'stuck': True, 'key': key})
                    raise _Stuck()
                rec.last = key
                if len(rec.events) > MAX_ITERS:
                    raise _Slow()
            out = rec.orig(self_t, f, tol, ncv, hermitian, V, H, **kw)
            if snap is not None:
                rec.events.append(dict(snap, lenIn=lenIn, lenOut=len(out[0]), happy=bool(out[2])))
            else:
                rec.events.append({'caller': fr.f_code.co_name, 'lenIn': lenIn, 'lenOut': len(out[0]), 'happy': bool(out[2])})
            return out
        yastn.Tensor.expand_krylov_space = wrap

    def uninstall(self):
        self.cls.expand_krylov_space = self.orig


def mlog(x):
    """ 1000 * log2(x) as an integer (x in (0, 1]); -10^8 for 0 """
    return int(round(1000 * math.log2(x))) if x > 0 else -10 ** 8


class Problem:
    """ a linear map on symmetric tensors with its dense matrix on the charge sector """

    def __init__(self, seed, maxdim):
        import yastn
        rng = random.Random(seed)
        self.rng = rng
        sym = rng.choice(SYMS)
        self.sym = sym
        cfg = yastn.make_config(sym='none' if sym == 'dense' else sym)
        cfg.backend.random_seed(seed % 99991)
        self.cfg = cfg
        self.hermitian = rng.random() < 0.6
        self.cplx = rng.random() < 0.5
        dt = 'complex128' if self.cplx else 'float64'
        nlegs = rng.choice((1, 2, 2, 3))
        self.big = rng.random() < 0.4           # sectors well above ncv_max = 30, so that large |t| forces sub-stepping
        if self.big:
            nlegs = rng.choice((2, 2, 3))
        for attempt in range(400):
            if attempt == 300:
                self.big = False
            legs = [self.leg(rng) for _ in range(nlegs)]
            n = self.charge(rng)
            z = yastn.ones(config=cfg, legs=legs, n=n)
            if (35 if self.big else 2) <= z.size <= maxdim:
                break
        else:
            raise Machinery('no sector of suitable size')
        self.legs, self.n, self.z = legs, n, z
        self.dim = z.size
        self.two = nlegs >= 2 and rng.random() < 0.5
        scale = rng.choice((0.01, 0.3, 1.0, 1.0, 3.0, 10.0))
        A = yastn.rand(config=cfg, legs=[legs[0], legs[0].conj()], n=cfg.sym.zero(), dtype=dt)
        if self.hermitian:
            A = (A + A.conj().transpose(axes=(1, 0))) / 2
        self.A = A * scale
        self.B = None
        if self.two:
            B = yastn.rand(config=cfg, legs=[legs[-1].conj(), legs[-1]], n=cfg.sym.zero(), dtype=dt)
            if self.hermitian:
                B = (B + B.conj().transpose(axes=(1, 0))) / 2
            self.B = B * scale
        self.shift = rng.choice((0, 0, 1, -2)) * scale
        # a third kind of term that COUPLES blocks: a two-leg operator W on legs 0, 1 (zero charge).  A.x and x.B map every block of x to itself, so that a start vector with
        # few stored blocks never leaves them; with W the Krylov space of such a vector is larger than the vector's storage.  (drawn from a separate generator: the
        # problems of the other seeds, canonical reproducers included, stay what they were)
        self.W = None
        if nlegs >= 2 and random.Random(seed * 7 + 1).random() < 0.35:
            W = yastn.rand(config=cfg, legs=[legs[0], legs[1], legs[0].conj(), legs[1].conj()], n=cfg.sym.zero(), dtype=dt)
            if self.hermitian:
                W = (W + W.conj().transpose(axes=(2, 3, 0, 1))) / 2
            self.W = W * (scale / max(1.0, float(W.norm()) / 3))
        self.nl = nlegs
        self.legd = dict(enumerate(legs))
        zd = z.to_numpy(legs=self.legd)
        self.idx = np.flatnonzero(zd.ravel() != 0)
        if len(self.idx) != self.dim:
            raise Machinery('sector positions do not match the number of stored elements')
        E = np.zeros((self.dim, self.dim))
        cols = np.zeros((self.dim, self.dim), dtype=complex)
        for j in range(self.dim):
            e = self.from_data(np.eye(1, self.dim, j, dtype=dt)[0])
            E[:, j] = np.real(self.dense(e))
            cols[:, j] = self.dense(self.f(e))
        self.E = E
        self.M = cols @ E.T
        if not self.cplx:
            self.M = np.real(self.M)
        self.normM = float(np.linalg.norm(self.M, 2))
        self.what = '%s legs=%d dim=%d %s %s two=%s%s scale=%s seed=%d' % (sym, nlegs, self.dim, 'herm' if self.hermitian else 'nonherm', 'cplx' if self.cplx else 'real', self.two,
                                                                        ' pair' if self.W is not None else '', scale, seed)

    def leg(self, rng):
        import yastn
        if self.sym == 'dense':
            return yastn.Leg(self.cfg, s=rng.choice((-1, 1)), D=(rng.randint(4, 9) if self.big else rng.randint(2, 6),))
        if self.sym == 'U1':
            ts = rng.sample([(-2,), (-1,), (0,), (1,), (2,)], rng.randint(1, 4))
        elif self.sym == 'Z2':
            ts = rng.sample([(0,), (1,)], rng.randint(1, 2))
        else:
            ts = rng.sample([(a, b) for a in (0, 1) for b in (-1, 0, 1)], rng.randint(1, 4))
        ts = sorted(ts)
        return yastn.Leg(self.cfg, s=rng.choice((-1, 1)), t=ts, D=[rng.randint(2, 7) if self.big else rng.randint(1, 4) for _ in ts])

    def charge(self, rng):
        if self.sym == 'dense':
            return ()
        if self.sym == 'U1':
            return (rng.choice((-1, 0, 0, 1, 2)),)
        if self.sym == 'Z2':
            return (rng.choice((0, 1)),)
        return (rng.choice((0, 1)), rng.choice((-1, 0, 1)))

    def f(self, x):
        import yastn
        y = yastn.tensordot(self.A, x, axes=(1, 0))
        if self.B is not None:
            y = y + yastn.tensordot(x, self.B, axes=(x.ndim - 1, 0))
        if self.shift:
            y = y + self.shift * x
        if self.W is not None:
            y = y + yastn.tensordot(self.W, x, axes=((2, 3), (0, 1)))
        return y

    def dense(self, x):
        """ coordinates of x in the sector; a component outside the sector is a violation of 'results lie in the sector' """
        d = x.to_numpy(legs=self.legd).ravel()
        out = np.delete(d, self.idx)
        if out.size and np.max(np.abs(out)) != 0:
            raise ValueError('component outside the sector')
        return d[self.idx]

    def tensor(self, c, blocks=None):
        """ yastn tensor with sector coordinates c (optionally keeping only a subset of blocks) """
        import yastn
        data = self.E.T @ c
        return self.from_data(np.ascontiguousarray(data if self.cplx or np.iscomplexobj(c) else np.real(data)))

    def from_data(self, data):
        """ tensor with the block structure of the whole sector and the given 1d data (numpy backend) """
        t = self.z.copy()
        if np.iscomplexobj(data) and not np.iscomplexobj(t._data):
            t = t.to(dtype='complex128')
        t._data[:] = data
        return t

    def start(self, kind):
        import yastn
        rng = self.rng
        dt = 'complex128' if self.cplx else 'float64'
        if kind == 'zero':
            return yastn.zeros(config=self.cfg, legs=self.legs, n=self.n, dtype=dt)
        if kind == 'sparse':
            # only some of the allowed blocks stored: v.size < dimension of the sector, the map fills the others
            v = yastn.Tensor(config=self.cfg, s=self.z.get_signature(), n=self.n, dtype=dt)
            ts = list(self.z.get_blocks_charge())
            keep = rng.sample(ts, rng.randint(1, max(1, len(ts) // 2)))
            for t in keep:
                sh = self.z[t].shape
                val = np.random.default_rng(rng.randrange(10 ** 6)).normal(size=sh)
                v.set_block(ts=t, Ds=sh, val=val.astype(dt))
            return v
        if kind == 'eigvec':
            w, U = (np.linalg.eigh(self.M) if self.hermitian else np.linalg.eig(self.M))
            k = rng.randrange(self.dim)
            c = U[:, k]
            if not self.cplx:
                if np.max(np.abs(np.imag(c))) > 1e-12:
                    c = np.real(c) + 0  # real part of a complex eigenvector spans a 2-dimensional invariant space
                c = np.real(c)
            c = c / np.linalg.norm(c)
            c = c + rng.choice((0, 1e-9, 1e-6)) * np.random.default_rng(rng.randrange(10 ** 6)).normal(size=self.dim)
            return self.tensor(c.astype(dt))
        return yastn.rand(config=self.cfg, legs=self.legs, n=self.n, dtype=dt)

    def reach(self, c):
        """ dense Arnoldi with re-orthogonalisation: orthonormal basis of the Krylov space of c, the residual norms, and whether the
        breakdown is numerically unambiguous """
        Q = [c / np.linalg.norm(c)]
        res = []
        for j in range(self.dim):
            w = self.M @ Q[-1]
            for _ in range(2):
                for q in Q:
                    w = w - np.vdot(q, w) * q
            r = float(np.linalg.norm(w))
            res.append(r)
            if r < 1e-10 * max(1.0, self.normM) or len(Q) == self.dim:
                break
            Q.append(w / r)
        return np.array(Q).T, res


def amplification(P, c0, t):
    """ condition number of the task under step-wise relative error control: max_s ||exp((t-s)M)|| ||exp(sM)v|| / ||exp(tM)v||  (1 for unitary evolution) """
    import scipy.linalg
    if P.hermitian and isinstance(t, complex) and t.real == 0:
        return 1.0
    if abs(t) == 0:
        return 1.0
    v = c0 / np.linalg.norm(c0)
    full = np.linalg.norm(scipy.linalg.expm(t * P.M) @ v)
    return float(max(np.linalg.norm(scipy.linalg.expm((1 - s) * t * P.M), 2) * np.linalg.norm(scipy.linalg.expm(s * t * P.M) @ v) for s in np.linspace(0, 1, 9)) / full)


def dropped_residual_explains(P, rec_events, c0, t, err, bound):
    """ classification of the known finding only: the FIRST iteration declared a happy breakdown although the start vector is not exactly
    invariant (dense Arnoldi residual h at that step: 1e-14 < h < tol), and the error is within what the dropped coupling explains,
    10 * h * |t| * max_s ||exp((t-s)M)|| ||exp(sM)v|| / ||exp(tM)v||.  Anything else stays a plain violation. """
    import scipy.linalg
    hp = next((e for e in rec_events if e.get('happy')), None)
    if hp is None or float(hp['t_now']) != 0:           # the breakdown must concern the ORIGINAL start vector
        return None
    m = hp['lenOut']
    _, resid = P.reach(c0)
    if m - 1 >= len(resid):
        return None
    h = resid[m - 1]
    if not h > 1e-14:
        return None
    amp = amplification(P, c0, t)
    if err <= 10 * h * abs(t) * amp + bound:
        return 'dropped residual h=%.2e amplification=%.2e' % (h, amp)
    return None


def scaled_events(rec_events, t_out, what):
    ev = []
    prev = None
    for e in rec_events:
        if e.get('stuck'):
            ev.append({'op': 'stuck', 'what': what + ' controller state repeated after a rejection: ' + str(e['key'])})
            continue
        t_now, tau = float(e['t_now']), float(e['tau'])
        rem = t_out - t_now
        taue = rem if e['happy'] else tau
        d = {'op': 'iter', 'what': what, 'ncv': int(e['ncv']), 'ncvmax': int(e['ncv_max']), 'lenIn': e['lenIn'], 'lenOut': e['lenOut'], 'happy': e['happy'], 'rej': bool(e['reject']),
             'ltau': mlog(tau / t_out), 'ltaue': mlog(taue / t_out), 'lrem': mlog(rem / t_out),
             'same_t': bool(prev is not None and t_now == prev[0]), 'advanced': bool(prev is not None and t_now == prev[0] + prev[1]),
             'tcmp': 0 if prev is None else (-1 if tau < prev[2] else (1 if tau > prev[2] else 0))}
        ev.append(d)
        prev = (t_now, taue, tau)
    return ev


def run(args):
    try:
        return run_inner(args)
    except Machinery as ex:
        return [{'op': 'machinery', 'what': str(ex)}]


def run_inner(args):
    import yastn
    import scipy.linalg
    from yastn import YastnError
    seed, maxdim = args
    P0 = Problem(seed, maxdim)
    P = P0
    rng = P.rng
    out_events = []
    # ---------------- expmv ----------------
    for rep in range(7):
        P = P0
        if rep == 6:
            if not P0.hermitian:
                continue
            # relaxation: spectrum in [-2 ||F||, 0.01 ||F||], long real (or complex, Re t > 0) time: the vector relaxes to the dominant eigenvector, so a LATER
            # Krylov expansion breaks down while the step is shorter than the remaining time
            import copy
            P = copy.copy(P0)
            lam = float(np.max(np.linalg.eigvalsh(P0.M)))
            sft = lam - 0.01 * P0.normM
            P.shift = P0.shift - sft
            P.M = P0.M - sft * np.eye(P0.dim)
            P.normM = float(np.linalg.norm(P.M, 2))
            P.what = P0.what + ' relax'
        kind = rng.choice(('rand', 'rand', 'sparse', 'eigvec', 'zero'))
        v = P.start(kind)
        normalize = rng.random() < 0.4
        tol = rng.choice((1e-7, 1e-8, 1e-10, 1e-12))
        ncv = rng.choice((1, 2, 3, 5, 10, 10, 20, 31, 45))
        mag = rng.choice((0, 1e-3, 0.1, 1, 1, 3, 10, 30, 100))
        if P.hermitian and rng.random() < 0.5:
            ph = rng.choice((1j, -1j))
            mag = rng.choice((mag, 300, 1000))
        else:
            ph = rng.choice((1, -1, 1j, (1 + 1j) / math.sqrt(2), (-1 + 2j) / math.sqrt(5)))
            mag = min(mag, 30)
        if rep >= 3:
            # bias towards 'step rejected and shortened, then the enlarged Krylov space becomes invariant': small first ncv, long times
            ncv = rng.choice((1, 2, 3, 5))
            unitary = P.hermitian and isinstance(ph, complex) and ph.real == 0
            mag = rng.choice((30, 100, 300, 1000)) if unitary else rng.choice((3, 10, 30))       # growth exp(|t| ||F||) must stay far from overflow
            kind = rng.choice(('rand', 'sparse')) if kind == 'zero' else kind
            v = P.start(kind)
        if rep == 6:
            ph = rng.choice((1, 1, (3 + 4j) / 5))
            mag = rng.choice((300, 1000))
            ncv = rng.choice((3, 5, 8, 10))
            kind = 'rand'
            v = P.start(kind)
        t = ph * mag / max(P0.normM if rep == 6 else P.normM, 1e-3)     # relaxation: growth bounded by exp(0.01 ||F0|| |t|) = exp(0.01 mag) whatever the width of the spectrum
        if not P.cplx and isinstance(t, complex) and t.imag != 0:
            v = v.to(dtype='complex128')
        what = 'expmv %s start=%s t=%s tol=%g ncv=%d normalize=%s rep=%d' % (P.what, kind, t, tol, ncv, normalize, rep)
        c0 = P.dense(v)
        rec = KRec()
        rec.install()
        res, info, raised = None, None, None
        try:
            res, info = yastn.expmv(P.f, v, t=t, tol=tol, ncv=ncv, hermitian=P.hermitian, normalize=normalize, return_info=True)
        except YastnError as ex:
            raised = str(ex)
        except _Stuck:
            raised = '__stuck__'
        except _Slow:
            raised = '__slow__'
        except (ArithmeticError, ValueError, IndexError, KeyError, TypeError) as ex:      # a crash on a valid call is an outcome of the call (rejected by the trace spec), not of the harness
            raised = '%s: %s' % (type(ex).__name__, ex)
        finally:
            rec.uninstall()
        if raised == '__slow__':
            out_events.append({'op': 'skipped', 'what': what + ' more than %d controller iterations' % MAX_ITERS})
            continue
        zero = float(np.linalg.norm(c0)) == 0
        if raised is not None and raised != '__stuck__':
            out_events.append({'op': 'raise', 'what': what + ' raised: ' + raised[:60], 'raised': True, 'expected': bool(zero and normalize)})
            continue
        if zero and normalize:
            out_events.append({'op': 'raise', 'what': what + ' zero vector normalised without an error', 'raised': False, 'expected': True})
            continue
        t_out = abs(t)
        evs = [{'op': 'begin', 'what': what}] + scaled_events(rec.events, t_out if t_out > 0 else 1.0, what)
        if raised == '__stuck__':
            out_events += evs
            continue
        with np.errstate(all='ignore'):
            ref = scipy.linalg.expm(t * P.M) @ c0
        if not np.all(np.isfinite(ref)):
            out_events.append({'op': 'skipped', 'what': what + ' dense reference overflows: accuracy not claimed'})
            continue
        verd = {}
        try:
            c = P.dense(res)
            verd['in_sector'] = bool(tuple(res.n) == tuple(v.n))
        except ValueError:
            c = None
            verd['in_sector'] = False
        if c is not None:
            nref = float(np.linalg.norm(ref))
            if zero:
                verd['zero_stays_zero'] = bool(np.linalg.norm(c) == 0)
            else:
                if normalize:
                    ref = ref / nref
                    nref = 1.0
                err = float(np.linalg.norm(c - ref)) / nref
                # stated tolerance: the controller accepts steps with error estimate <= 1.2 * tol * tau / t_out, i.e. 1.2 tol in total; allow rounding
                # proportional to the number of map applications
                # times the condition number of the task (the local errors are relative to the current vector and are propagated by the rest of the evolution)
                amp = amplification(P, c0, t)
                bound = (20 * tol + 1e-13 * (10 + info['krylov_steps'])) * max(1.0, amp)
                if bound > 1e-3:
                    out_events.append({'op': 'skipped', 'what': what + ' ill-conditioned task (amplification %.1e): accuracy not claimed' % amp})
                    continue
                verd['error_within_tolerance'] = bool(err <= bound)
                if normalize:
                    verd['unit_norm'] = bool(abs(np.linalg.norm(c) - 1) <= bound)
                verd['error_estimate_within_1.2tol'] = bool(info['error'] <= 1.2 * tol * (1 + 1e-9) + 1e-300)
                if not verd['error_within_tolerance']:
                    what += ' err=%.3e bound=%.3e' % (err, bound)
                    kf = dropped_residual_explains(P, rec.events, c0, t, err, bound)
                    if kf:
                        what = 'KF-happy-residual ' + what + ' ' + kf
                    elif err <= 100 * bound:
                        what = 'KF-optimistic-estimate ' + what
        last = rec.events[-1] if rec.events else None
        evs.append({'op': 'end', 'what': what, 'steps': int(info['steps']), 'ksteps': int(info['krylov_steps']), 'ncv_info': int(info['ncv']), 'ncv0': ncv,
                    'ncvmax': int(last['ncv_max']) if last is not None else 30, 'reached': True, 'last_rejected': False, 'verdicts': verd})      # the controller's own bound, as recorded
        out_events += evs
    P = P0
    # ---------------- eigs ----------------
    for rep in range(2):
        kind = rng.choice(('rand', 'sparse', 'eigvec', 'rand'))
        v = P.start(kind)
        c0 = P.dense(v)
        if np.linalg.norm(c0) == 0:
            continue
        Q, resid = P.reach(c0)
        reach = Q.shape[1]
        sc0 = max(1.0, P.normM)
        # the implementation declares breakdown at an absolute 1e-13; claim only when the dense Arnoldi agrees unambiguously
        ambiguous = resid[-1] >= 1e-14 or any(r < 1e-7 * sc0 for r in resid[:-1])
        ncv = rng.choice((1, 2, 3, 5, 8, 12, 20, 40))
        if kind == 'sparse' and v.size < reach and rng.random() < 0.7:
            ncv = rng.choice((20, 40, 40))       # a start vector that stores fewer numbers than its Krylov space has dimensions, and a Krylov size that spans the space
        k = rng.randint(1, min(3, ncv, reach))
        which = rng.choice(('SR', 'LR', 'LM')) if not P.hermitian else rng.choice(('SR', 'SR', 'LR'))
        what = 'eigs %s start=%s(size %d) ncv=%d k=%d which=%s reach=%d rep=%d' % (P.what, kind, v.size, ncv, k, which, reach, rep)
        rec = KRec()
        rec.install()
        try:
            val, Y = yastn.eigs(P.f, v, k=k, which=which, ncv=ncv, hermitian=P.hermitian)
        except YastnError as ex:
            out_events.append({'op': 'raise', 'what': what + ' raised: ' + str(ex)[:60], 'raised': True, 'expected': False})
            continue
        finally:
            rec.uninstall()
        r = rec.events[-1]
        m = r['lenOut'] if r['happy'] else r['lenOut'] - 1
        val = np.array([complex(x) for x in val])
        kk = min(k, m)
        verd = {}
        try:
            Yd = [P.dense(y) for y in Y]
            verd['in_sector'] = all(tuple(y.n) == tuple(v.n) for y in Y)
        except ValueError:
            Yd = None
            verd['in_sector'] = False
        spans = bool(ncv >= reach)
        exact, bounds = True, True
        sc = max(1.0, P.normM)
        if Yd is not None:
            Mr = Q.conj().T @ P.M @ Q
            wr = np.linalg.eigvalsh(Mr) if P.hermitian else np.linalg.eigvals(Mr)
            order = {'SR': np.argsort(wr.real), 'LR': np.argsort(-wr.real), 'LM': np.argsort(-np.abs(wr))}[which]
            wr = wr[order]
            if spans:
                # every returned pair is an eigenpair of the map and the first one is the `which`-extreme eigenvalue of the reachable space; when the
                # breakdown was detected (m = reach) the k values are the k extreme ones and the vectors are normalised.  (An undetected breakdown
                # - residual above the absolute 1e-13 - continues with normalised rounding noise: duplicates may appear and norms drift; that
                # is numerics, the pairs themselves must still be eigenpairs.)
                key = (lambda x: x.real) if which in ('SR', 'LR') else (lambda x: abs(x))
                for i in range(len(Yd)):
                    y = Yd[i]
                    ny = float(np.linalg.norm(y))
                    if ny == 0 or np.linalg.norm(P.M @ y - val[i] * y) > 1e-6 * sc * ny:
                        exact = False
                    if m == reach and abs(ny - 1) > 1e-8:
                        exact = False
                for i in range(min(len(val), len(wr)) if m == reach else 1):
                    if abs(key(val[i]) - key(wr[i])) > 1e-6 * sc:
                        exact = False
            elif P.hermitian:
                # variational bounds: every Ritz value lies inside the spectrum of the map on the reachable space (Rayleigh quotient).  The sharper
                # statements (i-th Ritz value bounds the i-th eigenvalue, Ritz vectors orthonormal, value = Rayleigh quotient of ITS vector) presume an
                # orthonormal Krylov basis; the Lanczos recursion is not re-orthogonalised, so they are claimed for short recursions only.
                lo, hi = float(np.min(wr.real)), float(np.max(wr.real))
                for i in range(len(val)):
                    if val[i].real < lo - 1e-8 * sc or val[i].real > hi + 1e-8 * sc:
                        bounds = False
                if ncv <= 15:
                    for i in range(len(val)):
                        y = Yd[i]
                        if abs(np.linalg.norm(y) - 1) > 1e-7:
                            bounds = False
                        if abs(np.vdot(y, P.M @ y) - val[i]) > 1e-7 * sc:
                            bounds = False
                        if which == 'SR' and val[i].real < wr[i].real - 1e-8 * sc:
                            bounds = False
                        if which == 'LR' and val[i].real > wr[i].real + 1e-8 * sc:
                            bounds = False
                    G = np.array([[np.vdot(a, b) for b in Yd] for a in Yd])
                    if np.linalg.norm(G - np.eye(len(Yd))) > 1e-6:
                        bounds = False
        if ambiguous:
            continue
        if spans and not exact and m > reach:
            what = 'KF-undetected-breakdown ' + what
        elif spans and not exact and P.hermitian and m == reach and m > 15:
            # Hermitian Lanczos without re-orthogonalisation: in a long recursion the basis loses orthogonality and Ritz pairs other than the extreme one are wrong
            # although the space spans the sector; short recursions (m <= 15) and the extreme pair stay claims
            y0 = Yd[0]
            first_ok = np.linalg.norm(P.M @ y0 - val[0] * y0) <= 1e-6 * sc * np.linalg.norm(y0) and abs(val[0].real - wr[0].real) <= 1e-6 * sc if which in ('SR', 'LR') else True
            if first_ok:
                what = 'KF-lanczos-orthogonality ' + what
        elif spans and not exact and not P.hermitian and m == reach and len(resid) > 1 and min(resid[:-1]) < 1e-3 * sc0:
            # Arnoldi with ONE pass of classical Gram-Schmidt: after a near-breakdown (here: the exact recursion has a residual below 1e-3 ||F|| at some inner step, e.g. a start
            # vector close to an invariant subspace) the next basis vector is amplified rounding noise, orthogonality is lost and the Ritz pairs are wrong
            what = 'KF-arnoldi-orthogonality ' + what + ' min inner residual %.1e' % min(resid[:-1])
        out_events.append({'op': 'eigs', 'what': what, 'k': kk if len(Y) < k else k, 'returned': len(Y), 'm': int(m), 'ncv': ncv, 'reach': int(reach), 'spans': spans, 'hermitian': P.hermitian,
                           'exact': bool(exact), 'bounds': bool(bounds), 'verdicts': verd})
    # ---------------- lin_solver ----------------
    for rep in range(2):
        b = P.start('rand')
        v0 = P.start(rng.choice(('rand', 'sparse', 'zero')))
        ncv = rng.choice((1, 2, 4, 8, 15, 30, 60))
        cb, cv0 = P.dense(b), P.dense(v0)
        q0 = cb - P.M @ cv0
        what = 'lin_solver %s ncv=%d rep=%d' % (P.what, ncv, rep)
        if np.linalg.norm(q0) == 0:
            continue
        Q, resid = P.reach(q0)
        reach = Q.shape[1]
        try:
            vf, res = yastn.lin_solver(P.f, b, v0, ncv=ncv, hermitian=P.hermitian)
        except YastnError as ex:
            out_events.append({'op': 'raise', 'what': what + ' raised: ' + str(ex)[:60], 'raised': True, 'expected': False})
            continue
        verd = {}
        try:
            cf = P.dense(vf)
            verd['in_sector'] = bool(tuple(vf.n) == tuple(b.n))
        except ValueError:
            cf = None
            verd['in_sector'] = False
        res = float(res)
        true_ok, le_init, solved = False, False, False
        cond = float(np.linalg.cond(P.M))
        if cf is not None:
            rtrue = float(np.linalg.norm(P.M @ cf - cb))
            sc = max(1.0, P.normM) * max(1.0, float(np.linalg.norm(cf))) + float(np.linalg.norm(cb))
            true_ok = abs(res - rtrue) <= 1e-9 * sc
            le_init = rtrue <= float(np.linalg.norm(q0)) * (1 + 1e-6) + 1e-12 * sc
            solved = rtrue <= 1e-6 * sc
        if ncv > 15:
            le_init = True      # least-squares optimality over the Krylov space presumes an orthonormal basis: only claimed for short recursions
        out_events.append({'op': 'lin', 'what': what + ' reach=%d cond=%.1e res=%.2e' % (reach, cond, res), 'res_is_true_residual': bool(true_ok), 'res_le_initial': bool(le_init),
                           'spans': bool(ncv >= reach), 'wellcond': bool(cond < 1e4), 'solved': bool(solved), 'verdicts': verd})
    return out_events


def main(tier, seed, replay=None):
    rep = Report('C18', tier, seed, 'model_checking')
    if replay:
        rep.write_evidence = False
    rep.cov['rule'] = ('random symmetric linear maps (A.x, A.x + x.B, + shift) on 1..3-leg vectors in U1/Z2/Z2xU1/dense sectors of dimension 2..%s, Hermitian and not, real and complex; '
                       'expmv with |t|*||F|| in {0, 1e-3 .. 100}, real/imaginary/complex t, tol 1e-6..1e-12, ncv 1..45 (above ncv_max too), normalize, start vectors random / few stored blocks / '
                       '(near-)eigenvector / zero; eigs (SR/LR/LM, k<=3, ncv 1..40) and lin_solver (ncv 1..60); non-trivial = expmv call with >= 1 iteration, eigs / lin_solver event')
    r = tlc('KrylovMC', 'KrylovMC.cfg', workers=16, timeout=1800, mem='6g')
    if not r.finished or r.violated:
        raise Machinery('KrylovMC did not finish cleanly: %s %s' % (r.violated, r.error))
    rep.add_tlc('KrylovMC (controller vs every environment: NcvMax=3, ncv0<=5, T=6; no overshoot, ncv range, progress, termination)', r)
    r2 = tlc('KrylovMC', 'KrylovMC_old.cfg', workers=16, timeout=1800, mem='6g')
    if not (r2.violated and 'Prop_Progress' in str(r2.violated)):
        raise Machinery('KrylovMC with the pre-fix rule (m == ncv_max) should violate Prop_Progress: the model lost its teeth (%s)' % (r2.violated,))
    rep.cov['parts']['pre_fix_rule_violates_progress'] = True
    n, maxdim = (80, 120) if tier == 'quick' else (420, 200)
    jobs = [(seed * 1000003 + i, maxdim) for i in range(n)] + [(4000053, 40)]      # the last one: canonical reproducer of the known finding 'Lanczos loses orthogonality'
    with ProcessPoolExecutor(max_workers=14) as ex:
        evs = [e for lst in ex.map(run, jobs, chunksize=2) for e in lst]
    mach = [e for e in evs if e['op'] == 'machinery']
    if mach:
        raise Machinery(mach[0]['what'])
    skipped = [e for e in evs if e['op'] == 'skipped']
    evs = [e for e in evs if e['op'] != 'skipped']
    # one trace per call
    traces, cur = [], []
    for e in evs:
        if e['op'] in ('begin', 'eigs', 'lin', 'raise') and cur and (e['op'] != 'raise' or True):
            traces.append({'ev': cur})
            cur = []
        cur.append(e)
    if cur:
        traces.append({'ev': cur})
    acc, diag, res = validate_traces('TraceKrylov', 'TraceKrylov.cfg', traces, shards=16, timeout=3000, mem='4g')
    if not replay:
        from vlib import negative_controls
        def c_steps(e):
            if e['op'] == 'end':
                e['steps'] += 1
                return True
        def c_rej(e):
            if e['op'] == 'iter' and not e['rej'] and not e['happy'] and e['lenOut'] > 1:
                e['rej'] = True          # a rejected step must keep the basis and not advance the time
                e['advanced'] = True
                return True
        rep.cov['parts']['negative_controls_rejected'] = negative_controls('TraceKrylov', 'TraceKrylov.cfg', traces, [('step count + 1', c_steps), ('rejected step that advanced', c_rej)], timeout=900, mem='4g')
    for t, rj in zip(traces, validate_traces.last_rejects):
        for l, why in rj[:1]:
            e = t['ev'][l - 1]
            sig = '%s:%s' % (e['op'], e['what'])
            if e['what'].startswith('KF-happy-residual'):
                sig = 'expmv:happy-breakdown-drops-residual-below-tol:' + e['what']
            elif e['what'].startswith('KF-optimistic-estimate'):
                sig = 'expmv:error-estimate-optimistic-up-to-2000tol:' + e['what']
            elif e['what'].startswith('KF-undetected-breakdown'):
                sig = 'eigs:undetected-breakdown-continues-with-noise:' + e['what']
            elif e['what'].startswith('KF-lanczos-orthogonality'):
                sig = 'eigs:lanczos-long-recursion-loses-orthogonality:' + e['what']
            elif e['what'].startswith('KF-arnoldi-orthogonality'):
                sig = 'eigs:arnoldi-loses-orthogonality-after-near-breakdown:' + e['what']
            rep.violation(sig, '%s (%s): %s' % (e['op'], e['what'], why[:700]), {'op': e['op'], 'what': e['what'], 'event': e})
    if any((not a) and not rj for a, rj in zip(acc, validate_traces.last_rejects)):
        raise Machinery('C18 trace neither accepted nor rejected')
    calls = [t for t in traces if t['ev'][0]['op'] == 'begin']
    iters = [e for e in evs if e['op'] == 'iter']
    rep.cov['states'] += sum(x.distinct for x in res)
    rep.cov['transitions'] += sum(x.generated for x in res)
    rep.cov['traces_validated_against_impl'] = len(traces)
    rep.cov['evaluations'] = len(traces)
    rep.cov['distinct_nontrivial'] = sum(1 for t in calls if len(t['ev']) > 2) + sum(1 for e in evs if e['op'] in ('eigs', 'lin'))
    rep.cov['parts'].update({'expmv_calls': len(calls), 'controller_iterations': len(iters), 'rejected_steps': sum(1 for e in iters if e['rej']),
                             'happy_breakdowns': sum(1 for e in iters if e['happy']), 'happy_breakdowns_with_shortened_step': sum(1 for e in iters if e['happy'] and e['ltau'] < e['lrem'] - 5), 'calls_with_substeps': sum(1 for t in calls if sum(1 for e in t['ev'] if e['op'] == 'iter' and not e['rej']) > 1),
                             'iterations_above_ncv_max': sum(1 for e in iters if e['lenOut'] - 1 > e['ncvmax']), 'forced_shrinks_above_ncv_max': sum(1 for e in iters if e['rej'] and e['lenIn'] - 1 > e['ncvmax']),
                             'eigs_calls': sum(1 for e in evs if e['op'] == 'eigs'), 'eigs_spanning': sum(1 for e in evs if e['op'] == 'eigs' and e['spans']),
                             'eigs_variational': sum(1 for e in evs if e['op'] == 'eigs' and not e['spans'] and e['hermitian']),
                             'lin_calls': sum(1 for e in evs if e['op'] == 'lin'), 'lin_solved_claims': sum(1 for e in evs if e['op'] == 'lin' and e['spans'] and e['wellcond']),
                             'documented_rejections': sum(1 for e in evs if e['op'] == 'raise'), 'skipped_slow': len(skipped)})
    rep.sample(calls[0]['ev'][:3] if calls else None)
    rep.sample(next((e for e in evs if e['op'] == 'eigs'), None))
    rep.assumptions += ['dense references (scipy.linalg.expm, numpy eig / eigvalsh, residuals) and all norms are floating-point observations; the error bound used for expmv is 20*tol + 1e-13*(10 + map applications)',
                        'the dense matrix of the map is built column by column through the map itself on the sector basis given by compress_to_1d / to_numpy',
                        'eigs cases whose Krylov breakdown is numerically ambiguous (residual between 1e-15 and 1e-10 relative) are not claimed',
                        'expmv calls needing more than %d controller iterations are skipped and counted' % MAX_ITERS]
    return rep.finish()
