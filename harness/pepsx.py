"""Shared by C11 / C12: operator families with occupation maps, integer gates, PEPS <-> Fock vector translation."""
from __future__ import annotations
import itertools
import numpy as np
from vlib import Machinery
import c05_fock as F

FAMILIES_TJ = [('tJ', 'Z2'), ('tJ', 'U1xU1'), ('tJ', 'U1xU1xZ2')]
FAMILIES = [('spinless', 'U1'), ('spinless', 'Z2'), ('spinful', 'Z2'), ('spinful', 'U1xU1'), ('spinful', 'U1xU1xZ2'), ('spin', 'dense'), ('spin', 'Z2'), ('spin', 'U1')]


class Family:
    def __init__(self, kind, sym):
        import yastn.operators as yo
        self.kind, self.sym = kind, sym
        if kind == 'spin':
            ops = yo.Spin12(sym=sym)
            I = ops.I()
            n = ops.sz() + I / 2
            self.named = {'I': I, 'n': n, 'cp': ops.sp(), 'c': ops.sm()}
            self.numbers = [n]
            self.gr = ['none', 1]
            # (A, B) pairs for two-site terms; everything commutes
            self.pairs = [('I', 'I'), ('n', 'I'), ('I', 'n'), ('n', 'n'), ('cp', 'c'), ('c', 'cp')] + ([('cp', 'cp'), ('c', 'c')] if sym != 'U1' else [])
            self.local = ['I', 'n'] + (['cp', 'c'] if sym == 'dense' else [])
        elif kind == 'spinless':
            ops, self.named, self.numbers = F.family('spinless', sym)
            self.gr = ['all', 1]
            self.pairs = [('I', 'I'), ('n', 'I'), ('I', 'n'), ('n', 'n'), ('cp', 'c'), ('c', 'cp')] + ([('cp', 'cp'), ('c', 'c')] if sym == 'Z2' else [])
            self.local = ['I', 'n']
        elif kind == 'tJ':       # used for the predefined gates only (C11 gate_events)
            ops, self.named, self.numbers = F.family('tJ', sym)
            self.gr = ['species' if sym == 'U1xU1' else 'all', 2]      # as for SpinfulFermions: with U1xU1 the statistics is per species (c_up and c_down of different sites commute)
            self.pairs, self.local = [], ['I', 'nu', 'nd']
        else:
            ops, self.named, self.numbers = F.family('spinful', sym)
            self.named['nund'] = self.named['nu'] @ self.named['nd']
            self.gr = ['species' if sym == 'U1xU1' else 'all', 2]
            self.pairs = [('I', 'I'), ('nu', 'I'), ('I', 'nd'), ('nu', 'nd'), ('nund', 'nu'), ('cpu', 'cu'), ('cu', 'cpu'), ('cpd', 'cd'), ('cd', 'cpd'), ('Sp', 'Sm'), ('Sm', 'Sp')]
            if sym == 'Z2':
                self.pairs += [('cpu', 'cpd'), ('cu', 'cd'), ('cpu', 'cd')]
            self.local = ['I', 'nu', 'nd', 'nund'] + (['Sp', 'Sm'] if sym == 'Z2' else [])
        self.ops = ops
        self.config = ops.config
        self.nm = len(self.numbers)
        self.nsym = ops.config.sym.NSYM
        self.locc = F.label_occ(F.occupation_map(self.numbers, self.nsym), self.numbers, ops.space())
        self.occs = sorted(set(self.locc.values()))

    def projector(self, occ):
        """ |occ><occ| as a 2-leg tensor (a purification vector with a one-dimensional ancilla offsetting the charge) """
        P = self.named['I']
        for a, o in enumerate(occ):
            nop = self.numbers[a]
            P = P @ (nop if o else (self.named['I'] - nop))
        return P


def leg_labels(leg):
    """ dense index along a leg -> (t, i) """
    out = []
    for t, D in zip(leg.t, leg.D):
        out += [(tuple(t), i) for i in range(D)]
    return out


def gint(v, tol=1e-8):
    """ Gaussian integer nearest to v and whether v is integral """
    re, im = float(np.real(v)), float(np.imag(v))
    r, i = int(round(re)), int(round(im))
    ok = abs(re - r) <= tol * max(1.0, abs(re)) and abs(im - i) <= tol * max(1.0, abs(im))
    if abs(r) > 2 ** 30 or abs(i) > 2 ** 30:
        raise Machinery('amplitude too large for TLC integers')
    return r, i, ok


def state_entries(fam, psi, order):
    """ to_tensor() of a finite PEPS as Fock vector entries [[occupied physical modes], [ancilla labels], re, im]; order = sites in fermionic order """
    T = psi.to_tensor()
    N = len(order)
    if T.ndim != 2 * N:
        raise Machinery('to_tensor() returned %d legs for %d sites' % (T.ndim, N))
    legs = T.get_legs()
    labs = [leg_labels(l) for l in legs]
    d = T.to_numpy()
    ent, integral = [], True
    for idx in zip(*np.nonzero(d)):
        modes, anc = [], []
        for k in range(N):
            occ = fam.locc[labs[2 * k][idx[2 * k]]]
            modes += [k * fam.nm + a + 1 for a in range(fam.nm) if occ[a]]
            t, i = labs[2 * k + 1][idx[2 * k + 1]]
            anc += [int(x) for x in t] + [int(i)]
        r, i, ok = gint(d[idx])
        integral = integral and ok
        if r or i:
            ent.append([modes, anc, r, i])
    return ent, integral


def operator_units(fam, T, nsites):
    """ matrix units of an operator tensor with legs (out0, in0, out1, in1, ...): [[out modes], [in modes], re, im] in LOCAL numbering
    (site k of the operator owns modes k*nm+1..k*nm+nm; convention validated against the Fock model by C05's fkron check) """
    nsym = fam.nsym
    ent = []
    for t in T.get_blocks_charge():
        blk = np.asarray(T[t])
        ts = [tuple(t[k * nsym:(k + 1) * nsym]) for k in range(2 * nsites)]
        for idx in zip(*np.nonzero(blk)):
            r, i, ok = gint(blk[idx])
            if not ok:
                raise Machinery('non-integer element in an integer gate')
            outm, inm = [], []
            for k in range(nsites):
                oo = fam.locc[(ts[2 * k], int(idx[2 * k]))]
                ii = fam.locc[(ts[2 * k + 1], int(idx[2 * k + 1]))]
                outm += [k * fam.nm + a + 1 for a in range(fam.nm) if oo[a]]
                inm += [k * fam.nm + a + 1 for a in range(fam.nm) if ii[a]]
            ent.append([outm, inm, r, i])
    return ent


COEFS = [1, 1, 2, -1, 3, -2, 1j, -1j, 1 + 1j, 2 - 1j]


def two_site_operator(fam, rng, complex_ok=True):
    """ random integer two-site operator sum_k coef_k A_k (x) B_k as a 4-leg tensor (fkron convention), with its terms """
    import yastn
    k = rng.randint(1, 4)
    pairs = rng.sample(fam.pairs, min(k, len(fam.pairs)))
    if rng.random() < 0.6 and ('I', 'I') not in pairs:
        pairs.append(('I', 'I'))
    G, terms = None, []
    for (a, b) in pairs:
        c = rng.choice(COEFS if complex_ok else [x for x in COEFS if not isinstance(x, complex)])
        sites = (0, 1) if rng.random() < 0.5 else (1, 0)
        # fkron(A, B, sites=(1, 0)): A acts on site 1, B on site 0; the operator product is A.B in the given order
        T = c * yastn.fkron(fam.named[a], fam.named[b], sites=sites)
        G = T if G is None else G + T
        terms.append({'amp': [int(np.real(c)), int(np.imag(c))], 'ops': [a, b], 'gsites': list(sites)})
    return G, terms


def split_exact(G):
    """ G[k0, b0, k1, b1] = sum_x G0[k0, b0, x] G1[k1, b1, x] without any floating-point factorisation """
    import yastn
    G0 = G.fuse_legs(axes=(0, 1, (2, 3)))
    L = G0.get_legs(2)
    E = yastn.eye(G.config, legs=[L.conj(), L], isdiag=False)
    G1 = E.unfuse_legs(axes=1).transpose(axes=(1, 2, 0))
    return G0, G1


def lattices(fpeps, maxsites=6, cylinders=True):
    out = []
    for dims in ((1, 2), (2, 1), (1, 3), (3, 1), (2, 2), (2, 3), (3, 2), (1, 4), (1, 5), (1, 6), (3, 3), (2, 4), (4, 2)):
        if dims[0] * dims[1] <= maxsites:
            out.append(('obc', dims))
    if cylinders:
        for dims in ((2, 2), (3, 2), (2, 3), (3, 1)):
            if dims[0] * dims[1] <= maxsites:
                out.append(('cylinder', dims))
    return out
