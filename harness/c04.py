"""C04 — factorisations reconstruct the input with the promised structure.

Programs: a hash-valued or known-spectrum operand in which every allowed block is stored, optionally lazily transposed and fused
(hard / meta), then svd / qr / eigh over the option grid (bipartition incl. order, sU/sQ, nU, Uaxis/Vaxis/Qaxis/Raxis).  TLC
(TraceTensor + TensorOps!LeftFactor/RightFactor/NewLeg) computes the STRUCTURE of every factor exactly: legs, position and signature
of the connecting leg, its sectors (from the effective charges of the bipartition under Charges!Add) and dimensions min(rows, cols),
which factor carries the charge, inherited fusion trees; prescribed integer spectra are compared per sector.  Reconstruction,
(co-)isometry, ordering, triangularity are measured by the harness at tolerances named here and enter as verdict bits.
"""
from __future__ import annotations
import itertools
import random
import numpy as np
from concurrent.futures import ProcessPoolExecutor
from vlib import Report, validate_traces, Machinery
import tensors as T
from c01 import report_traces, SYMLIST
from c03 import Runner, init_struct, universe_legs

TOL = 1e-10


def struct_obs(t, sym):
    o = T.alpha(t, sym, views=False, noent=True)
    o['views'] = 'same'
    return o


def spectrum_obs(S, sym):
    o = struct_obs(S, sym)
    nsym = S.config.sym.NSYM
    vals = []
    ok_nonneg, ok_sorted = True, True
    for t in sorted(S.get_blocks_charge()):
        v = np.asarray(S[t]).real
        ok_nonneg &= bool(np.all(v >= 0))
        ok_sorted &= bool(np.all(np.diff(v) <= 1e-12 * max(1.0, float(np.max(np.abs(v))) if len(v) else 1.0)))
        vals.append([int(round(float(x))) if abs(x - round(float(x))) < 1e-8 else -999 for x in v])
    o['vals'] = vals
    return o, ok_nonneg, ok_sorted


class _Defective(Exception):
    pass


def factor_events(R, a_idx, rng, sym, spectrum=None, herm=False, halves=None, only=None):
    """ run factorisations of register a_idx with sampled options; append events to R.ev (results are not registers) """
    import yastn
    from yastn import YastnError
    a = R.regs[a_idx]
    lr = a.ndim
    if lr < 2:
        return
    kinds = ['svd', 'svd', 'qr'] + (['eigh'] if herm else [])
    for _ in range(3):
        op = rng.choice(kinds)
        if halves is not None:
            la, lb = list(halves[0]), list(halves[1])
            op = rng.choice(only or ('eigh', 'eigh', 'svd', 'qr', 'eig'))
        elif herm or spectrum is not None:
            la, lb = [0], [1]        # known-spectrum operands are matrices (possibly with fused / extra legs handled by the caller)
            if lr != 2:
                p = list(range(lr))
                k = rng.randint(1, lr - 1)
                la, lb = p[:k], p[k:]
        else:
            p = list(range(lr))
            rng.shuffle(p)
            k = rng.randint(1, lr - 1)
            la, lb = p[:k], p[k:]
        sg = rng.choice((1, -1))
        nU = rng.choice((True, False))
        Lax = rng.randint(0, len(la)) if rng.random() < 0.6 else len(la)
        Rax = rng.randint(0, len(lb)) if rng.random() < 0.6 else 0
        e = {'op': op, 'a': a_idx + 1, 'la': la, 'lb': lb, 'sg': sg, 'nU': bool(nU), 'Laxis': Lax, 'Raxis': Rax, 'spectrum': [], 'out': 'ok', 'verdicts': {}, 'full': bool(halves is None)}
        axes = (tuple(la) if len(la) > 1 or rng.random() < 0.5 else la[0], tuple(lb) if len(lb) > 1 or rng.random() < 0.5 else lb[0])
        nrm = max(float(a.norm()), 1e-300)
        try:
            if op == 'svd':
                U, S, V = yastn.linalg.svd(a, axes=axes, sU=sg, nU=nU, Uaxis=Lax, Vaxis=Rax, fix_signs=rng.random() < 0.3)
                e['L'], e['R'] = struct_obs(U, sym), struct_obs(V, sym)
                e['S'], nonneg, srt = spectrum_obs(S, sym)
                US = U.moveaxis(source=Lax, destination=-1) @ S
                rec = yastn.tensordot(US, V.moveaxis(source=Rax, destination=0), axes=(US.ndim - 1, 0))
                ref = a.transpose(axes=tuple(la + lb))
                Um = U.moveaxis(source=Lax, destination=-1)
                Vm = V.moveaxis(source=Rax, destination=0)
                nl, nr = len(la), len(lb)
                UU = yastn.tensordot(Um, Um, axes=(tuple(range(nl)), tuple(range(nl))), conj=(1, 0))
                VV = yastn.tensordot(Vm, Vm, axes=(tuple(range(1, nr + 1)), tuple(range(1, nr + 1))), conj=(0, 1))
                e['verdicts'] = {'recon': bool((rec - ref).norm() <= TOL * nrm), 'isoU': bool((UU - yastn.eye(config=a.config, legs=UU.get_legs()).diag()).norm() <= TOL * max(1, UU.norm())) if len(UU.struct.t) else True,
                                 'coisoV': bool((VV - yastn.eye(config=a.config, legs=VV.get_legs()).diag()).norm() <= TOL * max(1, VV.norm())) if len(VV.struct.t) else True,
                                 'Snonneg': nonneg, 'Ssorted': srt}
            elif op == 'qr':
                Q, Rr = yastn.linalg.qr(a, axes=axes, sQ=sg, Qaxis=Lax, Raxis=Rax)
                e['nU'] = True
                e['L'], e['R'] = struct_obs(Q, sym), struct_obs(Rr, sym)
                e['S'] = {}
                Qm = Q.moveaxis(source=Lax, destination=-1)
                Rm = Rr.moveaxis(source=Rax, destination=0)
                rec = yastn.tensordot(Qm, Rm, axes=(Qm.ndim - 1, 0))
                ref = a.transpose(axes=tuple(la + lb))
                nl = len(la)
                QQ = yastn.tensordot(Qm, Qm, axes=(tuple(range(nl)), tuple(range(nl))), conj=(1, 0))
                # R as a matrix: connecting leg x all right legs merged the way yastn merges them
                Rx = Rm
                for _ in range(4):        # undo meta fusion (syntax only) so that the right legs are merged flat, in the order the factorisation merged them
                    mf = [i for i in range(Rx.ndim) if Rx.mfs[i][0] > 1]
                    if not mf:
                        break
                    Rx = Rx.unfuse_legs(axes=tuple(mf))
                Rf = Rx.fuse_legs(axes=(0, tuple(range(1, Rx.ndim))), mode='hard') if Rx.ndim > 2 else Rx
                tri, dpos = True, True
                for t in Rf.get_blocks_charge():
                    blk = np.asarray(Rf[t])
                    sc = max(1.0, float(np.max(np.abs(blk)))) if blk.size else 1.0
                    tri &= bool(np.all(np.abs(np.tril(blk, -1)) <= 1e-11 * sc))
                    d = np.diag(blk)
                    dpos &= bool(np.all(np.abs(d.imag) <= 1e-11 * sc) and np.all(d.real >= -1e-11 * sc))
                e['verdicts'] = {'recon': bool((rec - ref).norm() <= TOL * nrm), 'isoQ': bool((QQ - yastn.eye(config=a.config, legs=QQ.get_legs()).diag()).norm() <= TOL * max(1, QQ.norm())) if len(QQ.struct.t) else True,
                                 'Rtriangular': tri, 'Rdiag_nonneg': dpos}
            elif op == 'eigh':
                S, U = yastn.linalg.eigh(a, axes=axes, sU=sg, Uaxis=Lax, which='LR' if rng.random() < 0.5 else 'SR')
                e['L'] = struct_obs(U, sym)
                e['R'] = {}
                e['S'], _, _ = spectrum_obs(S, sym)
                Um = U.moveaxis(source=Lax, destination=-1)
                nl = len(la)
                rec = yastn.tensordot(Um @ S, Um, axes=(nl, nl), conj=(0, 1))
                ref = a.transpose(axes=tuple(la + lb))
                UU = yastn.tensordot(Um, Um, axes=(tuple(range(nl)), tuple(range(nl))), conj=(1, 0))
                e['verdicts'] = {'recon': bool((rec - ref).norm() <= TOL * nrm), 'isoU': bool((UU - yastn.eye(config=a.config, legs=UU.get_legs()).diag()).norm() <= TOL * max(1, UU.norm())) if len(UU.struct.t) else True}
                e['spectrum'] = []
            elif op == 'eig':
                # general eigendecomposition a = U S V with V U = 1.  Whether the spectrum of a sector is degenerate is recorded: left and right eigenvectors of a
                # degenerate subspace are paired arbitrarily by LAPACK and the library only rescales the pairs (known finding)
                # (meta-fused legs are unfused first: fusing ((l3 l4) l5) and (l0 l1 l2) orders the basis of rows and columns differently, which would not be a similarity)
                am = a.transpose(axes=tuple(la + lb))
                nrow = sum(am.mfs[i][0] for i in range(len(la)))
                for _ in range(4):
                    mf = [i for i in range(am.ndim) if am.mfs[i][0] > 1]
                    if not mf:
                        break
                    am = am.unfuse_legs(axes=tuple(mf))
                am = am.fuse_legs(axes=(tuple(range(nrow)), tuple(range(nrow, am.ndim))), mode='hard')
                e['degenerate'] = False
                for t_ in am.get_blocks_charge():
                    w, vr = np.linalg.eig(np.asarray(am[t_]))
                    if len(w) > 1 and np.linalg.cond(vr) > 1e6:
                        # a defective (non-diagonalisable) or nearly defective sector, e.g. an integer Jordan block: no eigendecomposition a = U S U^-1 exists (or only a hopelessly
                        # ill-conditioned one), so the property claims nothing and the library's ValueError is the right answer; not an event (counted by the caller)
                        raise _Defective()
                    if len(w) > 1:
                        gaps = np.abs(w[:, None] - w[None, :]) + np.eye(len(w)) * 1e300
                        if float(np.min(gaps)) < 1e-6 * max(1.0, float(np.max(np.abs(w)))):
                            e['degenerate'] = True
                U, S, V = yastn.linalg.eig(a, axes=axes, sU=sg, nU=nU, Uaxis=Lax, Vaxis=Rax, which=rng.choice(('LM', 'LR', 'SR')))
                e['L'], e['R'] = struct_obs(U, sym), struct_obs(V, sym)
                e['S'], _, _ = spectrum_obs(S, sym)
                Um = U.moveaxis(source=Lax, destination=-1)
                Vm = V.moveaxis(source=Rax, destination=0)
                nl, nr = len(la), len(lb)
                rec = yastn.tensordot(Um @ S, Vm, axes=(nl, 0))
                ref = a.transpose(axes=tuple(la + lb))
                def flat(x):      # the two groups may be meta-fused differently (same native legs): contract over the native legs
                    for _ in range(4):
                        mf = [i for i in range(x.ndim) if x.mfs[i][0] > 1]
                        if not mf:
                            break
                        x = x.unfuse_legs(axes=tuple(mf))
                    return x
                Vf, Uf = flat(Vm), flat(Um)
                VU = yastn.tensordot(Vf, Uf, axes=(tuple(range(1, Vf.ndim)), tuple(range(Uf.ndim - 1))))
                e['verdicts'] = {'recon': bool((rec - ref).norm() <= 1e-8 * nrm),
                                 'biorthogonal_VU_is_identity': bool((VU - yastn.eye(config=a.config, legs=VU.get_legs()).diag()).norm() <= 1e-8 * max(1, VU.norm())) if len(VU.struct.t) else True}
                e['spectrum'] = []
        except YastnError as ex:
            e['out'] = 'YastnError'
            e['err'] = str(ex)[:80]
        except Machinery:
            raise
        except _Defective:
            R.defective = getattr(R, 'defective', 0) + 1
            continue
        except Exception as ex:  # noqa
            e['out'] = 'raised %s: %s' % (type(ex).__name__, str(ex)[:60])
        if op == 'svd' and spectrum is not None and e['out'] == 'ok' and len(la) == 1:
            e['spectrum'] = spectrum(e)
        for k in ('L', 'R', 'S'):
            e.setdefault(k, {})
        R.ev.append(e)


def program(args):
    sym, seed = args
    rng = random.Random(seed)
    mod = T.SYMS[sym]
    rank = rng.choice((2, 3, 3, 4))
    unis = universe_legs(sym, rng, rank)
    legs = [[(t, u[t]) for t in sorted(u)][:2 if rank == 4 else 3] for u in unis]
    s = [rng.choice((1, -1)) for _ in range(rank)]
    st = init_struct(sym, s, legs, rng, density=1.0)
    R = Runner(sym, seed, [st])
    a = 0
    factor_events(R, a, rng, sym)
    # lazily transposed / fused variants of the same operand
    if rank >= 2 and rng.random() < 0.8:
        p = list(range(rank))
        rng.shuffle(p)
        b = R.do({'op': 'transpose', 'a': a, 'p': p})
        if b is not None:
            factor_events(R, b, rng, sym)
            a = b
    if rank >= 3 and rng.random() < 0.8:
        from c03 import rand_parts
        parts = rand_parts(len(R.obs[a]['grp']), rng)
        c = R.do({'op': 'fuse', 'a': a, 'parts': parts, 'mode': rng.choice(('hard', 'meta'))})
        if c is not None and len(R.obs[c]['grp']) >= 2:
            if rng.random() < 0.5:
                q = list(range(len(R.obs[c]['grp'])))
                rng.shuffle(q)
                c2 = R.do({'op': 'transpose', 'a': c, 'p': q})
                c = c2 if c2 is not None else c
            factor_events(R, c, rng, sym)
    return R.trace()


def herm_program(args):
    """ Hermitian operands H = A A^+ of rank 4 (exact integers) whose left legs have different fusion histories, lazily permuted inside the
    groups, fused hard / meta: eigh (and svd / qr) must still return the documented structure """
    sym, seed = args
    rng = random.Random(seed)
    unis = universe_legs(sym, rng, 4)
    legs = [[(t, 1 if (T.SYMS[sym] and rng.random() < 0.75) else min(2, u[t])) for t in sorted(u)][:2] for u in unis]
    s = [rng.choice((1, -1)) for _ in range(4)]
    st = init_struct(sym, s, legs, rng, density=1.0, dtype='float64' if rng.random() < 0.7 else 'complex128')
    R = Runner(sym, seed, [st])
    if len(R.obs[0]['ent']) > 14:
        return R.trace()           # keep A A^+ small enough for the exact reference (<= ~200 elements)
    a = 0
    if rng.random() < 0.7:      # give the first left leg a fusion history
        a = R.do({'op': 'fuse', 'a': 0, 'parts': [[0, 1], [2], [3]], 'mode': rng.choice(('hard', 'hard', 'meta'))})
        if a is None:
            return R.trace()
    lr = len(R.obs[a]['grp'])            # 3 or 4; contract the last leg with its conjugate
    ac = R.do({'op': 'conj', 'a': a})
    if ac is None:
        return R.trace()
    h = R.do({'op': 'tensordot', 'a': a, 'b': ac, 'la': [lr - 1], 'lb': [lr - 1], 'conj': [0, 0]})
    if h is None or len(R.obs[h]['ent']) == 0:
        return R.trace()
    k = lr - 1                           # legs 0..k-1 and their conjugates k..2k-1
    factor_events(R, h, rng, sym, herm=True, halves=(range(k), range(k, 2 * k)))
    # lazy permutation inside both groups (the same on both sides keeps the operand Hermitian for the permuted bipartition)
    q = list(range(k))
    rng.shuffle(q)
    p = q + [k + x for x in q]
    hp = R.do({'op': 'transpose', 'a': h, 'p': p})
    if hp is not None:
        factor_events(R, hp, rng, sym, herm=True, halves=(range(k), range(k, 2 * k)))
        if k >= 2 and rng.random() < 0.7:
            hf = R.do({'op': 'fuse', 'a': hp, 'parts': [list(range(k)), list(range(k, 2 * k))], 'mode': rng.choice(('hard', 'meta'))})
            if hf is not None:
                factor_events(R, hf, rng, sym, herm=True, halves=([0], [1]))
    return R.trace()


def square_program(args):
    """ generic (non-Hermitian) square operands: legs (l_1 .. l_k, conj(l_1) .. conj(l_k)), zero charge, every allowed block stored, hash-valued integers - the spectrum of
    every sector is non-degenerate generically; lazily permuted inside the groups, fused hard / meta (both groups identically, as eig / eigh require): eig """
    sym, seed = args
    rng = random.Random(seed)
    k = rng.choice((1, 2, 2, 3))
    unis = universe_legs(sym, rng, k)
    legs = [[(t, min(2, u[t]) if k < 3 else 1) for t in sorted(u)][:2] for u in unis]
    s = [rng.choice((1, -1)) for _ in range(k)]
    st = init_struct(sym, s + [-x for x in s], legs + legs, rng, density=1.0, dtype='float64' if rng.random() < 0.7 else 'complex128')
    st['n'] = tuple(0 for _ in T.SYMS[sym])
    R = Runner(sym, seed, [st])
    if len(R.obs[0]['ent']) == 0 or len(R.obs[0]['ent']) > 200:
        return R.trace()
    halves = (range(k), range(k, 2 * k))
    factor_events(R, 0, rng, sym, herm=False, halves=halves, only=('eig', 'eig', 'svd'))
    q = list(range(k))
    rng.shuffle(q)
    hp = R.do({'op': 'transpose', 'a': 0, 'p': q + [k + x for x in q]})
    if hp is not None:
        factor_events(R, hp, rng, sym, herm=False, halves=halves, only=('eig', 'eig', 'svd'))
        if k >= 2:
            hf = R.do({'op': 'fuse', 'a': hp, 'parts': [list(range(k)), list(range(k, 2 * k))], 'mode': rng.choice(('hard', 'meta'))})
            if hf is not None:
                factor_events(R, hf, rng, sym, herm=False, halves=([0], [1]), only=('eig', 'eig', 'svd'))
        if k == 3:
            # partial, DIFFERENT-LOOKING grouping that eig supports: meta fusion of part of each group, applied to both groups alike or to one of them (same native legs)
            which = rng.choice(('both', 'left', 'right'))
            parts = ([[0, 1], [2]] if which in ('both', 'left') else [[0], [1], [2]]) + ([[3, 4], [5]] if which in ('both', 'right') else [[3], [4], [5]])
            hg = R.do({'op': 'fuse', 'a': hp, 'parts': parts, 'mode': 'meta'})
            if hg is not None:
                nl = 2 if which in ('both', 'left') else 3
                nr = 2 if which in ('both', 'right') else 3
                factor_events(R, hg, rng, sym, herm=False, halves=(range(nl), range(nl, nl + nr)), only=('eig', 'eig'))
    return R.trace()


def known_program(args):
    """ operands with prescribed integer singular values / eigenvalues per sector (exactly representable), complex or real """
    import yastn
    import c13
    sym, seed = args
    rng = random.Random(seed)
    cfg = T.make_config(sym)
    mod = T.SYMS[sym]
    nsec = rng.randint(1, 3) if mod else 1
    ch = []
    for _ in range(40):
        c = T.rand_charge(mod, rng, 2)
        if c not in ch and len(ch) < nsec:
            ch.append(c)
    ch = sorted(ch)
    sp = [sorted([rng.randint(0, 3) for _ in range(rng.randint(1, 3))], reverse=True) for _ in ch]
    herm = rng.random() < 0.3
    # c13.known_matrix builds U1-style matrices keyed by 1-component charges; generalise: block (c, c) for every charge c
    a = yastn.Tensor(config=cfg, s=(1, -1), dtype='complex128' if (rng.random() < 0.3 and not herm) else 'float64')
    for ci, (c, v) in enumerate(zip(ch, sp)):
        k = len(v)
        Dl = k + (0 if herm else (ci % 2))
        Dr = k + (0 if herm else ((ci + 1) % 2) * (k % 2))

        def iso(D):
            pp = rng.sample(range(D), k)
            m = np.zeros((D, k))
            for j, r in enumerate(pp):
                m[r, j] = rng.choice((-1.0, 1.0))
            if D >= 2 and k >= 2:
                Rm = np.eye(k)
                Rm[:2, :2] = [[0.6, -0.8], [0.8, 0.6]]
                m = m @ Rm
            return m
        P = iso(Dl)
        Q = P.T if herm else iso(Dr).T
        blk = P @ np.diag(np.array(v, dtype=np.float64)) @ Q
        if a.yastn_dtype == 'complex128':
            blk = blk * (0.6 + 0.8j)
        if mod:
            a.set_block(ts=c + c, Ds=(Dl, Dr), val=blk)
        else:
            a.set_block(Ds=(Dl, Dr), val=blk)
    # register through the Runner machinery: the operand itself is not integer-valued, so it is registered by structure only
    R = Runner.__new__(Runner)
    R.sym, R.knob = sym, {'fusion': 'hard', 'force': None, 'policy': 'fuse_to_matrix'}
    R.regs, R.obs = [a], [struct_obs(a, sym)]
    R.ev = [{'op': 'init', 'obs': R.obs[0]}]
    R.prog = T.Prog(sym, False, [], [], seed)
    rowof = {c: i for i, c in enumerate(ch)}

    def spectrum(e):
        # sectors of S sorted by the charge of the connecting leg; map back through NewT: t = sg * (nL - c) with nL = 0 (n = 0)
        out = []
        tmap = sorted(((tuple(-e['sg'] * x for x in c) if mod else ()), i) for c, i in rowof.items())
        tmap = sorted(((T.canon(mod, t), i) for t, i in tmap))
        for t, i in tmap:
            k = len(sp[i])
            out.append(sp[i])
        return out
    factor_events(R, 0, rng, sym, spectrum=spectrum, herm=herm)
    return R.trace()


def main(tier, seed, replay=None):
    rep = Report('C04', tier, seed, 'model_checking')
    if replay:
        rep.write_evidence = False
    rep.cov['rule'] = ('svd / qr / eigh events over (operand structure x lazily transposed x fused hard/meta x bipartition and order x sU/sQ x nU x Uaxis/Vaxis/Qaxis/Raxis); operands store every '
                       'allowed block; hash-valued integer operands (structure + measured clauses) and operands with prescribed integer spectra per sector (rectangular sectors, rank deficient, '
                       'degenerate, complex); non-trivial = factorisation event of an operand with >= 1 block')
    n = 240 if tier == 'quick' else 4000
    jobs = [(SYMLIST[i % 7], seed * 1000151 + i) for i in range(n)]
    kjobs = [(SYMLIST[i % 7], seed * 1000171 + i) for i in range(n // 2)]
    with ProcessPoolExecutor(max_workers=14) as ex:
        traces = list(ex.map(program, jobs, chunksize=4)) + list(ex.map(known_program, kjobs, chunksize=4)) + list(ex.map(herm_program, kjobs, chunksize=4)) + list(ex.map(square_program, kjobs, chunksize=4))
    nev, kinds, rej = report_traces(rep, traces)
    # eig on a sector with a degenerate spectrum: known finding (matched by signature); anything else about eig stays a violation
    vio, rep.violations = rep.violations, []
    for sig, what, payload in vio:
        ea = payload.get('event_args') or {}
        if ea.get('op') == 'eig' and ea.get('degenerate'):
            rep.violation('eig:degenerate-spectrum:%s' % payload.get('sym'), what, payload)
        else:
            rep.violations.append((sig, what, payload))
    if not replay:
        from vlib import negative_controls
        def c_verdict(e):
            if e['op'] in ('svd', 'qr', 'eigh', 'eig') and e['out'] == 'ok' and isinstance(e.get('verdicts'), dict) and e['verdicts'] and all(e['verdicts'].values()):
                k = sorted(e['verdicts'])[0]
                e['verdicts'][k] = False
                return True
        def c_axis(e):
            if e['op'] == 'svd' and e['out'] == 'ok' and e['L'].get('s') and len(e['L']['s']) >= 2:
                e['L']['s'] = [-v for v in e['L']['s']]           # factor U with flipped signatures
                return True
        rep.cov['parts']['negative_controls_rejected'] = negative_controls('TraceTensor', 'TraceTensor.cfg', traces, [('a measured clause is false', c_verdict), ('signatures of U flipped', c_axis)], timeout=900, mem='3g')
    fe = [e for t in traces for e in t['ev'] if e['op'] in ('svd', 'qr', 'eigh', 'eig')]
    rep.cov['traces_validated_against_impl'] = len(traces)
    rep.cov['evaluations'] = nev
    rep.cov['distinct_nontrivial'] = sum(1 for e in fe if e['out'] == 'ok' and e['L'].get('raw', {}).get('t'))
    rep.cov['parts']['eig_skipped_on_defective_sectors (no eigendecomposition exists: not a claim)'] = sum(t.get('skipped_defective', 0) for t in traces)
    rep.cov['parts'].update({'events_by_op': kinds, 'factorisations': len(fe), 'with_prescribed_spectrum': sum(1 for e in fe if e['spectrum']),
                             'on_fused_or_lazy_operands': sum(1 for t in traces for i, e in enumerate(t['ev']) if e['op'] in ('svd', 'qr', 'eigh', 'eig') and e['a'] > 1),
                             'tolerance_named_in_check': TOL})
    rep.sample({k: v for k, v in fe[len(fe) // 2].items() if k not in ('L', 'R')})
    rep.assumptions += ['reconstruction, (co-)isometry, ordering and triangularity are floating-point facts measured by the harness at %g (relative); TLC decides structure and spectra' % TOL,
                        'eig (non-Hermitian) and the low-rank policies are not covered yet', 'operands store every symmetry-allowed block (the dimension of the new leg depends on stored blocks otherwise)']
    return rep.finish()
