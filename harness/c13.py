"""C13 — truncation keeps exactly the largest weights and reports the true error.

 1. TruncationMC: TLC explores every (spectrum, options) of the bound through the two nondeterministic selection
    stages and checks I_Limits, I_TopBlock, I_TopGlobal, I_Maximal, I_TiesOnly, I_NonBinding, I_Weight on every final mask.
 2. I->S, one implementation test per spec input: the real truncation_mask is called on each (spectrum, options) and
    TLC (TraceTruncation) requires the returned mask to be in Admissible(sp, o).
 3. svd_with_truncation / eigh_with_truncation on operands with prescribed integer spectra: kept spectrum per sector
    and the squared reconstruction error must be an admissible outcome.
"""
from __future__ import annotations
import itertools
import random
import numpy as np
from vlib import Report, tlc_ok, validate_traces, Machinery

INF, MISSING = -1, -2
TOLS = [(0, 1), (1, 3), (1, 2), (1, 1)]


def sec_vals(maxlen, maxval, sorted_only):
    out = []
    for n in range(1, maxlen + 1):
        for v in itertools.product(range(maxval + 1), repeat=n):
            if not sorted_only or all(v[i] >= v[i + 1] for i in range(n - 1)):
                out.append(list(v))
    return out


def opts_for(n):
    """ mirror of TruncationMC!OptsFor """
    dbs = [[d] * n for d in (0, 1, 2, INF)] + [[d] + [MISSING] * (n - 1) for d in (1, 2)] + [[MISSING] * (n - 1) + [1]]
    tbs = [[t] * n for t in TOLS if t != (1, 3)] + [[(1, 2)] + [(-1, 1)] * (n - 1)]
    seen = set()
    for dt in (0, 1, 2, 3, 5, INF):
        for t in TOLS:
            for db in dbs:
                for tb in tbs:
                    key = (dt, t, tuple(db), tuple(tb))
                    if key not in seen:
                        seen.add(key)
                        yield {'Dtot': dt, 'Dblk': list(db), 'tol': list(t), 'tolb': [list(x) for x in tb]}


def charges(n):
    return [(-1,), (0,), (2,)][:n] if n <= 3 else [(k,) for k in range(n)]


def kwargs_of(o, ch):
    kw = {'D_total': float('inf') if o['Dtot'] == INF else o['Dtot'], 'tol': o['tol'][0] / o['tol'][1]}
    db = o['Dblk']
    if MISSING in db or len(set(db)) > 1:
        kw['D_block'] = {c: (float('inf') if d == INF else d) for c, d in zip(ch, db) if d != MISSING}
    else:
        kw['D_block'] = float('inf') if db[0] == INF else db[0]
    tb = o['tolb']
    if any(t[0] < 0 for t in tb) or len(set(map(tuple, tb))) > 1:
        kw['tol_block'] = {c: t[0] / t[1] for c, t in zip(ch, tb) if t[0] >= 0}
    else:
        kw['tol_block'] = tb[0][0] / tb[0][1]
    return kw


def make_S(cfg, sp, ch):
    import yastn
    S = yastn.Tensor(config=cfg, s=(1, -1), isdiag=True)
    for c, v in zip(ch, sp):
        S.set_block(ts=c, Ds=len(v), val=np.array(v, dtype=np.float64))
    return S


def mask_events(tier, seed, rep):
    import yastn
    cfg = yastn.make_config(sym='U1')
    rng = random.Random(seed)
    if tier == 'quick':
        spectra = [[v] for v in sec_vals(3, 2, True)] + [[v, w] for v in sec_vals(3, 2, True) for w in sec_vals(3, 2, True)]
        keep = 0.34
    else:
        sv = sec_vals(3, 3, True)
        spectra = [[v] for v in sec_vals(3, 3, False)] + [[v, w] for v in sv for w in sv] + \
                  [[u, v, w] for u in sec_vals(2, 2, False) for v in sec_vals(2, 2, False) for w in sec_vals(2, 2, False)]
        keep = 1.0
    evs = []
    for sp in spectra:
        ch = charges(len(sp))
        S = make_S(cfg, sp, ch)
        for o in opts_for(len(sp)):
            if keep < 1 and rng.random() > keep:
                continue
            kw = kwargs_of(o, ch)
            M = yastn.linalg.truncation_mask(S, **kw)
            mask = [[bool(x) for x in M[c + c]] for c in ch]
            evs.append({'op': 'mask', 'sp': sp, 'o': o, 'mask': mask})
    return evs


def known_matrix(cfg, sp, ch, rng, herm=False, dtype='float64'):
    """ block matrix with exactly the prescribed singular values (eigenvalues if herm): P diag(sigma) Q per sector """
    import yastn
    a = yastn.Tensor(config=cfg, s=(1, -1), dtype=dtype)
    for ci, (c, v) in enumerate(zip(ch, sp)):
        k = len(v)
        Dl = k + (0 if herm else (ci % 2))
        Dr = k + (0 if herm else ((ci + 1) % 2) * (k % 2))

        def iso(D):
            p = rng.sample(range(D), k)
            m = np.zeros((D, k))
            for j, r in enumerate(p):
                m[r, j] = rng.choice((-1.0, 1.0))
            if D >= 2 and k >= 2:   # mix two columns by an exact rotation with rational entries (3,4,5)
                R = np.eye(k)
                R[:2, :2] = [[0.6, -0.8], [0.8, 0.6]]
                m = m @ R
            return m
        P = iso(Dl)
        Q = P.T if herm else iso(Dr).T
        blk = P @ np.diag(np.array(v, dtype=np.float64)) @ Q
        if dtype == 'complex128' and not herm:
            blk = blk * (0.6 + 0.8j)
        a.set_block(ts=c + c, Ds=(Dl, Dr), val=blk)
    return a


def dec_events(tier, seed, rep):
    import yastn
    cfg = yastn.make_config(sym='U1')
    rng = random.Random(seed + 1)
    # decompositions run in floating point: spectra avoid exact zeros and tolerances avoid exact boundaries v = tol * max,
    # where round-off (1e-16) legitimately decides; zeros and boundaries are covered exactly by the mask events above.
    sv = [v for v in sec_vals(3, 3, True) if min(v) >= 1]
    spectra = [[v] for v in sv] + [[v, w] for v in sv for w in sv if rng.random() < (0.15 if tier == 'quick' else 1.0)]
    dtols = [(0, 1), (2, 5), (3, 5), (9, 10)]
    evs = []
    marginal = 0
    for sp in spectra:
        ch = charges(len(sp))
        opts = list(opts_for(len(sp)))
        for o in rng.sample(opts, 6 if tier == 'quick' else 40):
            o = dict(o, tol=list(rng.choice(dtols)), tolb=[list(rng.choice(dtols)) if t[0] >= 0 else t for t in o['tolb']])
            if len(set(map(tuple, o['tolb']))) > 1 and not any(t[0] < 0 for t in o['tolb']):
                pass  # becomes a complete dictionary: fine
            which = rng.choice(['svd', 'svd3', 'svdc', 'eigh'])
            if len(sp) == 2 and rng.random() < 0.3:
                o['Dblk'] = rng.choice([[1, 2], [2, 1], [1, INF], [3, 1], [2, 3]])     # a dictionary with DIFFERENT limits in the two sectors
            # partial-SVD policy: only k = D_block[sector] triples are computed per block before the mask is applied, so the dictionary lookup of svd() itself matters
            # (the library states its precondition: 'lowrank policy in svd requires passing argument D_block', i.e. some finite limit)
            policy = rng.choice(('lowrank', 'lowrank', 'block_arnoldi', 'block_propack')) if which != 'eigh' and rng.random() < 0.5 and any(d not in (INF, MISSING) for d in o['Dblk']) else 'fullrank'
            sU, nU = rng.choice((1, -1)), rng.choice((True, False))
            # charge of the new (spectrum) leg for the sector with row charge c: dictionary options are keyed by it
            shift = 1 if (which == 'svd3' and not nU) else 0
            chS = [(-sU * (c[0] + shift),) for c in ch]
            kw = kwargs_of(o, chS)
            try:
                wh = None
                if which == 'eigh':
                    a = known_matrix(cfg, sp, ch, rng, herm=True)
                    wh = rng.choice(['LR', 'LM', 'SM', 'SR'])
                    if wh in ('SM', 'SR'):
                        # smallest magnitude / smallest real part first: the library asks for tol = tol_block = -inf there; only the D limits bind
                        kw = dict(kw, tol=-float('inf'), tol_block=-float('inf'))
                    S, U = yastn.linalg.eigh_with_truncation(a, axes=(0, 1), sU=sU, which=wh, **kw)
                    rec = U @ S @ U.H
                    ref = a
                else:
                    a = known_matrix(cfg, sp, ch, rng, dtype='complex128' if which == 'svdc' else 'float64')
                    ref = a
                    if which == 'svd3':   # rank-3 operand with non-zero total charge; sectors of the spectrum are unchanged
                        ref = a.add_leg(axis=0, s=1, t=(1,))
                        U, S, V = yastn.linalg.svd_with_truncation(ref, axes=((0, 1), 2), sU=sU, nU=nU, policy=policy, **kw)
                        rec = yastn.tensordot(U @ S, V, axes=(2, 0))
                    else:
                        U, S, V = yastn.linalg.svd_with_truncation(a, axes=(0, 1), sU=sU, policy=policy, **kw)
                        rec = U @ S @ V
            except Exception as e:  # noqa
                rep.violation('dec-raise:%s:%s' % (which, type(e).__name__), '%s_with_truncation raised %s on sp=%s opts=%s' % (which, type(e).__name__, sp, o),
                              {'op': which, 'sp': sp, 'o': o})
                continue
            # map every S sector back to the sector of the input through U's blocks (row charge <-> new-leg charge)
            row_ax = 1 if which == 'svd3' else 0
            t2c = {}
            for bt in U.get_blocks_charge():
                t2c[bt[-1]] = bt[row_ax]
            kept = [[] for _ in sp]
            okround = True
            for t in S.get_blocks_charge():
                vals = np.abs(np.asarray(S[t]))
                okround &= all(abs(float(x) - round(float(x))) < 1e-8 for x in vals)
                ci = [c[0] for c in ch].index(t2c[t[0]]) if t[0] in t2c and t2c[t[0]] in [c[0] for c in ch] else None
                if ci is None:
                    okround = False
                else:
                    kept[ci] = sorted((int(round(float(x))) for x in vals), reverse=True)
            e2 = float((ref - rec).norm()) ** 2
            err2 = int(round(e2)) if abs(e2 - round(e2)) < 1e-6 else -1
            if 1e-9 < abs(e2 - round(e2)) < 1e-6:
                marginal += 1
            if not okround:
                err2 = -2   # a kept singular value is not the prescribed integer / sector mismatch: rejected by the trace spec
            if wh in ('SM', 'SR'):
                # the selection rule is applied to the weights -|v| (SM) / -v (SR): in the model an order-reversing integer map v -> 9 - v of the (positive) spectrum with
                # non-binding tolerances; kept values and the discarded weight are translated the same way, the real reconstruction error is checked against the sum of
                # the discarded squares here
                disc = []
                for c_, sec in enumerate(sp):
                    rest = list(sec)
                    for x in kept[c_]:
                        if x in rest:
                            rest.remove(x)
                        else:
                            okround = False
                    disc += rest
                true_ok = okround and abs(e2 - sum(x * x for x in disc)) < 1e-6
                evs.append({'op': which, 'which': wh, 'sp': [[9 - v for v in sec] for sec in sp], 'o': dict(o, tol=[0, 1], tolb=[[0, 1] for _ in sp]),
                            'kept': [sorted((9 - x for x in k_), reverse=True) for k_ in kept], 'err2': sum((9 - x) ** 2 for x in disc) if true_ok else -1, 'sU': sU, 'nU': nU})
                continue
            evs.append({'op': which, 'sp': sp, 'o': o, 'kept': kept, 'err2': err2, 'sU': sU, 'nU': nU, 'policy': policy})
    rep.cov['parts']['marginal_error_roundings'] = marginal
    rep.cov['parts']['decompositions_by_kind'] = {k: sum(1 for e in evs if e['op'] + ':' + e.get('which', e.get('policy', '')) == k) for k in sorted({e['op'] + ':' + e.get('which', e.get('policy', '')) for e in evs})}
    rep.cov['parts']['decompositions_with_different_limits_per_sector'] = sum(1 for e in evs if len({d for d in e['o']['Dblk'] if d != MISSING}) > 1)
    return evs


def main(tier, seed, replay=None):
    rep = Report('C13', tier, seed, 'model_checking')
    if replay:
        rep.write_evidence = False
    rep.cov['rule'] = ('inputs = (integer spectrum over <=3 charge sectors with degenerate values, zeros, single-element sectors) x (D_total, D_block scalar/dict with '
                       'missing keys, tol, tol_block scalar/dict) grid of Truncation.tla; each input is one call of the real truncation_mask whose mask TLC checks for '
                       'membership in Admissible(sp, o); decompositions use operands with prescribed integer spectra. non-trivial = distinct (spectrum, options) input')
    if replay:
        import json
        c = json.load(open(replay))['case']
        evs = [c['event_input']]
        import yastn
        cfg = yastn.make_config(sym='U1')
        ch = charges(len(c['event_input']['sp']))
        S = make_S(cfg, c['event_input']['sp'], ch)
        M = yastn.linalg.truncation_mask(S, **kwargs_of(c['event_input']['o'], ch))
        ev = dict(c['event_input'], op='mask', mask=[[bool(x) for x in M[q + q]] for q in ch])
        acc, diag, _ = validate_traces('TraceTruncation', 'TraceTruncation.cfg', [{'ev': [ev]}], shards=1)
        if not acc[0]:
            rep.violation('replay', diag[0], c)
        rep.cov['evaluations'] = rep.cov['distinct_nontrivial'] = 1
        return rep.finish()
    r = tlc_ok('TruncationMC', 'TruncationMC_%s.cfg' % tier, workers=16, timeout=3000, mem='10g')
    rep.add_tlc('TruncationMC (selection rule, all invariants, exhaustive in bound)', r)
    evs = mask_events(tier, seed, rep)
    nm = len(evs)
    devs = dec_events(tier, seed, rep)
    allev = evs + devs
    traces = [{'ev': allev[i:i + 400]} for i in range(0, len(allev), 400)]
    acc, diag, res = validate_traces('TraceTruncation', 'TraceTruncation.cfg', traces, shards=16, timeout=3000, mem='3g')
    nrej = 0
    for t, rj in zip(traces, validate_traces.last_rejects):
        for l, why in rj:
            e = t['ev'][l - 1]
            nrej += 1
            sig = '%s:sp=%s:o=%s' % (e['op'], e['sp'], e['o'])
            rep.violation(sig, '%s on spectrum %s with options %s: %s' % (e['op'], e['sp'], e['o'], why[:700]), {'op': e['op'], 'event_input': {'sp': e['sp'], 'o': e['o']}, 'observed': e})
    if any((not a) and not rj for a, rj in zip(acc, validate_traces.last_rejects)):
        raise Machinery('a truncation trace was neither accepted nor rejected with a diagnostic')
    rep.cov['traces_validated_against_impl'] = len(allev)
    rep.cov['parts'].update({'mask_calls': nm, 'decomposition_calls': len(devs), 'rejected_events': nrej})
    binding = sum(1 for e in evs if not all(all(m) for m in e['mask']))
    rep.cov['parts']['mask_calls_where_truncation_binds'] = binding
    rep.cov['parts']['mask_calls_with_ties_at_cut'] = sum(1 for e in evs if any(len(set(v)) < len(v) for v in e['sp']))
    rep.sample(evs[len(evs) // 3])
    rep.sample(evs[2 * len(evs) // 3])
    if devs:
        rep.sample(devs[len(devs) // 2])
    # negative control: flip one mask bit of a binding case -> must be rejected
    import copy
    cand = [e for e in evs if e['o']['Dtot'] == 1 and sum(len(v) for v in e['sp']) >= 3 and e['sp'][0][0] > e['sp'][0][-1]]
    if cand:
        bad = copy.deepcopy(cand[0])
        bad['mask'] = [[not x for x in m] for m in bad['mask']]
        a2, d2, _ = validate_traces('TraceTruncation', 'TraceTruncation.cfg', [{'ev': [bad]}], shards=1)
        if a2[0]:
            raise Machinery('negative control: inverted mask accepted')
        rep.cov['parts']['negative_control'] = 'inverted mask rejected'
    rep.cov['evaluations'] = len(allev)
    rep.cov['distinct_nontrivial'] = len({(str(e['sp']), str(e['o']), e['op']) for e in allev})
    rep.cov['exhaustive'] = (tier == 'thorough')
    rep.assumptions += ['U1 symmetry for the sector structure (the rule does not depend on the group)', 'spectra are small integers; tolerances 0, 1/3, 1/2, 1',
                        'quick tier validates a seeded 34% sample of the input grid against the code (the design check is exhaustive)']
    return rep.finish()
