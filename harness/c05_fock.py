"""fkron vs the CAR representation (Fock.tla): part (c) of C05, reused by C07/C11 for local-basis <-> occupation translation."""
from __future__ import annotations
import itertools
import random
import numpy as np
from vlib import validate_traces, tlc_ok, Machinery


def family(kind, sym):
    import yastn.operators as yo
    if kind == 'spinless':
        ops = yo.SpinlessFermions(sym=sym)
        named = {'I': ops.I(), 'n': ops.n(), 'c': ops.c(), 'cp': ops.cp()}
        numbers = [ops.n()]
    else:
        ops = yo.SpinfulFermions(sym=sym) if kind != 'tJ' else yo.SpinfulFermions_tJ(sym=sym)     # tJ: the same operators on the 3-dimensional space without double occupancy
        named = {'I': ops.I(), 'nu': ops.n('u'), 'nd': ops.n('d'), 'cu': ops.c('u'), 'cd': ops.c('d'), 'cpu': ops.cp('u'), 'cpd': ops.cp('d')}
        named['Sp'] = ops.cp('u') @ ops.c('d')
        named['Sm'] = ops.cp('d') @ ops.c('u')
        numbers = [ops.n('u'), ops.n('d')]
    return ops, named, numbers


def occupation_map(numbers, nsym):
    """ local basis label (t, i) -> tuple of occupations, read from the diagonals of the library's number operators """
    occ = {}
    for a, nop in enumerate(numbers):
        for t in nop.get_blocks_charge():
            blk = np.asarray(nop[t])
            tt = tuple(t[:nsym])
            if t[:nsym] != t[nsym:] or np.abs(blk - np.diag(np.diag(blk))).max() > 0:
                raise Machinery('number operator is not diagonal in the local basis')
            for i, v in enumerate(np.diag(blk)):
                occ.setdefault((tt, i), [0] * len(numbers))[a] = int(round(float(v)))
    return occ


def label_occ(occ, numbers, leg):
    """ all labels of a leg -> occupations (labels not seen in any number operator have all occupations 0) """
    out = {}
    for t, D in zip(leg.t, leg.D):
        for i in range(D):
            out[(tuple(t), i)] = tuple(occ.get((tuple(t), i), [0] * len(numbers)))
    if len(set(out.values())) != len(out):
        raise Machinery('number operators do not distinguish the local basis states')
    return out


def dense_entries(T, nsites, locc, nm):
    """ entries of an operator tensor with legs (out0, in0, out1, in1, ...) as [[out modes], [in modes], value] """
    nsym = T.config.sym.NSYM
    ent = []
    for t in T.get_blocks_charge():
        blk = np.asarray(T[t])
        ts = [tuple(t[k * nsym:(k + 1) * nsym]) for k in range(2 * nsites)]
        for idx in zip(*np.nonzero(blk)):
            v = blk[idx]
            if abs(v - round(float(np.real(v)))) > 1e-12:
                raise Machinery('non-integer element in fkron result')
            outm, inm = [], []
            for k in range(nsites):
                oo = locc[(ts[2 * k], int(idx[2 * k]))]
                ii = locc[(ts[2 * k + 1], int(idx[2 * k + 1]))]
                outm += [k * nm + a + 1 for a in range(nm) if oo[a]]
                inm += [k * nm + a + 1 for a in range(nm) if ii[a]]
            ent.append([outm, inm, int(round(float(np.real(v))))])
    return ent


def run(rep, tier, seed):
    import yastn
    from yastn import YastnError
    r = tlc_ok('FockMC', 'FockMC.cfg', workers=4, timeout=600)
    rep.add_tlc('FockMC (CAR on all basis states, 4 modes)', r)
    rng = random.Random(seed + 5)
    evs = []
    fams = [('spinless', 'Z2'), ('spinless', 'U1'), ('spinful', 'Z2'), ('spinful', 'U1'), ('spinful', 'U1xU1'), ('spinful', 'U1xU1xZ2')]
    for kind, sym in fams:
        ops, named, numbers = family(kind, sym)
        nsym = ops.config.sym.NSYM
        nm = len(numbers)
        locc = label_occ(occupation_map(numbers, nsym), numbers, ops.space())
        names = list(named)
        for k in (1, 2, 3):
            combos = list(itertools.product(names, repeat=k))
            if kind == 'spinful' and k == 3:
                combos = rng.sample(combos, 60 if tier == 'quick' else 400)
            elif kind == 'spinful' and k == 2 and tier == 'quick':
                combos = rng.sample(combos, 40)
            for combo in combos:
                perms = list(itertools.permutations(range(k)))
                for sites in perms:
                    for app in [None] + (perms if (tier != 'quick' or rng.random() < 0.35) else []):
                        try:
                            T = yastn.fkron(*[named[x] for x in combo], sites=list(sites) if (sites != tuple(range(k)) or rng.random() < 0.5) else None,
                                            application_order=None if app is None else list(app))
                            out, ent = 'ok', dense_entries(T, k, locc, nm)
                        except YastnError:
                            out, ent = 'YastnError', []
                        except Machinery:
                            raise
                        except Exception as ex:  # noqa
                            out, ent = 'raised ' + type(ex).__name__, []
                        evs.append({'op': 'fkron', 'family': kind, 'sym': sym, 'nm': nm, 'ferm': ['species' if sym == 'U1xU1' else 'all', nm], 'ops': list(combo), 'sites': list(sites),
                                    'app': [] if app is None else list(app), 'out': out, 'ent': ent})
    traces = [{'ev': evs[i:i + 150]} for i in range(0, len(evs), 150)]
    acc, diag, res = validate_traces('TraceFock', 'TraceFock.cfg', traces, shards=16, timeout=3000)
    for t, rj in zip(traces, validate_traces.last_rejects):
        for l, why in rj:
            e = t['ev'][l - 1]
            rep.violation('fkron:%s:%s:%s:sites=%s:app=%s' % (e['family'], e['sym'], ','.join(e['ops']), e['sites'], e['app']),
                          'fkron(%s, sites=%s, application_order=%s) in %s %s: %s' % (e['ops'], e['sites'], e['app'] or None, e['family'], e['sym'], why[:500]),
                          {'op': 'fkron', 'family': e['family'], 'sym': e['sym'], 'ops': e['ops'], 'sites': e['sites'], 'app': e['app']})
    if any((not a) and not rj for a, rj in zip(acc, validate_traces.last_rejects)):
        raise Machinery('fkron trace neither accepted nor rejected')
    rep.cov['states'] += sum(x.distinct for x in res)
    rep.cov['transitions'] += sum(x.generated for x in res)
    rep.cov['evaluations'] += len(evs)
    rep.cov['distinct_nontrivial'] += sum(1 for e in evs if e['ent'])
    rep.cov['traces_validated_against_impl'] += len(traces)
    rep.cov['parts']['fkron_calls'] = len(evs)
    rep.sample({'fkron': {k: v for k, v in evs[len(evs) // 2].items()}})
    # negative control
    import copy
    cand = next((e for e in evs if e['ent'] and len(e['ops']) == 2 and 'c' in e['ops'][0]), None)
    if cand:
        bad = copy.deepcopy(cand)
        bad['ent'][0][2] *= -1
        a2, _, _ = validate_traces('TraceFock', 'TraceFock.cfg', [{'ev': [bad]}], shards=1)
        if a2[0]:
            raise Machinery('negative control: fkron with a flipped sign accepted')
        rep.cov['parts']['fkron_negative_control'] = 'flipped sign rejected'
