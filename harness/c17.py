"""C17 — serialisation round-trips every object exactly.

Serialize.tla explores ALL routes (to_dict at level 0..2 with/without resolve_ops, older-generation dict without 'trans', split/combine
any number of times, numpy save/load, legacy save_to_dict, HDF5, from_dict with config none/same/other symmetry/other statistics) to a
depth, for tensors, MPS, MPO and PEPS, and emits one case per terminal state.  Each case is replayed on real objects of several variants
(diagonal, hard/meta/nested fused, lazily transposed, empty, complex; MPS with/without central block; PEPS on every lattice type) and
TLC (TraceSerialize) compares what happened with what the route implies.  to_dict(meta=) is checked as a linear, norm-preserving map.
"""
from __future__ import annotations
import io
import os
import random
import tempfile
import numpy as np
from vlib import Report, validate_traces, tlc_ok, Machinery, scratch
import tensors as T
from c16 import dig, tensor_digest


# ------------------------------------------------------------------ objects
def tensor_variants(rng):
    import yastn
    out = []
    for sym, ferm in (('U1', False), ('Z2', True), ('Z2xU1', (True, False)), ('dense', False), ('Z3', False)):
        cfg = T.make_config(sym, ferm)
        mod = T.SYMS[sym]
        lg = [T.rand_leg_space(sym, rng, maxsec=2) for _ in range(4)]

        def mk(rank, dtype='float64', density=0.9, diag=False, seed=0):
            s = [1, -1, 1, -1][:rank]
            legs = lg[:rank] if not diag else [lg[0], lg[0]]
            n = rng.choice(T.admissible_charges(sym, s, legs)) if not diag else tuple(0 for _ in mod)
            return T.build_tensor(cfg, sym, s, legs, n, random.Random(rng.randrange(1 << 30)), density=density, dtype=dtype, isdiag=diag)
        a = mk(4)
        out.append(('plain', sym, ferm, mk(3)))
        out.append(('complex', sym, ferm, mk(3, dtype='complex128')))
        if mod:
            out.append(('diag', sym, ferm, mk(2, diag=True)))
        out.append(('hard', sym, ferm, a.fuse_legs(axes=((0, 2), 1, 3), mode='hard')))
        out.append(('meta', sym, ferm, a.fuse_legs(axes=((1, 3), (0, 2)), mode='meta')))
        out.append(('nested', sym, ferm, a.fuse_legs(axes=((0, 1), 2, 3), mode='hard').fuse_legs(axes=((0, 1), 2), mode='hard').fuse_legs(axes=((1, 0),), mode='meta')))
        out.append(('meta-inorder', sym, ferm, a.fuse_legs(axes=((0, 1), (2, 3)), mode='meta')))      # meta fusion WITHOUT a pending permutation (fewer logical than native legs)
        out.append(('meta-partial', sym, ferm, a.fuse_legs(axes=(0, (1, 2), 3), mode='meta')))
        if sym in ('U1', 'dense'):
            # real data in a configuration whose default dtype is complex (e.g. singular values of a complex matrix): the dtype belongs to the data, not to the configuration
            ccfg = yastn.make_config(sym=T.sym_class(sym), fermionic=ferm, default_dtype='complex128')
            legs = lg[:3]
            out.append(('real-in-complex-config', sym, ferm, T.build_tensor(ccfg, sym, [1, -1, 1], legs, rng.choice(T.admissible_charges(sym, [1, -1, 1], legs)), random.Random(rng.randrange(1 << 30)), density=0.9, dtype='float64')))
        out.append(('empty', sym, ferm, yastn.Tensor(config=cfg, s=(1, -1, 1), n=tuple(1 for _ in mod) if mod else None)))
        out.append(('scalar', sym, ferm, mk(0, density=1.0)))
    return out


def other_cfgs(sym, ferm):
    osym = 'Z3' if sym != 'Z3' else 'U1'
    if sym in ('Z2xU1',):
        osym = 'U1xU1'
    oferm = (not ferm) if isinstance(ferm, bool) else True
    if not T.SYMS[sym]:
        return T.make_config('Z2', False), T.make_config(sym, True)
    return T.make_config(osym, ferm if len(T.SYMS[osym]) == len(T.SYMS[sym]) or isinstance(ferm, bool) else False), T.make_config(sym, oferm)


def mps_variants(rng):
    import yastn
    import yastn.tn.mps as mps
    out = []
    for sym in ('U1', 'Z3', 'dense'):
        ops = yastn.operators.Spin1(sym=sym)
        ops.config.backend.random_seed(rng.randrange(1000))
        I = mps.product_mpo(ops.I(), 4)
        psi = mps.random_mps(I, D_total=5, dtype='complex128' if sym == 'Z3' else 'float64')
        out.append(('Mps', 'plain', sym, psi))
        phi = psi.copy()
        phi.canonize_(to='last', normalize=False)
        phi.orthogonalize_site_(2, to='first')
        out.append(('Mps', 'central', sym, phi))
        chi = 0.5 * psi
        out.append(('Mps', 'factor', sym, chi))
        out.append(('Mpo', 'plain', sym, mps.random_mpo(I, D_total=4)))
        # periodic MPO (only the dictionary formats: the deprecated save_to_dict / hdf5 are not offered for it)
        Hp = mps.Mpo(4, periodic=True)
        Ho = mps.random_mpo(I, D_total=4)
        for n in range(4):
            Hp[n] = Ho[n]
        Hp.factor = 0.5
        out.append(('MpoPBC', 'factor', sym, Hp))
    return out


def peps_variants(rng):
    import yastn
    import yastn.tn.fpeps as fp
    out = []
    for sym in ('U1', 'Z2'):
        ops = yastn.operators.SpinlessFermions(sym=sym)
        geos = {'sq_obc': fp.SquareLattice(dims=(2, 3), boundary='obc'), 'sq_inf': fp.SquareLattice(dims=(3, 2), boundary='infinite'),
                'sq_cyl': fp.SquareLattice(dims=(3, 2), boundary='cylinder'), 'checker': fp.CheckerboardLattice(),
                'rect': fp.RectangularUnitcell(pattern=[[0, 1, 2], [1, 2, 0], [2, 0, 1]]), 'tri3': fp.TriangularLattice(),
                'trifull': fp.TriangularLattice(dims=(2, 3), boundary='obc', full_patch=True)}
        for nm, g in geos.items():
            psi = fp.product_peps(g, {s: ops.vec_n((s[0] + 2 * s[1] + (sym == 'Z2')) % 2) for s in g.sites()})
            out.append(('Peps', nm, sym, psi))
    return out


def env_variants(rng):
    """ environments of a small entangled PEPS after a few updates (non-trivial environment tensors, projectors, boundary MPS with info) """
    import yastn
    import yastn.tn.fpeps as fp
    out = []
    for sym in ('U1', 'Z2'):
        ops = yastn.operators.SpinlessFermions(sym=sym)
        ops.config.backend.random_seed(rng.randrange(1000))
        for nm, g in (('sq_obc', fp.SquareLattice(dims=(2, 2), boundary='obc')), ('checker', fp.CheckerboardLattice())):
            psi = fp.product_peps(g, {s: ops.vec_n((s[0] + s[1]) % 2) for s in g.sites()})
            for b in g.bonds()[:2]:
                psi.apply_gate_(fp.gates.gate_nn_hopping(0.5, 0.3, ops.I(), ops.c(), ops.cp(), b))
            ctm = fp.EnvCTM(psi, init='eye')
            ctm.update_(opts_svd={'D_total': 4, 'tol': 1e-12}, moves='hv')
            out.append(('EnvCTM', nm, sym, ctm))
            bp = fp.EnvBP(psi)
            bp.iterate_(max_sweeps=2)
            out.append(('EnvBP', nm, sym, bp))
            if g.boundary == 'obc':
                out.append(('EnvBMPS', nm, sym, fp.EnvBoundaryMPS(psi, opts_svd={'D_total': 8}, setup='lr')))
    return out


def _ket(psi):
    return psi.ket if hasattr(psi, 'ket') else psi


def _fields(x):
    return [k for k in x.__dataclass_fields__]


# ------------------------------------------------------------------ observation of an object (strict)
def observe(kind, o, sym):
    import yastn
    if kind in ('EnvCTM', 'EnvBP'):
        sites = o.sites()

        def tobs(t):      # logical view of an environment tensor: whether a permutation is still pending is not part of it (resolve_ops / legacy routes materialise it)
            if t is None:
                return None
            d = observe('Tensor', t, sym)
            d.pop('trans')
            return d
        out = {'psi': observe('Peps', _ket(o.psi), sym), 'two_layers': type(o.psi).__name__,
               'env': [[(k, tobs(getattr(o[s], k))) for k in _fields(o[s])] for s in sites]}
        if kind == 'EnvCTM':
            out['proj'] = [[(k, tobs(getattr(o.proj[s], k))) for k in _fields(o.proj[s])] for s in sites]
        else:
            out['which'] = o.which
        return out
    if kind == 'EnvBMPS':
        def mobs(v):      # boundary MPS: logical view of the site tensors (a pending permutation is materialised by the legacy route)
            d = observe('Mps' if v.nr_phys == 1 else 'Mpo', v, sym)
            for x in d['sites']:
                x.pop('trans')
            return d
        return {'psi': observe('Peps', _ket(o.psi), sym), 'two_layers': type(o.psi).__name__,
                'env': [(repr(k), mobs(v)) for k, v in sorted(o._env.items(), key=lambda kv: repr(kv[0]))],
                'info': sorted((repr(k), repr(sorted(v.items()) if isinstance(v, dict) else v)) for k, v in o.info.items())}
    if kind == 'Tensor':
        # logical view, independent of whether a permutation is pending: materialised copy of the fully unfused tensor + fusion histories
        b = T.fully_unfused(o).consume_transpose()
        try:
            cons = 'ok' if o.is_consistent() else 'False'
        except Exception as ex:  # noqa
            cons = type(ex).__name__
        legs = [(lg.s, lg.t, lg.D, lg.history()) for lg in o.get_legs()] if not o.isdiag or True else []
        return {'abs': dig((tuple(b.struct), np.asarray(b._data), [(lg.s, lg.t, lg.D) for lg in b.get_legs()], legs, o.isdiag, tuple(o.n))), 'dtype': o.yastn_dtype,
                'sym': o.config.sym.SYM_ID, 'ferm': repr(o.config.fermionic), 'trans': list(o.trans), 'cons': cons}
    if kind in ('Mps', 'Mpo', 'MpoPBC'):
        return {'N': o.N, 'nr_phys': o.nr_phys, 'pC': repr(o.pC), 'factor': repr(complex(o.factor)),
                'sites': [observe('Tensor', o.A[k], sym) for k in sorted(o.A, key=lambda x: repr(x) if isinstance(x, tuple) else '%06d' % x)]}
    if kind == 'Peps':
        g = o.geometry
        return {'geo': [type(g).__name__, g.dims, g.boundary, [list(s) for s in g.sites()], [repr(g.site2index((x, y))) for x in range(-1, 4) for y in range(-1, 4)
                                                                                             if g.boundary == 'infinite'],
                        [[list(b[0]), list(b[1])] for b in g.bonds()]],
                'sites': [observe('Tensor', o[s], sym) for s in g.sites()]}
    raise Machinery(kind)


def follow_up(kind, orig, rest):
    """ the restored object behaves like the original in a follow-up contraction """
    import yastn
    try:
        if kind == 'Tensor':
            x = yastn.vdot(orig, orig)
            y = yastn.vdot(orig, rest)
            z = (orig - rest).norm()
            return 'same' if (x == y and z == 0) else 'vdot %r vs %r, norm of difference %r' % (x, y, z)
        if kind in ('Mps', 'Mpo'):
            import yastn.tn.mps as mps
            x, y = mps.vdot(orig, orig), mps.vdot(orig, rest)
            return 'same' if abs(x - y) <= 1e-13 * abs(x) else 'overlap %r vs %r' % (x, y)
        if kind == 'MpoPBC':
            return 'same' if type(rest).__name__ == 'MpoPBC' and all((orig[n] - rest[n]).norm() == 0 for n in range(orig.N)) and (orig.to_tensor() - rest.to_tensor()).norm() == 0 else 'site tensors / dense matrix differ'
        if kind == 'Peps':
            return 'same' if all((orig[s] - rest[s]).norm() == 0 for s in orig.geometry.sites()) and rest.geometry == orig.geometry else 'site tensors / geometry differ'
        if kind in ('EnvCTM', 'EnvBP', 'EnvBMPS'):
            # the restored environment measures what the original measures
            ops = yastn.operators.SpinlessFermions(sym=_ket(orig.psi)[_ket(orig.psi).sites()[0]].config.sym.SYM_ID)
            x, y = orig.measure_1site(ops.n()), rest.measure_1site(ops.n())
            bad = [s for s in x if abs(complex(x[s]) - complex(y[s])) > 1e-12]
            return 'same' if not bad and set(x) == set(y) else 'measure_1site differs at %s' % bad[:2]
    except Exception as ex:  # noqa
        return 'follow-up raised %s: %s' % (type(ex).__name__, str(ex)[:80])


# ------------------------------------------------------------------ route execution
def run_route(kind, obj, sym, ferm, steps, tmpdir):
    import yastn
    import yastn.tn.mps as mps
    import yastn.tn.fpeps as fp
    import h5py
    import warnings
    from yastn import YastnError
    cur = obj
    if kind in ('EnvCTM', 'EnvBP', 'EnvBMPS'):
        cfg_same = _ket(obj.psi)[_ket(obj.psi).sites()[0]].config
    else:
        cfg_same = obj.config if hasattr(obj, 'config') else obj[obj.geometry.sites()[0]].config
    cfg_osym, cfg_oferm = other_cfgs(sym, ferm)
    form = 'obj'
    try:
        for st in steps:
            nm = st[0]
            if nm == 'to_dict':
                cur = cur.to_dict(level=st[1], resolve_ops=st[2]) if kind in ('Tensor', 'Peps', 'EnvCTM') else cur.to_dict(level=st[1])
                if kind not in ('Tensor', 'Peps', 'EnvCTM') and st[2]:
                    return None       # resolve_ops is not an option of MPS.to_dict: route not applicable
                form = 'dict'
            elif nm == 'v1_strip':
                cur = dict(cur)
                cur.pop('trans', None)
                cur['dict_ver'] = 1
            elif nm == 'split':
                cur = yastn.split_data_and_meta(cur)
            elif nm == 'combine':
                cur = yastn.combine_data_and_meta(*cur)
            elif nm == 'npy':
                fn = os.path.join(tmpdir, 'x.npy')
                np.save(fn, cur, allow_pickle=True)
                cur = np.load(fn, allow_pickle=True).item()
            elif nm == 'save_to_dict':
                with warnings.catch_warnings():
                    warnings.simplefilter('ignore')
                    cur = cur.save_to_dict()
                form = 'legacy'
            elif nm == 'save_to_hdf5':
                fn = os.path.join(tmpdir, 'x.h5')
                if os.path.exists(fn):
                    os.remove(fn)
                with h5py.File(fn, 'w') as f:
                    cur.save_to_hdf5(f, 'state/')
                cur = fn
                form = 'hdf5'
            elif nm == 'from':
                cfg = {'none': None, 'same': cfg_same, 'othersym': cfg_osym, 'otherferm': cfg_oferm}[st[1]]
                with warnings.catch_warnings():
                    warnings.simplefilter('ignore')
                    if form == 'dict':
                        cur = yastn.from_dict(cur, config=cfg)
                    elif form == 'legacy':
                        if kind == 'Tensor':
                            cur = yastn.load_from_dict(config=cfg, d=cur) if cfg is not None else yastn.Tensor.from_dict(cur, None)
                        elif kind in ('Mps', 'Mpo'):
                            if cfg is None:
                                raise YastnError('legacy format requires config')
                            cur = mps.load_from_dict(cfg, cur)
                        elif kind in ('EnvCTM', 'EnvBP', 'EnvBMPS'):
                            cur = {'EnvCTM': fp.EnvCTM, 'EnvBP': fp.EnvBP, 'EnvBMPS': fp.EnvBoundaryMPS}[kind].from_dict(cur, cfg)
                        else:
                            cur = fp.Peps.from_dict(cur, cfg) if cfg is not None else fp.Peps.from_dict(cur, None)
                    else:
                        with h5py.File(cur, 'r') as f:
                            cur = yastn.load_from_hdf5(cfg, f, 'state/') if kind == 'Tensor' else mps.load_from_hdf5(cfg, f, 'state/')
        return 'restored', cur
    except YastnError:
        return 'rejected', None
    except Exception as ex:  # noqa
        return 'raised %s: %s' % (type(ex).__name__, str(ex)[:60]), None


def vector_events(rng):
    import yastn
    from yastn import YastnError
    evs = []
    for sym in ('U1', 'Z2', 'Z2xU1', 'dense'):
        cfg = T.make_config(sym)
        lg = [T.rand_leg_space(sym, rng, maxsec=3) for _ in range(3)]
        s = [1, -1, 1]
        n = rng.choice(T.admissible_charges(sym, s, lg))
        mk = lambda dens: T.build_tensor(cfg, sym, s, lg, n, random.Random(rng.randrange(1 << 30)), density=dens)
        full = mk(1.0)
        for variant, f in (('plain', lambda t: t), ('hard-fused', lambda t: t.fuse_legs(axes=((0, 1), 2), mode='hard')), ('lazy', lambda t: t.transpose((2, 0, 1))),
                           ('lazy-vs-plain-meta', None)):
            if f is None:
                # meta taken from a plain matrix with two identical legs; the serialised tensors carry a pending transposition with the SAME storage layout
                lq = {'U1': [((-1,), 2), ((0,), 1), ((1,), 2)], 'Z2': [((0,), 2), ((1,), 1)], 'Z2xU1': [((0, -1), 1), ((0, 1), 1), ((1, 0), 2)], 'dense': [((), 3)]}[sym]
                n0 = tuple(0 for _ in T.SYMS[sym])
                mkm = lambda dens: T.build_tensor(cfg, sym, [1, 1], [lq, lq], n0, random.Random(rng.randrange(1 << 30)), density=dens)
                fullm = mkm(1.0)
                m = yastn.split_data_and_meta((fullm + mkm(1.0)).to_dict(level=0))[1]
                f = lambda t: t.transpose((1, 0))          # same legs, same stored structure, only the pending permutation differs from meta
                x, y = f(mkm(1.0)), f(mkm(1.0))
                full = fullm
                if x.struct != fullm.struct or x.get_legs() != fullm.get_legs():
                    continue
            else:
                m = yastn.split_data_and_meta(f(full + mk(1.0)).to_dict(level=0))[1]
                x, y = f(mk(0.5)), f(mk(0.6))
            c = rng.choice((2, -3))
            V = lambda t: [int(round(float(v))) for v in yastn.split_data_and_meta(t.to_dict(level=0, meta=m), squeeze=True)[0]]
            try:
                vx, vy, vxy, vcx = V(x), V(y), V(x + y), V(c * x)
                back = yastn.from_dict(yastn.combine_data_and_meta(yastn.split_data_and_meta(x.to_dict(level=0, meta=m), squeeze=True)[0], m))
                okb = 'same' if (back - x).norm() == 0 and back.get_legs() == (x + 0 * f(full)).get_legs() else 'restored tensor differs'
                # a tensor with a block outside the layout of m must be rejected
                msmall = yastn.split_data_and_meta(x.to_dict(level=0))[1]
                try:
                    yy = f(full)
                    yy.to_dict(level=0, meta=msmall)
                    inc = 'accepted' if len(yy.struct.t) > len(x.struct.t) else 'YastnError'
                except YastnError:
                    inc = 'YastnError'
                except Exception as ex:  # noqa
                    inc = 'raised ' + type(ex).__name__
                evs.append({'op': 'vector', 'variant': '%s %s' % (sym, variant), 'vx': vx, 'vy': vy, 'vxy': vxy, 'vcx': vcx, 'c': c,
                            'n2x': int(round(float(x.norm()) ** 2)), 'n2y': int(round(float(y.norm()) ** 2)), 'back': okb, 'incompatible': inc})
            except Exception as ex:  # noqa
                evs.append({'op': 'vector', 'variant': '%s %s' % (sym, variant), 'vx': [], 'vy': [], 'vxy': [], 'vcx': [], 'c': c, 'n2x': 0, 'n2y': 0,
                            'back': 'raised %s: %s' % (type(ex).__name__, str(ex)[:60]), 'incompatible': '?'})
    return evs


def main(tier, seed, replay=None):
    rep = Report('C17', tier, seed, 'model_checking')
    if replay:
        rep.write_evidence = False
    rep.cov['rule'] = ('every terminal state of Serialize.tla (all routes to depth 6) x object variants: tensors (plain, complex, diagonal, hard/meta/nested fused, empty, scalar; lazily transposed '
                       'or not; 5 symmetries), MPS (plain, central block, non-unit factor), MPO, PEPS on 7 lattice types, environments (EnvCTM with projectors, EnvBP, EnvBoundaryMPS after updates); non-trivial = route that restored an object with >= 1 block')
    r = tlc_ok('Serialize', 'Serialize.cfg', workers=1, timeout=900)
    rep.add_tlc('Serialize (all routes, depth 6, 8 kinds)', r)
    cases = r.prints('CASE')
    if len(cases) < 300:
        raise Machinery('too few serialisation cases parsed: %d' % len(cases))
    rng = random.Random(seed)
    tmpdir = scratch('ser-')
    tv, mv, pv = tensor_variants(rng), mps_variants(rng), peps_variants(rng)
    envv = env_variants(rng)
    evs = []
    skipped = 0
    frac = 0.2 if tier == 'quick' else 1.0
    strata = set()
    for _, kind, steps, out, lazy0, lazyf in cases:
        if kind == 'Tensor':
            objs = [(v, sym, ferm, o) for v, sym, ferm, o in tv]
        elif kind in ('Mps', 'Mpo', 'MpoPBC'):
            objs = [(v, sym, False, o) for k, v, sym, o in mv if k == kind]
        elif kind in ('EnvCTM', 'EnvBP', 'EnvBMPS'):
            objs = [(v, sym, True, o) for k, v, sym, o in envv if k == kind]
        else:
            objs = [(v, sym, True, o) for k, v, sym, o in pv]
        for variant, sym, ferm, o in objs:
            stratum = (variant, sym, steps[0][0], tuple(steps[-1]), bool(lazy0))
            if kind in ('Tensor', 'EnvCTM', 'EnvBP', 'EnvBMPS') and stratum in strata and rng.random() > frac:
                continue          # quick: a sample, but every (variant, first step, way of restoring, lazy) combination at least once
            strata.add(stratum)
            if lazy0:
                if kind != 'Tensor' or o.ndim < 2:
                    skipped += 1
                    continue
                p = list(range(o.ndim))
                p = p[1:] + p[:1]
                o = o.transpose(axes=tuple(p))
            if any(st[0] == 'v1_strip' for st in steps) and list(o.trans) != sorted(o.trans):
                skipped += 1          # an older-generation dictionary never carried a pending permutation
                continue
            res = run_route(kind, o, sym, ferm, steps, tmpdir)
            if res is None:
                skipped += 1
                continue
            oo, rest = res
            obs = {'out': oo, 'payload': '-', 'follow': '-', 'pending': False}
            if oo == 'restored':
                ref = o
                if kind in ('Mps', 'Mpo') and steps[0][0] in ('save_to_dict', 'save_to_hdf5') and o.pC is not None:
                    ref = o.shallow_copy()         # documented: these routes absorb the central block (same represented state, no central block)
                    ref.absorb_central_()
                b = observe(kind, ref, sym)
                try:
                    a = observe(kind, rest, sym)
                except Exception as ex:      # the restored object cannot even be read through the public API
                    a = {k: ('unreadable: %s' % type(ex).__name__) for k in b}
                unreadable = [v for v in a.values() if isinstance(v, str) and v.startswith('unreadable')]
                if unreadable:
                    diff = [unreadable[0]]
                elif kind == 'Tensor':
                    pend = a['trans'] == b['trans'] and a['trans'] != sorted(a['trans'])
                    ident = a['trans'] == sorted(a['trans'])
                    obs['pending'] = bool(pend)
                    diff = [k for k in b if k != 'trans' and a[k] != b[k]]
                    if not (pend or ident):
                        diff.append('trans %s vs original %s' % (a['trans'], b['trans']))
                else:
                    diff = [k for k in b if a[k] != b[k]]
                    if steps[0][0] == 'save_to_dict' and kind == 'EnvCTM' and 'proj' in diff:
                        diff.remove('proj')        # the deprecated format stores the environment tensors only; projectors are recomputed by every move
                    if steps[0][0] == 'save_to_dict' and kind == 'EnvBP' and 'env' in diff:
                        # the deprecated format stores the messages; their square roots (fields ending in R) are recomputed on loading, in another gauge
                        strip = lambda env: [[kv for kv in site if not kv[0].endswith('R')] for site in env]
                        if strip(a['env']) == strip(b['env']):
                            diff.remove('env')
                    if kind in ('EnvCTM', 'EnvBP', 'EnvBMPS') and 'psi' in diff:
                        sd = [k for k in b['psi'] if k != 'sites' and a['psi'][k] != b['psi'][k]] + \
                             [i for i, (x, y) in enumerate(zip(b['psi']['sites'], a['psi']['sites'])) if any(x[k] != y[k] for k in x if k != 'trans')]
                        if not sd:
                            diff.remove('psi')
                    if 'sites' in diff:
                        sd = [(i, [k for k in x if k != 'trans' and x[k] != y[k]]) for i, (x, y) in enumerate(zip(b['sites'], a['sites']))]
                        sd = [x for x in sd if x[1]]
                        if not sd:
                            diff.remove('sites')
                        else:
                            diff[diff.index('sites')] = 'sites %s' % sd[:2]
                obs['payload'] = 'same' if not diff else 'differs in: %s' % diff
                try:
                    obs['follow'] = follow_up(kind, ref, rest) if not unreadable else 'same'
                except Exception as ex:
                    obs['follow'] = 'follow-up raised %s' % type(ex).__name__
            pending0 = bool(kind == 'Tensor' and list(o.trans) != sorted(o.trans))     # the state actually handed in (meta fusion leaves a pending permutation)
            evs.append({'op': 'route', 'kind': kind, 'variant': '%s %s' % (sym, variant), 'steps': steps, 'lazy0': pending0, 'obs': obs})
    vev = vector_events(rng)
    allev = evs + vev
    traces = [{'ev': allev[i:i + 300]} for i in range(0, len(allev), 300)]
    acc, diag, res = validate_traces('TraceSerialize', 'TraceSerialize.cfg', traces, shards=16, timeout=3000)
    for t, rj in zip(traces, validate_traces.last_rejects):
        for l, why in rj:
            e = t['ev'][l - 1]
            if e['op'] == 'route':
                first = e['steps'][0][0]
                problem = e['obs']['out'] if e['obs']['out'] not in ('restored',) else ('payload' if e['obs']['payload'] != 'same' else 'follow-up' if e['obs']['follow'] != 'same' else 'pending-permutation')
                sig = 'route:%s:%s:%s:%s' % (e['kind'], e['variant'].split()[-1], first, problem[:40])
                rep.violation(sig, '%s (%s) route %s: %s' % (e['kind'], e['variant'], e['steps'], why[:500]), {'op': 'route', 'kind': e['kind'], 'variant': e['variant'], 'steps': e['steps'], 'lazy0': e['lazy0'], 'obs': e['obs']})
            else:
                rep.violation('vector:%s' % e['variant'], 'to_dict(meta=) vector map (%s): %s' % (e['variant'], why[:300]), {'op': 'vector', 'variant': e['variant']})
    if not replay:
        from vlib import negative_controls
        def c_payload(e):
            if e['op'] == 'route' and e['obs']['out'] == 'restored' and e['obs']['payload'] == 'same':
                e['obs']['payload'] = 'differs in: data'
                return True
        def c_reject(e):
            if e['op'] == 'route' and e['obs']['out'] == 'rejected':
                e['obs']['out'] = 'restored'
                e['obs']['payload'] = 'same'
                e['obs']['follow'] = 'same'
                return True
        rep.cov['parts']['negative_controls_rejected'] = negative_controls('TraceSerialize', 'TraceSerialize.cfg', traces, [('restored payload differs', c_payload), ('restored where the route must be rejected', c_reject)], timeout=900)
    if any((not a) and not rj for a, rj in zip(acc, validate_traces.last_rejects)):
        raise Machinery('serialisation trace neither accepted nor rejected')
    rep.cov['states'] += sum(x.distinct for x in res)
    rep.cov['transitions'] += sum(x.generated for x in res)
    rep.cov['traces_validated_against_impl'] = len(allev)
    byk = {}
    for e in evs:
        byk.setdefault(e['kind'], [0, 0])[0 if e['obs']['out'] == 'restored' else 1] += 1
    rep.cov['parts']['routes_by_kind (restored / rejected)'] = byk
    rep.cov['evaluations'] = len(allev)
    rep.cov['distinct_nontrivial'] = sum(1 for e in evs if e['obs']['out'] == 'restored')
    rep.cov['parts'].update({'spec_cases': len(cases), 'routes_replayed': len(evs), 'restored': sum(1 for e in evs if e['obs']['out'] == 'restored'),
                             'rejected_as_required': sum(1 for e in evs if e['obs']['out'] == 'rejected'), 'not_applicable_skipped': skipped, 'vector_map_events': len(vev)})
    rep.sample(evs[len(evs) // 2])
    rep.sample({k: (v if not isinstance(v, list) else v[:8]) for k, v in vev[0].items()})
    rep.cov['exhaustive'] = (tier == 'thorough')
    rep.assumptions += ['Peps2Layers and DoublePepsTensor are not among the serialised kinds', 'quick tier replays a seeded 25% of (case x variant)']
    return rep.finish()
