"""C07 — MPO construction and measurements realise Jordan-Wigner operators.

Reference = Fock.tla (graded CAR model, model-checked in C05).  generate_mpo (Hterm lists with any operator order, repeated sites, custom
fermionic maps, Gaussian-integer amplitudes) is compared entry by entry with the sum of operator words; measure_1site / measure_2site
(every bond pattern, i<j, i=j, i>j) / measure_nsite on integer-valued MPS (bra = ket and bra != ket for charge-changing products) are
compared exactly with <bra| word |ket> on the Fock vectors.  Local basis states are translated to occupations through the diagonals of
the library's own number operators.  For spin-1/2 (bosonic configuration) the same model runs with the grading "none" (no strings).
"""
from __future__ import annotations
import itertools
import random
import numpy as np
from concurrent.futures import ProcessPoolExecutor
from vlib import Report, validate_traces, Machinery
import tensors as T
import mpsx
from c05_fock import occupation_map, label_occ, dense_entries

FAMS = [('SpinlessFermions', 'Z2', 'all'), ('SpinlessFermions', 'U1', 'all'), ('SpinfulFermions', 'Z2', 'all'), ('SpinfulFermions', 'U1', 'all'),
        ('SpinfulFermions', 'U1xU1', 'species'), ('SpinfulFermions', 'U1xU1xZ2', 'all'), ('Spin12', 'Z2', 'none'), ('Spin12', 'U1', 'none'), ('Spin12', 'dense', 'none')]
AMPS = [[1, 0], [-1, 0], [2, 0], [0, 1], [0, -1], [-2, 0]]


def family(fam):
    import yastn
    ops = getattr(yastn.operators, fam[0])(sym=fam[1])
    if fam[0] == 'SpinlessFermions':
        named = {'I': ops.I(), 'n': ops.n(), 'c': ops.c(), 'cp': ops.cp()}
        numbers = [ops.n()]
    elif fam[0] == 'SpinfulFermions':
        named = {'I': ops.I(), 'nu': ops.n('u'), 'nd': ops.n('d'), 'cu': ops.c('u'), 'cd': ops.c('d'), 'cpu': ops.cp('u'), 'cpd': ops.cp('d'),
                 'Sp': ops.cp('u') @ ops.c('d'), 'Sm': ops.cp('d') @ ops.c('u'), 'nund': ops.n('u') @ ops.n('d')}
        numbers = [ops.n('u'), ops.n('d')]
    else:   # spin-1/2 as a commuting hard-core mode: occupied = up
        named = {'I': ops.I(), 'cp': ops.sp(), 'c': ops.sm(), 'n': ops.sp() @ ops.sm()}
        numbers = [ops.sp() @ ops.sm()]
    return ops, named, numbers


def fock_vector(psi, locc, nm):
    """ entries of psi.to_tensor() as [[occupied modes], [re, im]] """
    t = psi.to_tensor()
    nsym = t.config.sym.NSYM
    out = []
    for tb in t.get_blocks_charge():
        blk = np.asarray(t[tb])
        ts = [tuple(tb[k * nsym:(k + 1) * nsym]) for k in range(t.ndim)]
        for idx in zip(*np.nonzero(blk)):
            modes = []
            for k in range(t.ndim):
                oo = locc[(ts[k], int(idx[k]))]
                modes += [k * nm + a + 1 for a in range(nm) if oo[a]]
            out.append([modes, T._gint(blk[idx])])
    return out


def mpo_entries(H, N, locc, nm):
    t = H.to_tensor()
    nsym = t.config.sym.NSYM
    ent = []
    for tb in t.get_blocks_charge():
        blk = np.asarray(t[tb])
        ts = [tuple(tb[k * nsym:(k + 1) * nsym]) for k in range(2 * N)]
        for idx in zip(*np.nonzero(np.abs(blk) > 1e-9)):
            outm, inm = [], []
            for k in range(N):
                oo = locc[(ts[2 * k], int(idx[2 * k]))]
                ii = locc[(ts[2 * k + 1], int(idx[2 * k + 1]))]
                outm += [k * nm + a + 1 for a in range(nm) if oo[a]]
                inm += [k * nm + a + 1 for a in range(nm) if ii[a]]
            ent.append([outm, inm, T._gint(blk[idx])])
    return ent


def cnum(z):
    c = complex(*z)
    return c.real if c.imag == 0 else c


def latex_request(rng, N, lnames, labels):
    """ a random expression of the documented LaTeX-like language of mps.Generator together with its meaning: returns (string, parameters, expanded terms).
    Grammar used (tests/mps/test_generator_class.py, docstring of mpo_from_latex): sums over one index or over index tuples of a named set, nested sums, scalar and indexed
    parameters, integer literals, (-1), a leading minus, products by juxtaposition, a parenthesised sum of two products; site labels go through the Generator's map.
    lnames: {latex operator name: Fock-level name}; labels: site label of position k (labels[k]).  The expansion below is the MEANING (sum over assignments of the
    indices of amplitude x operator product); the Jordan-Wigner content of every term is decided by TLC. """
    ops = [k for k in lnames if k != 'I']
    params = {'sites': list(labels), 'NN': [(labels[k], labels[k + 1]) for k in range(N - 1)], 'far': [(labels[a], labels[b]) for a in range(N) for b in range(N) if abs(a - b) >= 2] or [(labels[0], labels[-1])]}
    pos = {lab: k for k, lab in enumerate(labels)}
    pieces, terms = [], []
    for it in range(rng.choice((1, 2, 2, 3))):
        form = rng.choice(('single', 'pair', 'nested', 'plain'))
        sign = -1 if (it > 0 and rng.random() < 0.3) else 1
        if form == 'single':
            head, assigns = r'\sum_{i \in sites}', [{'i': a} for a in params['sites']]
            idx = ['i']
        elif form == 'pair':
            st = rng.choice(('NN', 'far'))
            head, assigns = r'\sum_{i,j \in %s}' % st, [{'i': a, 'j': b} for a, b in params[st]]
            idx = ['i', 'j']
        elif form == 'nested':
            head, assigns = r'\sum_{i \in sites} \sum_{j \in sites}', [{'i': a, 'j': b} for a in params['sites'] for b in params['sites']]
            idx = ['i', 'j']
        else:
            # one explicit pair of sites (as a one-element set: operator indices written as literal numbers are strings for the Generator and are not looked up in an integer map)
            a, b = rng.choice(labels), rng.choice(labels)
            params['one%d' % it] = [(a, b)]
            head, assigns = r'\sum_{i,j \in one%d}' % it, [{'i': a, 'j': b}]
            idx = ['i', 'j']
        # coefficient
        ck = rng.choice(('none', 'scalar', 'indexed', 'literal', 'minus1'))
        if ck == 'indexed' and idx is None:
            ck = 'scalar'
        cname = 'g%d' % it
        if ck == 'scalar':
            z = rng.choice(AMPS)
            params[cname] = cnum(z)
            ctext, cval = cname, (lambda asg, z=z: complex(*z))
        elif ck == 'indexed':
            if len(idx) == 1:
                arr = np.array([rng.choice((1, 2, -1, 3)) for _ in range(N)], dtype=float)
                params[cname] = arr
                ctext, cval = '%s_{i}' % cname, (lambda asg, arr=arr: complex(arr[pos[asg['i']]]))
            else:
                arr = np.array([[rng.choice((1, 2, -1, 3)) for _ in range(N)] for _ in range(N)], dtype=float)
                params[cname] = arr
                ctext, cval = '%s_{i,j}' % cname, (lambda asg, arr=arr: complex(arr[pos[asg['i']], pos[asg['j']]]))
        elif ck == 'literal':
            v = rng.choice((2, 3))
            ctext, cval = str(v), (lambda asg, v=v: complex(v))
        elif ck == 'minus1':
            ctext, cval = '(-1)', (lambda asg: complex(-1))
        else:
            ctext, cval = '', (lambda asg: complex(1))
        # body: a product of operators on the indices, or ( P + Q )
        def product():
            k = rng.choice((1, 2, 2, 3))
            fac = [(rng.choice(ops), rng.choice(idx or ['i', 'j'])) for _ in range(k)]
            if idx is None:
                return ' '.join('%s_{%s}' % (o, assigns[0][v]) for o, v in fac), fac       # explicit site labels
            return ' '.join('%s_{%s}' % (o, v) for o, v in fac), fac
        if rng.random() < 0.4:
            (t1, f1), (t2, f2) = product(), product()
            body, facs = '(%s + %s)' % (t1, t2), [f1, f2]
        else:
            t1, f1 = product()
            body, facs = t1, [f1]
        piece = ' '.join(x for x in (head, ctext, body) if x)
        pieces.append((sign, piece))
        for asg in assigns:
            for fac in facs:
                amp = sign * cval(asg)
                terms.append({'amp': [int(round(amp.real)), int(round(amp.imag))], 'pos': [pos[asg[v]] for _, v in fac], 'ops': [lnames[o] for o, _ in fac]})
    text = ''
    for k, (sign, piece) in enumerate(pieces):
        text += (piece if sign > 0 else '- ' + piece) if k == 0 else (' + ' if sign > 0 else ' - ') + piece
    return text, params, terms


LATEX_NAMES = {'SpinlessFermions': {'I': 'I', 'n': 'n', 'c': 'c', 'cp': 'cp'},
               'SpinfulFermions': {'I': 'I', 'nu': 'nu', 'cu': 'cu', 'cpu': 'cpu', 'nd': 'nd', 'cd': 'cd', 'cpd': 'cpd', 'Sp': 'Sp', 'Sm': 'Sm'},
               'Spin12': {'I': 'I', 'sp': 'cp', 'sm': 'c'}}


def job(args):
    import yastn
    import yastn.tn.mps as mps
    from yastn import YastnError
    fi, seed, nev = args
    fam = FAMS[fi]
    rng = random.Random(seed)
    ops, named, numbers = family(fam)
    ops.config.backend.random_seed(seed % 9973)
    nsym = ops.config.sym.NSYM
    nm = len(numbers)
    locc = label_occ(occupation_map(numbers, nsym), numbers, ops.space())
    names = [k for k in named if k != 'I']
    base = {'nm': nm, 'gr': [fam[2], nm], 'family': '%s/%s' % (fam[0], fam[1])}
    evs = []
    for _ in range(nev):
        N = rng.choice((2, 3)) if nm == 2 else rng.choice((2, 3, 4))
        I = mps.product_mpo(ops.I(), N)
        if rng.random() < 0.4:
            # ---- generate_mpo
            if nm * N > 6:
                N = 6 // nm
                I = mps.product_mpo(ops.I(), N)
            fmap = []
            if rng.random() < 0.35:
                fmap = list(range(N))
                rng.shuffle(fmap)
            terms = []
            for _ in range(rng.choice((1, 1, 2, 3))):
                k = rng.choice((1, 2, 2, 3, 4))
                pos = [rng.randrange(N) for _ in range(k)]
                on = [rng.choice(names) for _ in range(k)]
                terms.append({'amp': rng.choice(AMPS), 'pos': pos, 'ops': on})
            latex = None
            if rng.random() < 0.35:
                # the LaTeX-like Generator: same meaning (sum of amplitude x operator products), requested as an expression; site labels through the Generator's map
                lnames = {k: v for k, v in LATEX_NAMES[fam[0]].items()}
                labels = list(range(N)) if rng.random() < 0.5 else rng.sample(range(10, 10 + 3 * N), N)
                latex, lparams, terms = latex_request(rng, N, lnames, labels)
                fmap = []
            e = dict(base, op='generate', N=N, fmap=fmap, terms=terms, out='ok', ent=[])
            if latex is not None:
                e['via'] = 'latex: ' + latex
            try:
                if latex is not None:
                    gen = mps.Generator(N, ops, map={lab: k for k, lab in enumerate(labels)})
                    H = gen.mpo_from_latex(latex, lparams)
                else:
                    H = mps.generate_mpo(I, [mps.Hterm(cnum(t['amp']), tuple(t['pos']), tuple(named[x] for x in t['ops'])) for t in terms], f_map=tuple(fmap) if fmap else None)
                e['ent'] = mpo_entries(H, N, locc, nm)
            except YastnError as ex:
                # terms of different total charge cannot be summed into one MPO: documented rejection, not an answer
                if 'charge' in str(ex).lower():
                    continue
                e['out'] = 'YastnError: ' + str(ex)[:60]
            except Machinery:
                raise
            except Exception as ex:  # noqa
                e['out'] = 'raised %s: %s' % (type(ex).__name__, str(ex)[:60])
            evs.append(e)
            continue
        # ---- measurements on integer MPS
        try:
            ket = mpsx.int_mps(I, rng, D=rng.choice((1, 2, 3)), dtype='complex128' if rng.random() < 0.2 else 'float64')
        except YastnError:
            continue
        kv = fock_vector(ket, locc, nm)
        if len(kv) == 0 or len(kv) > 70:
            continue
        which = rng.choice(('1site', '1site_forms', '2site', '2site', '2site_str', 'nsite', 'nsite', 'sample', 'rdm') if nm == 1 else ('1site', '1site_forms', '2site', '2site', '2site_str', 'nsite', 'nsite', 'rdm'))
        if which == 'sample':
            # Born probabilities of drawn configurations: occupation basis in every symmetry, x / y bases (complex local vectors) in the dense configuration
            bases = ['z'] + (['x', 'y', 'y'] if not nsym else [])
            bs = [rng.choice(bases) for _ in range(N)] if rng.random() < 0.5 else [rng.choice(bases)] * N
            UV = {'z': ([1, 0], [0, 1]), 'x': ([1, 1], [1, -1]), 'y': ([1, 1j], [1, -1j])}
            m = 1 if all(b == 'z' for b in bs) else 2
            if m == 2:
                bs = [b if b != 'z' else 'x' for b in bs]          # one normalisation for all sites keeps the logged numerator an integer

            def local_vec(b, j):
                u = UV[b][j]        # (component on the empty state, component on the occupied state)
                if nsym:
                    return ops.vec_n(j) if fam[0] == 'SpinlessFermions' else ops.vec_z(+1 if j == 1 else -1)
                leg = ops.space()
                v = yastn.Tensor(config=ops.config, s=(1,), dtype='complex128')
                comp = [u[locc[((), i)][0]] for i in range(2)]
                v.set_block(Ds=(2,), val=np.array(comp, dtype=complex) / np.sqrt(m))
                return v
            try:
                if nsym and fam[0] != 'SpinlessFermions':
                    # which vec_z is the occupied state is fixed by the number operator n = S+ S-
                    vz = {j: next(v for v in (ops.vec_z(+1), ops.vec_z(-1)) if abs(yastn.vdot(v, numbers[0] @ v) - j) < 1e-12) for j in (0, 1)}
                    proj = {n_: {0: vz[0], 1: vz[1]} for n_ in range(N)}
                else:
                    proj = {n_: {0: local_vec(bs[n_], 0), 1: local_vec(bs[n_], 1)} for n_ in range(N)}
                smp, prob = mps.sample(ket, proj, number=6, return_probabilities=True)
                den = sum(a[1][0] ** 2 + a[1][1] ** 2 for a in kv)
                for cfgk, pk in zip(np.asarray(smp).tolist(), list(prob)):
                    x = float(pk) * den * m ** N
                    pn = int(round(x))
                    evs.append(dict(base, op='sample', N=N, fmap=[], ket=kv, out='ok', bases=bs, cfg=[int(c) for c in cfgk], m=m,
                                    u=[[[int(np.real(c)), int(np.imag(c))] for c in UV[bs[n_] if not nsym or True else 'z'][int(cfgk[n_])]] for n_ in range(N)],
                                    pnum=pn, den=den, near=bool(abs(x - pn) <= 1e-8 * max(1.0, x))))
            except YastnError as ex:
                evs.append(dict(base, op='sample', N=N, fmap=[], ket=kv, out='YastnError: ' + str(ex)[:60], bases=bs, cfg=[], m=m, u=[], pnum=0, den=0, near=False))
            continue
        if which == 'rdm':
            # reduced density matrix on 1-3 distinct sites listed in ANY order: Tr(rho . O_0 x O_1 x ...) with the operators in the order of the listed sites must be the
            # expectation value of the same operators at these sites (operators multiplied by fkron in the order given, validated in C05); charge-neutral products only
            k = rng.randint(1, min(3, N))
            pos = rng.sample(range(N), k)
            for _try in range(30):
                on = [rng.choice(names) for _ in range(k)]
                if not any(ops.config.sym.add_charges(*[named[x].n for x in on])):
                    break
            else:
                continue
            try:
                rho = mps.rdm(ket, *pos)
                O = [named[x] for x in on]
                F = O[0] if k == 1 else yastn.fkron(*O, sites=tuple(range(k)))
                v = yastn.tensordot(rho, F, axes=(tuple(range(2 * k)), tuple(j + 1 if j % 2 == 0 else j - 1 for j in range(2 * k)))).to_number()
                evs.append(dict(base, op='measure', N=N, fmap=[], bra=kv, ket=kv, out='ok', fn='rdm%s' % (pos,), ops=on, pos=pos, val=T._gint(v)))
            except YastnError as ex:
                evs.append(dict(base, op='measure', N=N, fmap=[], bra=[], ket=kv, fn='rdm', ops=on, pos=pos, val=[0, 0], out='YastnError: ' + str(ex)[:60]))
            except Machinery:
                raise
            except Exception as ex:  # noqa
                evs.append(dict(base, op='measure', N=N, fmap=[], bra=[], ket=kv, fn='rdm', ops=on, pos=pos, val=[0, 0], out='raised %s: %s' % (type(ex).__name__, str(ex)[:60])))
            continue
        if which in ('1site', '1site_forms'):
            on, pos = [rng.choice(names)], [rng.randrange(N)]
        elif which in ('2site', '2site_str'):
            on, pos = [rng.choice(names), rng.choice(names)], [rng.randrange(N), rng.randrange(N)]
        else:
            k = rng.choice((2, 3, 3, 4))
            on, pos = [rng.choice(names) for _ in range(k)], [rng.randrange(N) for _ in range(k)]
        # the bra lives in the sector the operator product maps the ket to (bra != ket for charge-changing products)
        O = [named[x] for x in on]
        try:
            dn = ops.config.sym.add_charges(*[o.n for o in O])
            try:
                if any(dn):
                    nb = ops.config.sym.add_charges(tuple(ket.to_tensor().n), dn)
                    bra = mpsx.int_mps(I, rng, D=2, n=nb)
                else:
                    bra = ket if rng.random() < 0.6 else mpsx.int_mps(I, rng, D=2, n=tuple(ket.to_tensor().n))
            except YastnError:
                continue          # no state in the target sector (e.g. more particles than sites): nothing to measure
            bv = fock_vector(bra, locc, nm)
            if len(bv) > 70:
                continue
            e0 = dict(base, op='measure', N=N, fmap=[], bra=bv, ket=kv, out='ok')
            if which == '1site':
                v = mps.measure_1site(bra, O[0], ket, sites=pos[0])
                evs.append(dict(e0, fn='measure_1site', ops=on, pos=pos, val=T._gint(v)))
            elif which == '1site_forms':
                # every way of asking for several sites: all sites, a list in any order, a dict {site: operator} whose keys come in any order (also descending)
                form = rng.choice(('all', 'list', 'dict', 'dict'))
                order = list(range(N))
                rng.shuffle(order)
                if rng.random() < 0.4:
                    order = sorted(order, reverse=True)
                order = order[:rng.randint(1, N)] if form != 'all' else list(range(N))
                if form == 'all':
                    res = mps.measure_1site(bra, O[0], ket)
                elif form == 'list':
                    res = mps.measure_1site(bra, O[0], ket, sites=order)
                else:
                    res = mps.measure_1site(bra, {j: O[0] for j in order}, ket)
                for j in order:
                    evs.append(dict(e0, fn='measure_1site[%s %s]' % (form, order), ops=on, pos=[j], val=T._gint(res[j])))
            elif which == '2site':
                v = mps.measure_2site(bra, O[0], O[1], ket, bonds=(pos[0], pos[1]))
                evs.append(dict(e0, fn='measure_2site', ops=on, pos=pos, val=T._gint(v)))
            elif which == '2site_str':
                pat = rng.choice(('<', '=', '>', 'a', 'r1', 'r-2', 'pr1', '<>', 'r2'))
                res = mps.measure_2site(bra, O[0], O[1], ket, bonds=pat)
                for (i, j), v in res.items():
                    evs.append(dict(e0, fn='measure_2site[%s]' % pat, ops=on, pos=[i, j], val=T._gint(v)))
            else:
                v = mps.measure_nsite(bra, *O, ket=ket, sites=pos)
                evs.append(dict(e0, fn='measure_nsite', ops=on, pos=pos, val=T._gint(v)))
        except YastnError as ex:
            evs.append(dict(base, op='measure', N=N, fmap=[], bra=[], ket=kv, fn=which, ops=on, pos=pos, val=[0, 0], out='YastnError: ' + str(ex)[:60]))
        except Machinery:
            raise
        except Exception as ex:  # noqa
            evs.append(dict(base, op='measure', N=N, fmap=[], bra=[], ket=kv, fn=which, ops=on, pos=pos, val=[0, 0], out='raised %s: %s' % (type(ex).__name__, str(ex)[:60])))
    return evs


def main(tier, seed, replay=None):
    rep = Report('C07', tier, seed, 'model_checking')
    if replay:
        rep.write_evidence = False
    rep.cov['rule'] = ('generate_mpo on random Hterm lists (1-3 terms of 1-4 operators, repeated sites, any order, amplitudes +-1,+-2,+-i, custom f_map) and measure_1site/2site/nsite on integer MPS '
                       '(bra = ket and bra != ket) for spinless (Z2,U1) and spinful (Z2,U1,U1xU1,U1xU1xZ2) fermions and spin-1/2 (bosonic: no strings), chain lengths 2..4; '
                       'non-trivial = event with a non-zero reference (operator with >= 1 entry / non-zero expectation value)')
    n = 64 if tier == 'quick' else 960
    jobs = [(i % len(FAMS), seed * 1000303 + i, 14 if tier == 'quick' else 20) for i in range(n)]
    with ProcessPoolExecutor(max_workers=14) as ex:
        evs = [e for lst in ex.map(job, jobs, chunksize=2) for e in lst]
    traces = [{'ev': evs[i:i + 60]} for i in range(0, len(evs), 60)]
    acc, diag, res = validate_traces('TraceMpoGen', 'TraceMpoGen.cfg', traces, shards=16, timeout=3000)
    if not replay:
        from vlib import negative_controls
        def c_gen(e):
            if e['op'] == 'generate' and e['out'] == 'ok' and e['ent']:
                e['ent'][0][-1][0] += 1
                return True
        def c_meas(e):
            if e['op'] == 'measure' and e['out'] == 'ok' and (e['val'][0] or e['val'][1]):
                e['val'] = [-e['val'][0], -e['val'][1]]
                return True
        rep.cov['parts']['negative_controls_rejected'] = negative_controls('TraceMpoGen', 'TraceMpoGen.cfg', traces, [('generate_mpo entry + 1', c_gen), ('measure sign flipped', c_meas)], timeout=900)
    for t, rj in zip(traces, validate_traces.last_rejects):
        for l, why in rj:
            e = t['ev'][l - 1]
            if e['op'] == 'generate':
                sig = 'generate:%s:%s:fmap=%s' % (e['family'], [(tm['pos'], tm['ops']) for tm in e['terms']], e['fmap'])
                rep.violation(sig, 'generate_mpo in %s N=%d f_map=%s terms=%s: %s' % (e['family'], e['N'], e['fmap'] or None, e['terms'], why[:500]), {'op': 'generate', 'event': {k: v for k, v in e.items() if k != 'ent'}})
            elif e['op'] == 'sample':
                rep.violation('sample:%s:%s' % (e['family'], e['bases']), 'sample in %s N=%d bases=%s configuration=%s: %s' % (e['family'], e['N'], e['bases'], e['cfg'], why[:400]),
                              {'op': 'sample', 'event': {k: v for k, v in e.items() if k != 'ket'}})
            else:
                sig = '%s:%s:%s:%s' % (e['fn'].split('[')[0], e['family'], e['ops'], e['pos'])
                rep.violation(sig, '%s in %s N=%d ops=%s sites=%s: %s' % (e['fn'], e['family'], e['N'], e['ops'], e['pos'], why[:400]), {'op': 'measure', 'event': {k: v for k, v in e.items() if k not in ('bra', 'ket')}})
    if any((not a) and not rj for a, rj in zip(acc, validate_traces.last_rejects)):
        raise Machinery('C07 trace neither accepted nor rejected')
    rep.cov['states'] += sum(x.distinct for x in res)
    rep.cov['transitions'] += sum(x.generated for x in res)
    rep.cov['traces_validated_against_impl'] = len(evs)
    rep.cov['evaluations'] = len(evs)
    rep.cov['distinct_nontrivial'] = sum(1 for e in evs if (e['op'] == 'generate' and e['ent']) or (e['op'] == 'measure' and any(e['val'])) or (e['op'] == 'sample' and e['pnum']))
    by = {}
    for e in evs:
        k = e['op'] if e['op'] in ('generate', 'sample') else e['fn'].split('[')[0]
        by[k] = by.get(k, 0) + 1
    rep.cov['parts'].update({'events_by_kind': by, 'generate_with_custom_f_map': sum(1 for e in evs if e['op'] == 'generate' and e['fmap']),
                             'generate_requested_as_latex_expression': sum(1 for e in evs if e['op'] == 'generate' and str(e.get('via', '')).startswith('latex')),
                             'latex_expressions_with_a_negated_or_scaled_sum_of_a_bracket': sum(1 for e in evs if e['op'] == 'generate' and '- \\sum' in str(e.get('via', ''))),
                             'measurements_with_bra_not_ket': sum(1 for e in evs if e['op'] == 'measure' and e['bra'] != e['ket'])})
    g = next((e for e in evs if e['op'] == 'generate' and e['ent']), None)
    if g:
        rep.sample({k: v for k, v in g.items() if k != 'ent'})
    m = next((e for e in evs if e['op'] == 'measure' and any(e['val'])), None)
    if m:
        rep.sample({k: (v if k not in ('bra', 'ket') else v[:3]) for k, v in m.items()})
    rep.assumptions += ['the Fock reference is model-checked for the CAR in C05 (FockMC)', 'Generator.mpo_from_latex, rdm and sample probabilities are not covered yet',
                        'generate_mpo compresses with SVD: entries are rounded to Gaussian integers at 1e-9']
    return rep.finish()
