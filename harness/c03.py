"""C03 — leg fusion is a faithful, reversible change of basis.

Scenario programs (executed on real tensors, validated by TLC against the label model of TensorOps.tla, in which fusion only
regroups native legs and never touches an element):
  S1  two operands with corresponding legs drawn as independent subsets of one universe of sectors (equal / overlapping /
      disjoint sector content), fused identically (hard / meta / mixed, nested to depth 3), optionally lazily transposed,
      then tensordot / vdot / lincomb over the fused legs, then unfused;
  S2  one operand with two groups of legs of opposite signature fused identically and traced;
  S3  operands fused in different order / partition / mode and then combined: must be rejected with YastnError;
  S4  fuse to depth <= 3 and unfuse everything: the original tensor is restored; the norm is unchanged at every step.
"""
from __future__ import annotations
import random
import itertools
from concurrent.futures import ProcessPoolExecutor
from vlib import Report, validate_traces, Machinery
import tensors as T
from c01 import report_traces, SYMLIST


def universe_legs(sym, rng, n):
    """ n leg universes: each a map charge -> D (2-3 charges) """
    mod = T.SYMS[sym]
    unis = []
    if rng.random() < 0.45:      # all legs over ONE universe: fused sectors then often have identical, overlapping and disjoint constituents at once
        u = universe_legs_one(sym, rng)
        return [u] * n
    for _ in range(n):
        if not mod:
            unis.append({(): rng.randint(1, 3)})
            continue
        ch = set()
        while len(ch) < rng.choice((2, 2, 3)):
            ch.add(T.rand_charge(mod, rng))
        unis.append({t: rng.randint(1, 2) for t in ch})
    return unis


def universe_legs_one(sym, rng):
    mod = T.SYMS[sym]
    if not mod:
        return {(): rng.randint(1, 3)}
    ch = set()
    while len(ch) < 2:
        ch.add(T.rand_charge(mod, rng))
    D = rng.randint(1, 2)
    return {t: D for t in ch}


def subset_leg(uni, rng):
    ts = sorted(uni)
    k = rng.randint(1, len(ts))
    return [(t, uni[t]) for t in sorted(rng.sample(ts, k))]


def init_struct(sym, s, legs, rng, dtype=None, density=None):
    ns = T.admissible_charges(sym, s, legs)
    return {'s': list(s), 'legs': legs, 'n': rng.choice(ns), 'dtype': dtype or ('complex128' if rng.random() < 0.25 else 'float64'), 'isdiag': False,
            'dataseed': rng.randrange(1 << 30), 'density': density or rng.choice((0.6, 0.85, 1.0))}


def rand_parts(lr, rng, force_fusion=True):
    p = list(range(lr))
    rng.shuffle(p)
    parts, i = [], 0
    while i < lr:
        k = rng.choice((1, 2, 2, 3))
        parts.append(p[i:i + k])
        i += k
    if force_fusion and all(len(x) == 1 for x in parts) and lr >= 2:
        parts = [p[:2]] + [[x] for x in p[2:]]
    return parts


# fusion must be faithful under every configuration: scenarios are run under the three tensordot policies and both default fusion modes
KNOBS = [{'fusion': 'hard', 'force': None, 'policy': 'fuse_to_matrix'}] * 2 + [{'fusion': 'hard', 'force': None, 'policy': 'fuse_contracted'}] * 2 + \
        [{'fusion': 'meta', 'force': None, 'policy': 'fuse_contracted'}, {'fusion': 'hard', 'force': None, 'policy': 'no_fusion'}, {'fusion': 'meta', 'force': None, 'policy': 'no_fusion'}]


class Runner:
    """ executes ops as they are produced, keeping observed abstract states (same event format as tensors.generate) """

    def __init__(self, sym, seed, inits, knob=None):
        self.sym = sym
        self.knob = knob or {'fusion': 'hard', 'force': None, 'policy': 'fuse_to_matrix'}
        cfg = T.make_config(sym, False, self.knob['fusion'], self.knob['force'], self.knob['policy'])
        self.regs = [T.build_init(cfg, sym, st) for st in inits]
        self.obs = [T.alpha(t, sym) for t in self.regs]
        self.ev = [{'op': 'init', 'obs': o} for o in self.obs]
        self.prog = T.Prog(sym, False, inits, [], seed)

    def do(self, op):
        out, res = T.apply_op(op, self.regs)
        e = T.event_of(op, out, res, self.sym, None)
        self.ev.append(e)
        op['reg'] = bool(out == 'ok' and e['out'] == 'ok')      # whether this op defines a register (re-executions keep the numbering aligned)
        self.prog.ops.append(op)
        if out == 'ok' and e['out'] == 'ok':
            self.regs.append(res)
            self.obs.append(e['obs'])
            return len(self.regs) - 1
        return None

    def trace(self):
        return dict(T.trace_dict(self.prog, self.knob, self.ev), skipped_defective=getattr(self, 'defective', 0))


def scenario(args):
    return scenario_runner(args).trace()


def scenario_runner(args):
    sym, seed, kind = args
    rng = random.Random(seed)
    mod = T.SYMS[sym]
    rank = rng.choice((2, 3, 3, 4)) if kind != 'S2' else 4
    sig2 = kind == 'S3' and rng.random() < 0.3
    if sig2:
        rank = 4
    unis = universe_legs(sym, rng, rank if kind != 'S2' else 2)
    if kind == 'S2':
        sa = [rng.choice((1, -1)), rng.choice((1, -1))]
        s = sa + [-x for x in sa]
        legs = [subset_leg(unis[0], rng), subset_leg(unis[1], rng), subset_leg(unis[0], rng), subset_leg(unis[1], rng)]
        perm = list(range(4))
        rng.shuffle(perm)                       # storage order differs from the pairing
        inits = [init_struct(sym, [s[i] for i in perm], [legs[i] for i in perm], rng)]
        R = Runner(sym, seed, inits, knob=KNOBS[(seed // 7) % len(KNOBS)])
        inv = [perm.index(i) for i in range(4)]  # position of original leg i
        mode = rng.choice(('hard', 'meta', 'hard'))
        a = R.do({'op': 'fuse', 'a': 0, 'parts': [[inv[0], inv[1]], [inv[2], inv[3]]], 'mode': mode})
        if a is None:
            return R
        if rng.random() < 0.5:
            a = R.do({'op': 'transpose', 'a': a, 'p': [1, 0]})
        R.do({'op': 'norm2', 'a': a})
        R.do({'op': 'trace', 'a': a, 'l0': [0], 'l1': [1]})
        if rng.random() < 0.5:
            c = R.do({'op': 'consume_transpose', 'a': a})
            R.do({'op': 'trace', 'a': c, 'l0': [1], 'l1': [0]})
        R.do({'op': 'unfuse', 'a': a, 'axes': [0, 1]})
        return R
    if kind == 'S9':
        # contraction over BLOCKED, NESTED hard-fused legs with different sector content (sum of products of spaces: intersection masks over a tree s(p(l0 p(l1 l2)) ...)):
        # 2-6 pairs (x_k, y_k) of rank-4 operands, legs of y_k drawn as other subsets of the same universes; reference = sum_k x_k . conj(y_k) over the three legs, built
        # from validated tensordot / lincomb events; the route through fuse (nested) -> block -> one tensordot must give the same tensor
        u9 = universe_legs(sym, rng, 4)
        sg = [rng.choice((1, -1)) for _ in range(4)]
        npair = rng.choice((2, 3, 4, 5, 5, 6))
        nest9 = rng.choice(('right', 'right', 'left', 'flat', 'post', 'post', 'post'))
        if nest9 == 'post' and T.SYMS[sym]:
            # open leg wide enough to take every combination of the three fused legs (so that E, with two sectors, leaves sectors of the blocked space to be dropped)
            u9 = list(u9)
            u9[3] = {T.fuse_charge(T.SYMS[sym], [a_, b_, c_], [sg[0] * -sg[3], sg[1] * -sg[3], sg[2] * -sg[3]]): 1 for a_ in u9[0] for b_ in u9[1] for c_ in u9[2]}
        full9 = lambda n: [(t, u9[n][t]) for t in sorted(u9[n])]
        # 'post' (the blocked leg is fused once more, with l2): on the y side the open leg of the blocked tensor is first contracted with a narrow matrix E (one or two sectors),
        # which removes blocks, so that the product p(s(...) l2) drops sectors of the blocked space on the y side only - the record of the sum node then lists fewer
        # charges than its summands produce (this is what fpeps.add followed by a gate does to a bond)
        sts, n0 = [], (tuple(0 for _ in T.SYMS[sym]) if nest9 == 'post' and T.SYMS[sym] else None)
        for k in range(2 * npair):
            lg = [subset_leg(u9[n], rng) if rng.random() < 0.7 else full9(n) for n in range(3)] + [full9(3)]
            adm = T.admissible_charges(sym, sg, lg)
            if n0 is None:
                n0 = rng.choice(adm)
            if n0 not in adm:
                lg = [[(t, u9[n][t]) for t in sorted(u9[n])] for n in range(4)]
                if n0 not in T.admissible_charges(sym, sg, lg):
                    break
            # (sparse y operands in 'post': an allowed block (S=c, l2=q) must be absent on the y side while c and q are present elsewhere)
            st = init_struct(sym, sg, lg, rng, dtype='float64' if rng.random() < 0.8 else 'complex128', density=0.5 if nest9 == 'post' and k >= npair else 1.0)
            st['n'] = n0
            sts.append(st)
        if len(sts) < 2 * npair:
            kind = 'S1'
        else:
            em = None
            if nest9 == 'post':
                sub = subset_leg(u9[3], rng)
                sub = sub[:2] if len(sub) >= 2 else full9(3)[:2]
                if rng.random() < 0.7:
                    # targeted sparsity: every y block whose (l0 l1) charge is c and whose open charge survives E is left out, so that c disappears from the y side's record
                    # of the blocked space after the second fusion, although the summands still produce it (through blocks that E removes)
                    mod9 = T.SYMS[sym]
                    keepo = {tuple(t) for t, _ in sub}
                    allow = [[c_ for c_ in itertools.product(*st_['legs']) if T.fuse_charge(mod9, [x[0] for x in c_], sg) == tuple(n0)] for st_ in sts[npair:]]
                    cs = sorted({T.fuse_charge(mod9, [c_[0][0], c_[1][0]], sg[:2]) for al in allow for c_ in al})
                    if cs:
                        c9 = rng.choice(cs)
                        for st_, al in zip(sts[npair:], allow):
                            st_['blocks'] = [[list(x[0]) for x in c_] for c_ in al
                                             if not (T.fuse_charge(mod9, [c_[0][0], c_[1][0]], sg[:2]) == c9 and tuple(c_[3][0]) in keepo)]
                ste = init_struct(sym, [-sg[3], sg[3]], [sub, sub], rng, dtype='float64', density=1.0)
                ste['n'] = tuple(0 for _ in T.SYMS[sym])
                sts.append(ste)
                em = len(sts) - 1
            R = Runner(sym, seed, sts, knob=KNOBS[(seed // 7) % len(KNOBS)])
            xs, ys = list(range(npair)), list(range(npair, 2 * npair))
            acc = None
            for x_, y_ in zip(xs, ys):
                if em is not None:
                    y_ = R.do({'op': 'tensordot', 'a': y_, 'b': em, 'la': [3], 'lb': [0], 'conj': [0, 0]})
                    if y_ is None:
                        return R
                d = R.do({'op': 'tensordot', 'a': x_, 'b': y_, 'la': [0, 1, 2], 'lb': [0, 1, 2], 'conj': [0, 1]})
                if d is None:
                    return R
                acc = d if acc is None else R.do({'op': 'lincomb', 'a': acc, 'b': d, 'amp': [[1, 0], [1, 0]]})
                if acc is None:
                    return R
            R.do(dict({'op': 'route', 'a': acc, 'how': 'blockdot', 'xs': xs, 'ys': ys, 'nest': nest9}, **({'em': em} if em is not None else {})))
            return R
    if kind == 'S8':
        # yastn.block: 2-4 operands (same signature and charge, legs drawn as subsets of one universe per leg and position) placed on a grid along 1-2 blocked legs,
        # the other legs common; the super-tensor must hold every element of every operand at the label shifted by the dimensions of the earlier positions; then the
        # blocked result is used: norm, contraction of a blocked leg with the conjugate result (= sum over the positions), blocking in two steps = blocking in one
        rk = rng.choice((2, 3))
        u8 = universe_legs(sym, rng, rk)
        sg = [rng.choice((1, -1)) for _ in range(rk)]
        nblk = rng.choice((1, 1, 2)) if rk >= 2 else 1
        blocked = sorted(rng.sample(range(rk), nblk))
        common = [n for n in range(rk) if n not in blocked]
        grid = [(i, j) for i in range(2) for j in range(2 if nblk == 2 else 1)]
        cells = rng.sample(grid, rng.randint(2, len(grid)))
        # legs per (leg, position): operands at the same position on a leg draw from the same universe (dimensions agree), possibly different subsets
        legs_at = {}
        n0 = None
        sts, poss = [], []
        for cell in cells:
            pos = [0] * rk
            for b_, c_ in zip(blocked, cell):
                pos[b_] = c_
            lg = [subset_leg(u8[n], rng) for n in range(rk)]
            adm = T.admissible_charges(sym, sg, lg)
            if n0 is None:
                n0 = rng.choice(adm)
            if n0 not in adm:
                continue
            st = init_struct(sym, sg, lg, rng, dtype='float64')
            st['n'] = n0
            sts.append(st)
            poss.append(pos)
        if len(sts) < 2:
            kind = 'S1'
        else:
            R = Runner(sym, seed, sts, knob=KNOBS[(seed // 7) % len(KNOBS)])
            ts = list(range(len(sts)))
            blk = R.do({'op': 'block', 'a': 0, 'ts': ts, 'pos': poss, 'common': common})
            if blk is None:
                return R
            R.do({'op': 'norm2', 'a': blk})
            bc = R.do({'op': 'conj', 'a': blk})
            if bc is not None:
                R.do({'op': 'tensordot', 'a': blk, 'b': bc, 'la': [blocked[0]], 'lb': [blocked[0]], 'conj': [0, 0]})
                R.do({'op': 'vdot', 'a': blk, 'b': blk, 'conj': [1, 0]})
            if len(sts) >= 3 and nblk == 1:
                # two-step blocking: the first two operands first, then the result (position of the first) with the rest - the same tensor as the one-step blocking
                # only when the first two are neighbours in the position order; compared through the common reference of each step
                pass
            tr = R.do({'op': 'transpose', 'a': blk, 'p': list(range(rk))[::-1]})
            if tr is not None:
                R.do({'op': 'norm2', 'a': tr})
            return R
    if kind == 'S7':
        # n-ary sums / incompatibility that is visible neither from the first operand nor at the top level: b and c give different dimensions to one charge q of a
        # constituent leg x, but pair it with different charges of y (different effective sectors, so the fused legs themselves do not clash); a does not have q at all
        # (consistency of {charge: D} maps is not transitive).  Identically hard-fused (depth 1-2): every sum that contains b AND c must be rejected, the rest computed
        mod = T.SYMS[sym]
        if not mod:
            kind = 'S1'
        else:
            for _ in range(50):
                q, q2 = T.rand_charge(mod, rng), T.rand_charge(mod, rng)
                y1, y2 = T.rand_charge(mod, rng), T.rand_charge(mod, rng)
                f = lambda x, y: T.fuse_charge(mod, [x, y], [1, 1])
                if q != q2 and y1 != y2 and f(q, y1) != f(q, y2):
                    break
            else:
                kind = 'S1'
            if kind == 'S7':
                D = rng.choice((1, 2))
                ya = rng.choice((y1, y2))
                specs = [((q2, ya), {q2: rng.choice((1, 2, 3))}), ((q, y1), {q: D}), ((q, y2), {q: D + 1}), ((q, y2), {q: D})]     # a, b, c and d (d = c with b's dimension: compatible)
                Dy = {y1: rng.choice((1, 2)), y2: rng.choice((1, 2))}
                sts = []
                for (x, y), Dx in specs:
                    z = f(x, y)
                    sts.append({'s': [1, 1, -1], 'legs': [sorted(Dx.items()), [(y, Dy[y])], [(z, rng.choice((1, 2)))]], 'n': tuple(0 for _ in mod), 'dtype': 'float64', 'isdiag': False,
                                'dataseed': rng.randrange(1 << 30), 'density': 1.0})
                R = Runner(sym, seed, sts, knob=KNOBS[(seed // 7) % len(KNOBS)])
                regs = [R.do({'op': 'fuse', 'a': r, 'parts': [[0, 1], [2]], 'mode': 'hard'}) for r in range(4)]
                if None not in regs and rng.random() < 0.5:
                    r2 = [R.do({'op': 'fuse', 'a': r, 'parts': [[0, 1]], 'mode': 'hard'}) for r in regs]
                    regs = r2 if None not in r2 else regs
                if None in regs:
                    return R
                a, b, c, d = regs
                for x, y, z in ((a, b, c), (b, a, c), (a, c, b), (c, b, a), (a, b, d), (d, a, b)):
                    R.do({'op': 'add3', 'a': x, 'b': y, 'c': z, 'amp': [[1, 0], [rng.choice((1, -1, 2)), 0], [1, 0]]})
                for x, y in ((a, b), (a, c), (b, c), (c, b), (b, d)):
                    R.do({'op': 'lincomb', 'a': x, 'b': y, 'amp': [[1, 0], [1, 0]]})
                return R
    if kind == 'S6':
        # in-place contraction over (x, y) where the merged operand needs zero padding: every block of a has its own charge on the outgoing leg and holds ONE of several
        # (x, y) combinations of its sector; the blocks stored last have no partner in b.  The sizes are searched so that the padding equals the size of the partner-less
        # blocks (old and new data then have the same length - the situation in which a "nothing to move" shortcut is tempting and wrong)
        mod = T.SYMS[sym]
        if not mod:
            kind = 'S5'
        else:
            for _ in range(200):
                xs = sorted({T.rand_charge(mod, rng) for _ in range(3)})[:2]
                ys = sorted({T.rand_charge(mod, rng, 2) for _ in range(4)})
                if len(xs) < 2 or len(ys) < 3:
                    continue
                Dx = {t: rng.choice((1, 1, 2, 3)) for t in xs}
                Dy = {t: rng.choice((1, 1, 2)) for t in ys}
                ynp = ys[-1]                                       # the y charge that b does not have
                combos = [(x, y) for x in xs for y in ys if y != ynp]
                rng.shuffle(combos)
                osum = lambda x, y: T.fuse_charge(mod, [x, y], [1, 1])
                part, seen = [], set()
                for x, y in combos:
                    if osum(x, y) not in seen and len(part) < 3:
                        part.append((x, y))
                        seen.add(osum(x, y))
                nonp = [(x, ynp) for x in xs if osum(x, ynp) not in seen and osum(x, ynp) > max(seen)]
                if len(part) < 2 or not nonp:
                    continue
                Do = {o: rng.choice((1, 2, 3)) for o in seen | {osum(x, y) for x, y in nonp}}
                a_blocks = part + nonp
                # sectors of the merged (x, y) leg of a: all combinations of the x and y charges PRESENT in a's blocks
                ax, ay = {x for x, _ in a_blocks}, {y for _, y in a_blocks}
                Dc = lambda c: sum(Dx[x] * Dy[y] for x in ax for y in ay if osum(x, y) == c)
                padding = sum(Do[osum(x, y)] * (Dc(osum(x, y)) - Dx[x] * Dy[y]) for x, y in part)
                lost = sum(Do[osum(x, y)] * Dx[x] * Dy[y] for x, y in nonp)
                if padding == lost and padding > 0:
                    break
            else:
                kind = 'S5'
            if kind == 'S6':
                extra = [(x, y) for x in xs for y in ys if y != ynp and (x, y) not in part][:1]        # a combination of b that is absent in a
                pus = {}
                for x, y in part + extra:
                    pus[osum(x, y)] = rng.choice((1, 2))
                la = [sorted(Do.items()), sorted(Dx.items()), sorted(Dy.items())]
                lb = [sorted(Dx.items()), sorted((t, D) for t, D in Dy.items() if t != ynp), sorted(pus.items())]
                zero = tuple(0 for _ in mod)
                sta = {'s': [-1, 1, 1], 'legs': la, 'n': zero, 'dtype': 'float64', 'isdiag': False, 'dataseed': rng.randrange(1 << 30), 'density': 1.0,
                       'blocks': [(osum(x, y), x, y) for x, y in a_blocks]}
                stb = {'s': [-1, -1, 1], 'legs': lb, 'n': zero, 'dtype': 'float64', 'isdiag': False, 'dataseed': rng.randrange(1 << 30), 'density': 1.0,
                       'blocks': [(x, y, osum(x, y)) for x, y in part + extra]}
                R = Runner(sym, seed, [sta, stb], knob=KNOBS[(seed // 7) % len(KNOBS)])
                R.do({'op': 'tensordot', 'a': 0, 'b': 1, 'la': [1, 2], 'lb': [0, 1], 'conj': [0, 0]})
                for mode in ('hard', 'meta'):
                    fa = R.do({'op': 'fuse', 'a': 0, 'parts': [[0], [1, 2]], 'mode': mode})
                    fb = R.do({'op': 'fuse', 'a': 1, 'parts': [[0, 1], [2]], 'mode': mode})
                    if fa is not None and fb is not None:
                        R.do({'op': 'tensordot', 'a': fa, 'b': fb, 'la': [1], 'lb': [0], 'conj': [0, 0]})
                return R
    if kind == 'S5':
        # sparse operands contracted IN PLACE (last legs of a with the first legs of b, no transposition) over 2-3 legs: blocks without a partner in the other operand,
        # charge combinations of the contracted group that are absent (zero padding inside the merged blocks), dimension mostly one; over the original legs and over
        # the identically fused group (hard / meta, depth 1-2), under the policy of the job
        nc = rng.choice((2, 2, 3))
        cu = universe_legs(sym, rng, nc)
        if T.SYMS[sym]:
            cu = [{t: (1 if rng.random() < 0.7 else 2) for t in u} for u in cu]
        ou, pu = universe_legs(sym, rng, 1)[0], universe_legs(sym, rng, 1)[0]
        sc = [rng.choice((1, -1)) for _ in range(nc)]
        la = [sorted(ou.items())] + [sorted(u.items()) for u in cu]
        lb = [sorted(u.items()) for u in cu] + [sorted(pu.items())]
        sta = init_struct(sym, [rng.choice((1, -1))] + sc, la, rng, density=rng.choice((0.4, 0.5, 0.7)))
        stb = init_struct(sym, [-x for x in sc] + [rng.choice((1, -1))], lb, rng, density=rng.choice((0.4, 0.5, 0.7)))
        R = Runner(sym, seed, [sta, stb], knob=KNOBS[(seed // 7) % len(KNOBS)])
        ca, cb = list(range(1, nc + 1)), list(range(nc))
        R.do({'op': 'tensordot', 'a': 0, 'b': 1, 'la': ca, 'lb': cb, 'conj': [0, 0]})
        for mode in rng.sample(('hard', 'meta'), 2):
            fa = R.do({'op': 'fuse', 'a': 0, 'parts': [[0], ca], 'mode': mode})
            fb = R.do({'op': 'fuse', 'a': 1, 'parts': [cb, [nc]], 'mode': mode})
            if fa is not None and fb is not None:
                R.do({'op': 'tensordot', 'a': fa, 'b': fb, 'la': [1], 'lb': [0], 'conj': [0, 0]})
            if nc == 3:
                fa = R.do({'op': 'fuse', 'a': 0, 'parts': [[0], [1, 2], [3]], 'mode': mode})
                fb = R.do({'op': 'fuse', 'a': 1, 'parts': [[0, 1], [2], [3]], 'mode': mode})
                if fa is not None and fb is not None:
                    R.do({'op': 'tensordot', 'a': fa, 'b': fb, 'la': [1, 2], 'lb': [0, 1], 'conj': [0, 0]})
                    ffa = R.do({'op': 'fuse', 'a': fa, 'parts': [[0], [1, 2]], 'mode': mode})
                    ffb = R.do({'op': 'fuse', 'a': fb, 'parts': [[0, 1], [2]], 'mode': mode})
                    if ffa is not None and ffb is not None:
                        R.do({'op': 'tensordot', 'a': ffa, 'b': ffb, 'la': [1], 'lb': [0], 'conj': [0, 0]})
        return R
    sa = [rng.choice((1, -1)) for _ in range(rank)]
    opposite = rng.random() < 0.5
    sb = [-x for x in sa] if opposite else list(sa)
    first_parts = None
    if sig2:
        # two hard-fused groups; the SECOND constituent of one group of b has the wrong signature (top-level signatures still match),
        # the other group has different sector content in a and b: both orders of listing the pairs must be rejected
        p = list(range(4))
        rng.shuffle(p)
        first_parts = [p[:2], p[2:]]
        sb[first_parts[rng.randrange(2)][1]] *= -1
    elif kind == 'S3' and rng.random() < 0.4 and rank >= 3:
        # incompatibility hidden below the top level: one constituent (not the first of its group) of b has the wrong signature
        first_parts = rand_parts(rank, rng)
        big = [p for p in first_parts if len(p) > 1]
        if big:
            g = rng.choice(big)
            sb[g[rng.randrange(1, len(g))]] *= -1
    la = [subset_leg(u, rng) for u in unis]
    lb = [subset_leg(u, rng) if rng.random() < 0.75 else la[i] for i, u in enumerate(unis)]
    sta = init_struct(sym, sa, la, rng)
    stb = init_struct(sym, sb, lb, rng)
    if not opposite:   # same signature: make lincomb / vdot possible by giving both the same charge when admissible
        common = set(T.admissible_charges(sym, sa, la)) & set(T.admissible_charges(sym, sb, lb))
        if common:
            n = rng.choice(sorted(common))
            sta['n'] = stb['n'] = n
    R = Runner(sym, seed, [sta, stb], knob=KNOBS[(seed // 7) % len(KNOBS)])
    R.do({'op': 'norm2', 'a': 0})
    a, b = 0, 1
    depth = rng.choice((1, 1, 2, 3)) if not sig2 else 1
    for d in range(depth):
        lr = len(R.obs[a]['grp'])
        if lr < 2:
            break
        parts = first_parts if (first_parts and d == 0) else rand_parts(lr, rng)
        mode = rng.choice(('hard', 'meta', 'none')) if not sig2 else 'hard'
        partsb, modeb = parts, mode
        if kind == 'S3' and d == depth - 1 and not first_parts:      # incompatible fusion of b: other order inside a group, other partition, or other mode
            how = rng.choice(('order', 'partition', 'mode'))
            big = [i for i, p in enumerate(parts) if len(p) > 1]
            if how == 'order' and big:
                i = rng.choice(big)
                q = list(parts[i])
                q[0], q[1] = q[1], q[0]
                partsb = parts[:i] + [q] + parts[i + 1:]
            elif how == 'partition' and big:
                i = rng.choice(big)
                partsb = parts[:i] + [[parts[i][0]], parts[i][1:]] + parts[i + 1:]
            else:
                modeb = 'meta' if mode in ('hard', 'none') else 'hard'
        a2 = R.do({'op': 'fuse', 'a': a, 'parts': parts, 'mode': mode})
        b2 = R.do({'op': 'fuse', 'a': b, 'parts': partsb, 'mode': modeb})
        if a2 is None or b2 is None:
            return R
        a, b = a2, b2
        R.do({'op': 'norm2', 'a': a})
        if rng.random() < 0.35:     # lazy transposition of both (same permutation keeps the operands aligned)
            lr = len(R.obs[a]['grp'])
            p = list(range(lr))
            rng.shuffle(p)
            a2 = R.do({'op': 'transpose', 'a': a, 'p': p})
            if len(R.obs[b]['grp']) == lr:
                b2 = R.do({'op': 'transpose', 'a': b, 'p': p})
                if a2 is not None and b2 is not None:
                    a, b = a2, b2
    if kind == 'S4':
        # unfuse everything, level by level
        for _ in range(4):
            f = [k for k in range(len(R.obs[a]['grp'])) if len(R.obs[a]['grp'][k]) > 1]
            if not f:
                break
            a = R.do({'op': 'unfuse', 'a': a, 'axes': f})
            R.do({'op': 'norm2', 'a': a})
        return R
    lra, lrb = len(R.obs[a]['grp']), len(R.obs[b]['grp'])
    conj_b = 0 if opposite else 1
    # tensordot over 1..all logical legs (aligned positions), over the fused ones preferably
    if lra == lrb:
        k = rng.randint(1, lra) if rng.random() < 0.5 else lra
        ax = rng.sample(range(lra), k)
        c = R.do({'op': 'tensordot', 'a': a, 'b': b, 'la': ax, 'lb': ax, 'conj': [0, conj_b]})
        if sig2 and len(ax) > 1:
            R.do({'op': 'tensordot', 'a': a, 'b': b, 'la': ax[::-1], 'lb': ax[::-1], 'conj': [0, conj_b]})
        R.do({'op': 'vdot', 'a': a, 'b': b, 'conj': [0, conj_b]})
        if not opposite:
            R.do({'op': 'lincomb', 'a': a, 'b': b, 'amp': [[1, 0], [rng.choice((1, -1, 2)), 0]]})
            # n-ary sums: every operand has to be embedded into the union of the fused spaces, whatever the order in which matching and differing operands come
            x, y, z = rng.choice(((a, b, a), (a, b, a), (b, a, b), (a, a, b), (b, a, a)))
            R.do({'op': 'add3', 'a': x, 'b': y, 'c': z, 'amp': [[1, 0], [rng.choice((1, -1, 2)), 0], [rng.choice((1, 3)), 0]]})
            R.do({'op': 'vdot', 'a': a, 'b': b, 'conj': [1, 0]})
        else:
            bc = R.do({'op': 'conj', 'a': b})
            if bc is not None:
                s = R.do({'op': 'lincomb', 'a': a, 'b': bc, 'amp': [[1, 0], [1, 0]]})
                if s is not None and rng.random() < 0.5:
                    f = [k for k in range(len(R.obs[s]['grp'])) if len(R.obs[s]['grp'][k]) > 1]
                    if f:
                        R.do({'op': 'unfuse', 'a': s, 'axes': f})
        if c is not None:
            f = [k for k in range(len(R.obs[c]['grp'])) if len(R.obs[c]['grp'][k]) > 1]
            if f:
                R.do({'op': 'unfuse', 'a': c, 'axes': f})
    else:
        R.do({'op': 'tensordot', 'a': a, 'b': b, 'la': [0], 'lb': [0], 'conj': [0, conj_b]})
    return R


def main(tier, seed, replay=None):
    rep = Report('C03', tier, seed, 'model_checking')
    rep.cov['rule'] = ('scenario programs S1 (binary ops over identically fused legs with equal/overlapping/disjoint sector content), S2 (trace over fused legs), '
                       'S3 (incompatibly fused operands must be rejected), S4 (fuse to depth<=3 / unfuse roundtrip, norm), S5 (sparse operands contracted in place over 2-3 legs, original vs fused) in all symmetries and configurations, hard/meta/mixed fusion, '
                       'with lazy transpositions; non-trivial = event on a fused operand (or a fuse/unfuse event) with >= 1 element')
    kinds = ['S1', 'S1', 'S1', 'S2', 'S3', 'S4', 'S5', 'S6', 'S7', 'S8', 'S9']
    if replay:
        rep.write_evidence = False
        import json
        c = json.load(open(replay))['case']
        jobs = [(c['sym'], c['seed'], c['kind'])]
    else:
        n = 1260 if tier == 'quick' else 12000
        jobs = [(SYMLIST[i % 7], seed * 1000003 + i, kinds[(i // 7) % len(kinds)]) for i in range(n)]
    with ProcessPoolExecutor(max_workers=14) as ex:
        traces = list(ex.map(scenario, jobs, chunksize=4))
    for t, j in zip(traces, jobs):
        t['kind'] = j[2]
    nev, kindsd, rej = report_traces(rep, traces)
    for v in rep.violations:
        v[2]['kind'] = next((j[2] for j in jobs if j[1] == v[2]['seed']), None)
    rep.cov['traces_validated_against_impl'] = len(traces)
    rep.cov['evaluations'] = nev
    fusedev = 0
    for t in traces:
        regs = [e['obs'] for e in t['ev'] if 'obs' in e]
        for e in t['ev']:
            if e['op'] in ('fuse', 'unfuse') or (e['op'] != 'init' and any(len(g) > 1 for g in regs[e['a'] - 1]['grp'])):
                fusedev += 1
    rep.cov['distinct_nontrivial'] = fusedev
    rep.cov['parts'].update({'events_by_op': kindsd, 'rejections_checked': rej,
                             'S3_rejections_observed': sum(1 for t in traces if t['kind'] == 'S3' and any(e.get('out') == 'YastnError' for e in t['ev']))})
    t0 = traces[len(traces) // 2]
    rep.sample({'sym': t0['sym'], 'seed': t0['seed'], 'kind': t0['kind'], 'ops': [{k: v for k, v in e.items() if k != 'obs'} for e in t0['ev'] if e['op'] != 'init']})
    rep.assumptions += ['alpha reads a fused tensor through unfuse_legs; the S4/S1 unfuse events compare that with the never-fused original, so a defect in unfuse that '
                        'does not cancel against fuse is visible', 'yastn.block: unfused operands only']
    return rep.finish()
