"""C03 — leg fusion is a faithful, reversible change of basis.

Scenario programs (executed on real tensors, validated by TLC against the label model of TensorOps.tla, in which fusion only
regroups native legs and never touches an element):
  S1  two operands with corresponding legs drawn as independent subsets of one universe of sectors (equal / overlapping /
      disjoint sector content), fused identically (hard / meta / mixed, nested to depth 3), optionally lazily transposed,
      then tensordot / vdot / lincomb over the fused legs, then unfused;
  S2  one operand with two groups of legs of opposite signature fused identically and traced;
  S3  operands fused in different order / partition / mode and then combined: must be rejected with YastnError;
  S4  fuse to depth <= 3 and unfuse everything: the original tensor is restored; the norm is unchanged at every step.
"""
from __future__ import annotations
import random
import itertools
from concurrent.futures import ProcessPoolExecutor
from vlib import Report, validate_traces, Machinery
import tensors as T
from c01 import report_traces, SYMLIST


def universe_legs(sym, rng, n):
    """ n leg universes: each a map charge -> D (2-3 charges) """
    mod = T.SYMS[sym]
    unis = []
    if rng.random() < 0.45:      # all legs over ONE universe: fused sectors then often have identical, overlapping and disjoint constituents at once
        u = universe_legs_one(sym, rng)
        return [u] * n
    for _ in range(n):
        if not mod:
            unis.append({(): rng.randint(1, 3)})
            continue
        ch = set()
        while len(ch) < rng.choice((2, 2, 3)):
            ch.add(T.rand_charge(mod, rng))
        unis.append({t: rng.randint(1, 2) for t in ch})
    return unis


def universe_legs_one(sym, rng):
    mod = T.SYMS[sym]
    if not mod:
        return {(): rng.randint(1, 3)}
    ch = set()
    while len(ch) < 2:
        ch.add(T.rand_charge(mod, rng))
    D = rng.randint(1, 2)
    return {t: D for t in ch}


def subset_leg(uni, rng):
    ts = sorted(uni)
    k = rng.randint(1, len(ts))
    return [(t, uni[t]) for t in sorted(rng.sample(ts, k))]


def init_struct(sym, s, legs, rng, dtype=None, density=None):
    ns = T.admissible_charges(sym, s, legs)
    return {'s': list(s), 'legs': legs, 'n': rng.choice(ns), 'dtype': dtype or ('complex128' if rng.random() < 0.25 else 'float64'), 'isdiag': False,
            'dataseed': rng.randrange(1 << 30), 'density': density or rng.choice((0.6, 0.85, 1.0))}


def rand_parts(lr, rng, force_fusion=True):
    p = list(range(lr))
    rng.shuffle(p)
    parts, i = [], 0
    while i < lr:
        k = rng.choice((1, 2, 2, 3))
        parts.append(p[i:i + k])
        i += k
    if force_fusion and all(len(x) == 1 for x in parts) and lr >= 2:
        parts = [p[:2]] + [[x] for x in p[2:]]
    return parts


class Runner:
    """ executes ops as they are produced, keeping observed abstract states (same event format as tensors.generate) """

    def __init__(self, sym, seed, inits, knob=None):
        self.sym = sym
        self.knob = knob or {'fusion': 'hard', 'force': None, 'policy': 'fuse_to_matrix'}
        cfg = T.make_config(sym, False, self.knob['fusion'], self.knob['force'], self.knob['policy'])
        self.regs = [T.build_init(cfg, sym, st) for st in inits]
        self.obs = [T.alpha(t, sym) for t in self.regs]
        self.ev = [{'op': 'init', 'obs': o} for o in self.obs]
        self.prog = T.Prog(sym, False, inits, [], seed)

    def do(self, op):
        out, res = T.apply_op(op, self.regs)
        e = T.event_of(op, out, res, self.sym, None)
        self.ev.append(e)
        self.prog.ops.append(op)
        if out == 'ok':
            self.regs.append(res)
            self.obs.append(e['obs'])
            return len(self.regs) - 1
        return None

    def trace(self):
        return T.trace_dict(self.prog, self.knob, self.ev)


def scenario(args):
    return scenario_runner(args).trace()


def scenario_runner(args):
    sym, seed, kind = args
    rng = random.Random(seed)
    mod = T.SYMS[sym]
    rank = rng.choice((2, 3, 3, 4)) if kind != 'S2' else 4
    sig2 = kind == 'S3' and rng.random() < 0.3
    if sig2:
        rank = 4
    unis = universe_legs(sym, rng, rank if kind != 'S2' else 2)
    if kind == 'S2':
        sa = [rng.choice((1, -1)), rng.choice((1, -1))]
        s = sa + [-x for x in sa]
        legs = [subset_leg(unis[0], rng), subset_leg(unis[1], rng), subset_leg(unis[0], rng), subset_leg(unis[1], rng)]
        perm = list(range(4))
        rng.shuffle(perm)                       # storage order differs from the pairing
        inits = [init_struct(sym, [s[i] for i in perm], [legs[i] for i in perm], rng)]
        R = Runner(sym, seed, inits)
        inv = [perm.index(i) for i in range(4)]  # position of original leg i
        mode = rng.choice(('hard', 'meta', 'hard'))
        a = R.do({'op': 'fuse', 'a': 0, 'parts': [[inv[0], inv[1]], [inv[2], inv[3]]], 'mode': mode})
        if a is None:
            return R
        if rng.random() < 0.5:
            a = R.do({'op': 'transpose', 'a': a, 'p': [1, 0]})
        R.do({'op': 'norm2', 'a': a})
        R.do({'op': 'trace', 'a': a, 'l0': [0], 'l1': [1]})
        if rng.random() < 0.5:
            c = R.do({'op': 'consume_transpose', 'a': a})
            R.do({'op': 'trace', 'a': c, 'l0': [1], 'l1': [0]})
        R.do({'op': 'unfuse', 'a': a, 'axes': [0, 1]})
        return R
    sa = [rng.choice((1, -1)) for _ in range(rank)]
    opposite = rng.random() < 0.5
    sb = [-x for x in sa] if opposite else list(sa)
    first_parts = None
    if sig2:
        # two hard-fused groups; the SECOND constituent of one group of b has the wrong signature (top-level signatures still match),
        # the other group has different sector content in a and b: both orders of listing the pairs must be rejected
        p = list(range(4))
        rng.shuffle(p)
        first_parts = [p[:2], p[2:]]
        sb[first_parts[rng.randrange(2)][1]] *= -1
    elif kind == 'S3' and rng.random() < 0.4 and rank >= 3:
        # incompatibility hidden below the top level: one constituent (not the first of its group) of b has the wrong signature
        first_parts = rand_parts(rank, rng)
        big = [p for p in first_parts if len(p) > 1]
        if big:
            g = rng.choice(big)
            sb[g[rng.randrange(1, len(g))]] *= -1
    la = [subset_leg(u, rng) for u in unis]
    lb = [subset_leg(u, rng) if rng.random() < 0.75 else la[i] for i, u in enumerate(unis)]
    sta = init_struct(sym, sa, la, rng)
    stb = init_struct(sym, sb, lb, rng)
    if not opposite:   # same signature: make lincomb / vdot possible by giving both the same charge when admissible
        common = set(T.admissible_charges(sym, sa, la)) & set(T.admissible_charges(sym, sb, lb))
        if common:
            n = rng.choice(sorted(common))
            sta['n'] = stb['n'] = n
    R = Runner(sym, seed, [sta, stb])
    R.do({'op': 'norm2', 'a': 0})
    a, b = 0, 1
    depth = rng.choice((1, 1, 2, 3)) if not sig2 else 1
    for d in range(depth):
        lr = len(R.obs[a]['grp'])
        if lr < 2:
            break
        parts = first_parts if (first_parts and d == 0) else rand_parts(lr, rng)
        mode = rng.choice(('hard', 'meta', 'none')) if not sig2 else 'hard'
        partsb, modeb = parts, mode
        if kind == 'S3' and d == depth - 1 and not first_parts:      # incompatible fusion of b: other order inside a group, other partition, or other mode
            how = rng.choice(('order', 'partition', 'mode'))
            big = [i for i, p in enumerate(parts) if len(p) > 1]
            if how == 'order' and big:
                i = rng.choice(big)
                q = list(parts[i])
                q[0], q[1] = q[1], q[0]
                partsb = parts[:i] + [q] + parts[i + 1:]
            elif how == 'partition' and big:
                i = rng.choice(big)
                partsb = parts[:i] + [[parts[i][0]], parts[i][1:]] + parts[i + 1:]
            else:
                modeb = 'meta' if mode in ('hard', 'none') else 'hard'
        a2 = R.do({'op': 'fuse', 'a': a, 'parts': parts, 'mode': mode})
        b2 = R.do({'op': 'fuse', 'a': b, 'parts': partsb, 'mode': modeb})
        if a2 is None or b2 is None:
            return R
        a, b = a2, b2
        R.do({'op': 'norm2', 'a': a})
        if rng.random() < 0.35:     # lazy transposition of both (same permutation keeps the operands aligned)
            lr = len(R.obs[a]['grp'])
            p = list(range(lr))
            rng.shuffle(p)
            a2 = R.do({'op': 'transpose', 'a': a, 'p': p})
            if len(R.obs[b]['grp']) == lr:
                b2 = R.do({'op': 'transpose', 'a': b, 'p': p})
                if a2 is not None and b2 is not None:
                    a, b = a2, b2
    if kind == 'S4':
        # unfuse everything, level by level
        for _ in range(4):
            f = [k for k in range(len(R.obs[a]['grp'])) if len(R.obs[a]['grp'][k]) > 1]
            if not f:
                break
            a = R.do({'op': 'unfuse', 'a': a, 'axes': f})
            R.do({'op': 'norm2', 'a': a})
        return R
    lra, lrb = len(R.obs[a]['grp']), len(R.obs[b]['grp'])
    conj_b = 0 if opposite else 1
    # tensordot over 1..all logical legs (aligned positions), over the fused ones preferably
    if lra == lrb:
        k = rng.randint(1, lra) if rng.random() < 0.5 else lra
        ax = rng.sample(range(lra), k)
        c = R.do({'op': 'tensordot', 'a': a, 'b': b, 'la': ax, 'lb': ax, 'conj': [0, conj_b]})
        if sig2 and len(ax) > 1:
            R.do({'op': 'tensordot', 'a': a, 'b': b, 'la': ax[::-1], 'lb': ax[::-1], 'conj': [0, conj_b]})
        R.do({'op': 'vdot', 'a': a, 'b': b, 'conj': [0, conj_b]})
        if not opposite:
            R.do({'op': 'lincomb', 'a': a, 'b': b, 'amp': [[1, 0], [rng.choice((1, -1, 2)), 0]]})
            # n-ary sums: every operand has to be embedded into the union of the fused spaces, whatever the order in which matching and differing operands come
            x, y, z = rng.choice(((a, b, a), (a, b, a), (b, a, b), (a, a, b), (b, a, a)))
            R.do({'op': 'add3', 'a': x, 'b': y, 'c': z, 'amp': [[1, 0], [rng.choice((1, -1, 2)), 0], [rng.choice((1, 3)), 0]]})
            R.do({'op': 'vdot', 'a': a, 'b': b, 'conj': [1, 0]})
        else:
            bc = R.do({'op': 'conj', 'a': b})
            if bc is not None:
                s = R.do({'op': 'lincomb', 'a': a, 'b': bc, 'amp': [[1, 0], [1, 0]]})
                if s is not None and rng.random() < 0.5:
                    f = [k for k in range(len(R.obs[s]['grp'])) if len(R.obs[s]['grp'][k]) > 1]
                    if f:
                        R.do({'op': 'unfuse', 'a': s, 'axes': f})
        if c is not None:
            f = [k for k in range(len(R.obs[c]['grp'])) if len(R.obs[c]['grp'][k]) > 1]
            if f:
                R.do({'op': 'unfuse', 'a': c, 'axes': f})
    else:
        R.do({'op': 'tensordot', 'a': a, 'b': b, 'la': [0], 'lb': [0], 'conj': [0, conj_b]})
    return R


def main(tier, seed, replay=None):
    rep = Report('C03', tier, seed, 'model_checking')
    rep.cov['rule'] = ('scenario programs S1 (binary ops over identically fused legs with equal/overlapping/disjoint sector content), S2 (trace over fused legs), '
                       'S3 (incompatibly fused operands must be rejected), S4 (fuse to depth<=3 / unfuse roundtrip, norm) in all symmetries, hard/meta/mixed fusion, '
                       'with lazy transpositions; non-trivial = event on a fused operand (or a fuse/unfuse event) with >= 1 element')
    kinds = ['S1', 'S1', 'S1', 'S2', 'S3', 'S4']
    if replay:
        rep.write_evidence = False
        import json
        c = json.load(open(replay))['case']
        jobs = [(c['sym'], c['seed'], c['kind'])]
    else:
        n = 1260 if tier == 'quick' else 12000
        jobs = [(SYMLIST[i % 7], seed * 1000003 + i, kinds[(i // 7) % len(kinds)]) for i in range(n)]
    with ProcessPoolExecutor(max_workers=14) as ex:
        traces = list(ex.map(scenario, jobs, chunksize=4))
    for t, j in zip(traces, jobs):
        t['kind'] = j[2]
    nev, kindsd, rej = report_traces(rep, traces)
    for v in rep.violations:
        v[2]['kind'] = next((j[2] for j in jobs if j[1] == v[2]['seed']), None)
    rep.cov['traces_validated_against_impl'] = len(traces)
    rep.cov['evaluations'] = nev
    fusedev = 0
    for t in traces:
        regs = [e['obs'] for e in t['ev'] if 'obs' in e]
        for e in t['ev']:
            if e['op'] in ('fuse', 'unfuse') or (e['op'] != 'init' and any(len(g) > 1 for g in regs[e['a'] - 1]['grp'])):
                fusedev += 1
    rep.cov['distinct_nontrivial'] = fusedev
    rep.cov['parts'].update({'events_by_op': kindsd, 'rejections_checked': rej,
                             'S3_rejections_observed': sum(1 for t in traces if t['kind'] == 'S3' and any(e.get('out') == 'YastnError' for e in t['ev']))})
    t0 = traces[len(traces) // 2]
    rep.sample({'sym': t0['sym'], 'seed': t0['seed'], 'kind': t0['kind'], 'ops': [{k: v for k, v in e.items() if k != 'obs'} for e in t0['ev'] if e['op'] != 'init']})
    rep.assumptions += ['alpha reads a fused tensor through unfuse_legs; the S4/S1 unfuse events compare that with the never-fused original, so a defect in unfuse that '
                        'does not cancel against fuse is visible', 'yastn.block (sum legs) not covered yet']
    return rep.finish()
