"""C19 — symmetry rules are abelian groups; legs hold canonical charges.

 1. TLC model-checks the group axioms of Charges!Add exhaustively on the box (ChargesMC).
 2. I->S: the real sym.fuse / add_charges are called on every point of the box; TLC (TraceCharges)
    requires result = Charges!Add.  Since (1) holds for Add on the same box, the axioms hold for the code there.
 3. S->I: TLC enumerates Leg constructor arguments in and just outside the domain together with the
    expected outcome (Legs.tla); each is executed against the real yastn.Leg.
"""
from __future__ import annotations
import json
import itertools
import random
import numpy as np
from vlib import Report, tlc_ok, validate_traces, Machinery

SYMS = {'dense': (), 'Z2': (2,), 'Z3': (3,), 'U1': (0,), 'Z2xU1': (2, 0), 'U1xU1': (0, 0), 'U1xU1xZ2': (0, 0, 2)}


def sym_class(name):
    import yastn.sym as ys
    return {'dense': ys.sym_none, 'Z2': ys.sym_Z2, 'Z3': ys.sym_Z3, 'U1': ys.sym_U1, 'Z2xU1': ys.sym_Z2xU1,
            'U1xU1': ys.sym_U1xU1, 'U1xU1xZ2': ys.sym_U1xU1xZ2}[name]


def box(mod, B, outside=False):
    rng = [(range(-B, B + 1) if m == 0 else (range(-1, m + 1) if outside else range(m))) for m in mod]
    return [list(q) for q in itertools.product(*rng)]


def fuse_traces(tier, rep):
    Bof = {0: 1, 1: 2 if tier == 'quick' else 3, 2: 1 if tier == 'quick' else 2, 3: 1 if tier == 'quick' else 2}
    traces = []
    npoints = 0
    for name, mod in SYMS.items():
        cls = sym_class(name)
        assert cls.SYM_ID == name and cls.NSYM == len(mod), 'symmetry table of the harness out of date'
        B = Bof[len(mod)]
        for m in range(0, 4):
            pts = box(mod, B, outside=(m == 1))
            if len(pts) ** m > 200000:      # keep a trace below ~10 MB: thin the last factor deterministically
                continue
            rows = [list(r) for r in itertools.product(pts, repeat=m)]
            ev = []
            for ss in itertools.product((-1, 1), repeat=m):
                # the SAME argument objects serve both calls (new_signature = -1 first): an implementation that scales or reduces its arguments in place answers the
                # second call with the wrong signs / charges, and the arguments are compared with their originals afterwards
                arr = np.array(rows, dtype=np.int64).reshape(len(rows), m, len(mod))
                arr0 = arr.copy()
                ssv = ss if m % 2 else np.array(ss, dtype=np.int64)       # documented forms: tuple, or int64 vector
                for snew in (-1, 1):
                    res = cls.fuse(arr, ssv, snew)
                    if not (np.array_equal(arr, arr0) and tuple(int(x) for x in ssv) == tuple(ss)):
                        rep.violation('fuse-arguments-changed:%s' % name, '%s.fuse(charges, signatures=%s, new_signature=%d) changed its arguments in place (signatures now %s)' % (name, ss, snew, list(ssv)),
                                      {'op': 'fuse-args', 'sym': name, 'ss': list(ss), 'snew': snew})
                        arr, ssv = arr0.copy(), (ss if m % 2 else np.array(ss, dtype=np.int64))
                    res = np.asarray(res).reshape(len(rows), len(mod)).tolist()
                    for k0 in range(0, len(rows), 1500):   # one vectorised call, logged in chunks
                        ev.append({'op': 'fuse', 'sym': name, 'ss': list(ss), 'snew': snew, 'ts': rows[k0:k0 + 1500], 'res': res[k0:k0 + 1500]})
                    npoints += len(rows)
                    # tuple API on a thinned subset of the same points
                    sub = rows[:: max(1, len(rows) // 40)]
                    r2 = [list(cls.add_charges(*map(tuple, r), signatures=ss, new_signature=snew)) for r in sub]
                    ev.append({'op': 'add_charges', 'sym': name, 'ss': list(ss), 'snew': snew, 'ts': sub, 'res': r2})
                    npoints += len(sub)
            # events are checked one by one (no state): a long trace is cut into pieces that the JSON reader of TLC takes comfortably (< ~8 MB a line)
            per = max(1, 8000000 // max(1, len(json.dumps(ev[0]))))
            for k0 in range(0, len(ev), per):
                traces.append({'what': '%s m=%d B=%d%s' % (name, m, B, '' if len(ev) <= per else ' part %d' % (k0 // per)), 'ev': ev[k0:k0 + per]})
        # defaults of add_charges
        ev = []
        pts = box(mod, B)
        r3 = [list(cls.add_charges(tuple(p), tuple(q))) for p in pts[:30] for q in pts[:30]]
        ev.append({'op': 'add_charges_default', 'sym': name, 'ss': [1, 1], 'snew': 1,
                   'ts': [[p, q] for p in pts[:30] for q in pts[:30]], 'res': r3})
        ev.append({'op': 'add_charges_empty', 'sym': name, 'ss': [], 'snew': 1, 'ts': [[]], 'res': [list(cls.add_charges())]})
        ev.append({'op': 'zero', 'sym': name, 'ss': [], 'snew': -1, 'ts': [[]], 'res': [list(cls.zero())]})
        traces.append({'what': '%s defaults' % name, 'ev': ev})
    return traces, npoints


def run_leg_cases(cases, rep, rng):
    import yastn
    from yastn import YastnError
    ran = acc = 0
    cfgs = {n: yastn.make_config(sym=sym_class(n)) for n in SYMS}
    for c in cases:
        _, name, s, t, D, outcome = c
        nsym = len(SYMS[name])
        nested = nsym > 0 and len(t) == len(D) * nsym
        tt = [tuple(t[i * nsym:(i + 1) * nsym]) for i in range(len(D))] if nested else list(t)
        if nested and nsym == 1 and (ran % 2):
            tt = list(t)                                # flat ints are the documented short form for NSYM = 1
        variants = [(tt, list(D), 'int')]
        if outcome != 'YastnError' and ran % 7 == 0:
            variants.append(([tuple(float(x) for x in q) if isinstance(q, tuple) else float(q) for q in tt], [np.int64(x) for x in D], 'float-valued t, np.int64 D'))
            if D:
                variants.append((tt, [D[0] + 0.5] + list(D[1:]), 'non-integer D'))
        symarg = cfgs[name] if ran % 3 else sym_class(name)
        for tv, Dv, vname in variants:
            exp = 'YastnError' if vname == 'non-integer D' else outcome
            ran += 1
            try:
                leg = yastn.Leg(symarg, s=s, t=tv, D=Dv)
                got = {'s': leg.s, 'tD': [[list(q), d] for q, d in zip(leg.t, leg.D)]}
            except YastnError:
                leg, got = None, 'YastnError'
            except Exception as e:  # noqa
                leg, got = None, 'raised %s' % type(e).__name__
            if got != exp:
                rep.violation('Leg:%s:s=%s:t=%s:D=%s:%s' % (name, s, t, D, vname),
                              'Leg(%s, s=%s, t=%s, D=%s) [%s]: spec outcome %s, implementation %s' % (name, s, tv, Dv, vname, exp, got),
                              {'op': 'Leg', 'sym': name, 's': s, 't': t, 'D': D, 'variant': vname, 'expected': exp, 'got': got})
                continue
            if leg is None:
                continue
            acc += 1
            cj = leg.conj()
            bad = None
            if not (cj.s == -leg.s and cj.t == leg.t and cj.D == leg.D and cj.sym is leg.sym):
                bad = 'conj() must keep sectors and flip the signature'
            elif not (cj.conj() == leg and hash(cj.conj()) == hash(leg)):
                bad = 'conj() is not an involution'
            elif not all(type(x) is int for x in leg.D) or not all(type(x) is int for q in leg.t for x in q) or type(leg.s) is not int:
                bad = 'stored t/D/s are not plain ints'
            elif acc % 5 == 0:
                try:   # dual space: leg contracts with conj(leg) ...
                    a = yastn.ones(cfgs[name], legs=[leg, cj])
                    nrm = yastn.tensordot(a, a.conj(), axes=((0, 1), (0, 1))).to_number()
                    if abs(nrm - sum(d * d for d in leg.D)) > 1e-12:
                        bad = 'ones(leg, conj(leg)) contracted with its conjugate gives %s, expected sum D^2' % nrm
                except Exception as e:  # noqa
                    bad = 'leg and conj(leg) not contractible: %s' % type(e).__name__
                if not bad:
                    try:  # ... and not with itself
                        yastn.tensordot(a, a, axes=((0,), (0,)))
                        bad = 'contraction of a leg with itself (equal signatures) was not rejected'
                    except YastnError:
                        pass
            if bad:
                rep.violation('Leg.conj:%s:s=%s:t=%s:D=%s' % (name, s, t, D), 'Leg(%s, s=%s, t=%s, D=%s): %s' % (name, s, tv, Dv, bad),
                              {'op': 'Leg.conj', 'sym': name, 's': s, 't': t, 'D': D})
    return ran, acc


def main(tier, seed, replay=None):
    rep = Report('C19', tier, seed, 'model_checking')
    rng = random.Random(seed)
    if replay:
        import json
        rep.write_evidence = False
        c = json.load(open(replay))['case']
        if c.get('op', '').startswith('Leg'):
            exp = c.get('expected')
            if exp is None:
                rr = tlc_ok('Legs', 'Legs_%s.cfg' % tier, workers=1, timeout=1500, mem='6g')
                exp = [x for x in rr.prints('CASE') if x[1:5] == [c['sym'], c['s'], c['t'], c['D']]][0][5]
            run_leg_cases([['CASE', c['sym'], c['s'], c['t'], c['D'], exp]], rep, rng)
            rep.cov['evaluations'] = rep.cov['distinct_nontrivial'] = 1
            return rep.finish()
    rep.cov['rule'] = ('quantifier domain = box of charges (complete for Z2, Z3; |t|<=B for U(1) factors) x tuples of <=3 charges x all '
                       'signature vectors x snew; Leg constructor arguments enumerated by TLC in and one step outside the valid domain. '
                       'non-trivial = distinct (sym, charges, signatures) point / distinct constructor argument tuple')
    # 1. design spec: axioms on the box
    r = tlc_ok('ChargesMC', 'ChargesMC_%s.cfg' % tier, workers=16, timeout=1500, mem='8g')
    rep.add_tlc('ChargesMC (group axioms, exhaustive on box)', r)
    # 2. I->S: fuse / add_charges
    traces, npoints = fuse_traces(tier, rep)
    acc, diag, res = validate_traces('TraceCharges', 'TraceCharges.cfg', traces, shards=min(16, len(traces)), timeout=1500)
    for t, a, d in zip(traces, acc, diag):
        if not a:
            rep.violation('fuse:%s:%s' % (t['what'], d), 'sym.fuse/add_charges disagrees with the group law (%s): %s' % (t['what'], d),
                          {'op': 'fuse', 'trace': t['what'], 'diag': d})
    rep.cov['traces_validated_against_impl'] += len(traces)
    rep.cov['parts']['fuse_points'] = npoints
    rep.sample({'fuse_event': {k: (v if k not in ('ts', 'res') else v[:3]) for k, v in traces[9]['ev'][0].items()}})
    # negative control: one corrupted result must be rejected
    import copy
    bad = copy.deepcopy(traces[5])
    e = bad['ev'][len(bad['ev']) // 2]
    if e['res'] and e['res'][-1]:
        e['res'][-1][0] += 1
        a2, d2, _ = validate_traces('TraceCharges', 'TraceCharges.cfg', [bad], shards=1)
        if a2[0]:
            raise Machinery('negative control: corrupted fuse trace was accepted')
        rep.cov['parts']['negative_control'] = 'corrupted fuse result rejected: %s' % d2[0][:120]
    # 3. S->I: Leg constructor
    r = tlc_ok('Legs', 'Legs_%s.cfg' % tier, workers=1, timeout=1500, mem='6g')
    rep.add_tlc('Legs (constructor argument space + outcome)', r)
    cases = r.prints('CASE')
    if len(cases) + 35 < r.distinct - 40:
        raise Machinery('could not parse all Leg cases: %d of %d' % (len(cases), r.distinct))
    ran, accd = run_leg_cases(cases, rep, rng)
    rep.cov['parts']['leg_cases'] = ran
    rep.cov['parts']['leg_cases_accepted'] = accd
    rep.sample({'leg_case': [c for c in cases if c[-1] != 'YastnError'][len(cases) % 97]})
    rep.sample({'leg_case': cases[len(cases) // 3]})
    if accd < 100:
        raise Machinery('vacuous: fewer than 100 accepted legs')
    rep.cov['evaluations'] = npoints + ran
    rep.cov['distinct_nontrivial'] = npoints + len(cases)
    rep.cov['exhaustive'] = True
    rep.assumptions += ['NumPy backend only', 'U(1) components bounded by the box; unbounded statement only for the spec law (not bound to code)']
    return rep.finish()
