------------------------------- MODULE Krylov -------------------------------
(***************************************************************************)
(* The adaptive controller of expmv (yastn/krylov/_krylov.py:97-170,       *)
(* Niesen-Wright): the integer part of its state and the clamping rules,   *)
(* variable-free so that the design model (KrylovMC) and the trace spec    *)
(* (TraceKrylov) share one source of truth.                                *)
(*   V  : retained Krylov basis, lenV vectors; m = lenV - 1 (or lenV after *)
(*        a happy breakdown) is the size of the projected matrix.          *)
(*   an iteration either ACCEPTS (time advances by tau, V is reset) or     *)
(*   REJECTS (V is kept; tau shrinks or ncv grows).                        *)
(***************************************************************************)
EXTENDS Integers, Sequences, FiniteSets, TLC
Max(a, b) == IF a >= b THEN a ELSE b
Min(a, b) == IF a <= b THEN a ELSE b
Ceil43(m) == (13333 * m + 9999) \div 10000              \* ceil(1.3333 m)
Floor34(m) == (3 * m) \div 4                            \* floor(0.75 m)
(* line 170: ncv = max(1, min(ncv_max, ceil(1.3333 m), max(floor(0.75 m), ncv_new))) *)
ClampNcv(ncvmax, m, ncvnew) == Max(1, Min(ncvmax, Min(Ceil43(m), Max(Floor34(m), ncvnew))))
NcvLo(ncvmax, m) == Max(1, Min(ncvmax, Min(Ceil43(m), Floor34(m))))
NcvHi(ncvmax, m) == Max(1, Min(ncvmax, Ceil43(m)))
(* expand_krylov_space(V, ncv): without breakdown the basis is extended to ncv + 1 vectors, never shrunk *)
LenAfter(lenIn, ncv) == Max(lenIn, ncv + 1)
(* the branch that must force a smaller step: the Krylov space cannot grow any more *)
ForcedShrink(rule, m, ncvmax) == IF rule = "geq" THEN m >= ncvmax ELSE m = ncvmax
=============================================================================
