SPECIFICATION Spec
CONSTANTS Dims <- DimsSmall
 Cap = 2
 OnlyForests = FALSE
CONSTRAINT Bounded
INVARIANT I_ForestInside
INVARIANT I_ForestFixpoint
INVARIANT I_CycleDoubleCounts
INVARIANT I_NonTreeBond
PROPERTY Monotone
