INIT Init
NEXT Next
CONSTANTS
  NMax = 4
  Sweeps = 2
INVARIANT Inv_FreshRead
INVARIANT Inv_TimeBudget
