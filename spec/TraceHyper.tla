----------------------------- MODULE TraceHyper -----------------------------
(***************************************************************************)
(* C14 as a hyper-property: ONE program, executed under several            *)
(* configurations (tensordot_policy x default_fusion x force_fusion) and   *)
(* placements of consume_transpose()/copy().  Each execution is validated  *)
(* separately against the exact reference by TraceTensor (so values,       *)
(* signatures and charges agree with the reference and hence with each     *)
(* other).  This module compares the executions with each other, event by  *)
(* event: ObsEqAll = same outcome, signature, charge, fusion-tree SHAPES   *)
(* (modes may differ between hard and meta), and the same LEGS.            *)
(* x.sup = per native leg the sectors that carry a non-zero element.       *)
(***************************************************************************)
EXTENDS Integers, Sequences, FiniteSets, TLC, Json, IOUtils
Traces == ndJsonDeserialize(IOEnv.TRACE_FILE)
VARIABLES tid, l
Ev == Traces[tid].ev
RangeOf(q) == {q[i] : i \in 1..Len(q)}
Shape(tr) == [p \in 1..Len(tr) |-> tr[p][1]]
Same(x, y) == /\ x.out = y.out
              /\ (x.out = "ok" => /\ x.s = y.s /\ x.n = y.n /\ Len(x.grp) = Len(y.grp)
                                  /\ \A k \in 1..Len(x.grp) : Shape(x.grp[k]) = Shape(y.grp[k])
                                  /\ x.legs = y.legs)
(* the only difference: sectors of legs on which every element is zero in both executions (stored zero blocks of an earlier step) *)
ZeroSectorOnly(x, y) == /\ x.out = "ok" /\ y.out = "ok" /\ x.s = y.s /\ x.n = y.n /\ Len(x.grp) = Len(y.grp)
                        /\ \A k \in 1..Len(x.grp) : Shape(x.grp[k]) = Shape(y.grp[k])
                        /\ Len(x.legs) = Len(y.legs) /\ x.sup = y.sup
                        /\ \A k \in 1..Len(x.legs) :
                              /\ \A p \in RangeOf(x.legs[k]), q \in RangeOf(y.legs[k]) : p[1] = q[1] => p[2] = q[2]
                              /\ \A p \in (RangeOf(x.legs[k]) \ RangeOf(y.legs[k])) \cup (RangeOf(y.legs[k]) \ RangeOf(x.legs[k])) : p[1] \notin RangeOf(x.sup[k])
Ok(e) == \A i \in 1..Len(e.x) : Same(e.x[1], e.x[i])
Category(e) == IF \A i \in 1..Len(e.x) : Same(e.x[1], e.x[i]) \/ ZeroSectorOnly(e.x[1], e.x[i]) THEN "zero-sector-legs" ELSE "observable-difference"
First(e) == CHOOSE i \in 1..Len(e.x) : ~Same(e.x[1], e.x[i])
Init == tid \in 1..Len(Traces) /\ l = 1
Step == l \in 1..Len(Ev) /\ (Ok(Ev[l]) = TRUE) /\ l' = l + 1 /\ UNCHANGED tid
Shown(x) == IF x.out = "ok" THEN x.legs ELSE <<x.out>>          \* the diagnostic is total: an execution that was rejected has no legs
Fail == l \in 1..Len(Ev) /\ ~Ok(Ev[l]) /\ PrintT(<<"REJECT", tid, l, ToString(<<Category(Ev[l]), "execution", First(Ev[l]), Shown(Ev[l].x[First(Ev[l])]), "vs execution 1", Shown(Ev[l].x[1])>>)>>)
        /\ l' = l + 1 /\ UNCHANGED tid
Done == l = Len(Ev) + 1 /\ PrintT(<<"ACCEPT", tid>>) /\ l' = -1 /\ UNCHANGED tid
Next == Step \/ Fail \/ Done
=============================================================================
