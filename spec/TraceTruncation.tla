--------------------------- MODULE TraceTruncation ---------------------------
(* I->S binding for C13: every logged call of the real truncation_mask / svd_with_truncation / eigh_with_truncation *)
(* must return a mask (resp. kept spectrum and error) that is ADMISSIBLE for Truncation.tla; TLC infers the          *)
(* unobservable stage-1 survivor set.                                                                               *)
EXTENDS Truncation, Json, IOUtils
Traces == ndJsonDeserialize(IOEnv.TRACE_FILE)
VARIABLES tid, l
Ev == Traces[tid].ev

KOf(mask) == {p \in (1..Len(mask)) \X (1..3) : p[2] <= Len(mask[p[1]]) /\ mask[p[1]][p[2]]}
InDomain(e) == /\ Len(e.sp) \in 1..3 /\ \A c \in 1..Len(e.sp) : Len(e.sp[c]) \in 1..3 /\ \A i \in 1..Len(e.sp[c]) : e.sp[c][i] \in 0..9
               /\ Len(e.o.Dblk) = Len(e.sp) /\ Len(e.o.tolb) = Len(e.sp)
ShapeOK(e) == Len(e.mask) = Len(e.sp) /\ \A c \in 1..Len(e.sp) : Len(e.mask[c]) = Len(e.sp[c])
(* kept values of K in sector c, as a bag *)
BagSec(spx, K, c) == [v \in 0..9 |-> Cardinality({p \in K : p[1] = c /\ spx[p[1]][p[2]] = v})]
BagSeq(q) == [v \in 0..9 |-> Cardinality({i \in 1..Len(q) : q[i] = v})]

OkMask(e) == InDomain(e) /\ ShapeOK(e) /\ KOf(e.mask) \in Admissible(e.sp, e.o)
(* decompositions: kept spectrum per sector + squared reconstruction error (an integer for integer spectra) *)
OkDec(e) == InDomain(e) /\ Len(e.kept) = Len(e.sp) /\
            \E K \in Admissible(e.sp, e.o) : /\ \A c \in 1..Len(e.sp) : BagSec(e.sp, K, c) = BagSeq(e.kept[c])
                                             /\ e.err2 = Discarded2(e.sp, K)
Ok(e) == IF e.op = "mask" THEN OkMask(e) ELSE OkDec(e)
AdmBags(e) == {[c \in 1..Len(e.sp) |-> BagSec(e.sp, K, c)] : K \in Admissible(e.sp, e.o)}
Why(e) == IF ~InDomain(e) THEN <<"input outside the modelled domain (harness)">>
          ELSE IF e.op = "mask" THEN <<"mask not admissible", "sp", e.sp, "opts", e.o, "mask", e.mask, "admissible", Admissible(e.sp, e.o)>>
          ELSE <<"kept spectrum / error not admissible", e.op, "sp", e.sp, "opts", e.o, "kept", e.kept, "err2", e.err2,
                 "admissible err2", {Discarded2(e.sp, K) : K \in Admissible(e.sp, e.o)}>>

TInit == tid \in 1..Len(Traces) /\ l = 1
Step == l \in 1..Len(Ev) /\ (Ok(Ev[l]) = TRUE) /\ l' = l + 1 /\ UNCHANGED tid
Fail == l \in 1..Len(Ev) /\ ~Ok(Ev[l]) /\ PrintT(<<"REJECT", tid, l, ToString(Why(Ev[l]))>>) /\ l' = l + 1 /\ UNCHANGED tid
Fin  == l = Len(Ev) + 1 /\ PrintT(<<"ACCEPT", tid>>) /\ l' = -1 /\ UNCHANGED tid
TNext == Step \/ Fail \/ Fin
=============================================================================
