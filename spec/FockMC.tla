------------------------------- MODULE FockMC -------------------------------
(* Design check: the reference really is a representation of the canonical anticommutation relations (and, with ferm = FALSE, *)
(* of commuting hard-core modes).  Every (i, j, basis state) is one state.                                                      *)
EXTENDS Fock
CONSTANT NM
VARIABLES i, j, S, ferm
Init == i \in 1..NM /\ j \in 1..NM /\ S \in SUBSET (1..NM) /\ ferm \in {<<"all", 2>>, <<"species", 2>>, <<"none", 2>>}
Next == UNCHANGED <<i, j, S, ferm>>
A(w) == ApplyWord(w, <<1, S>>, ferm)
(* <T| (w1 + sgn * w2) |S> as a function of T, compared with <T| rhs |S> *)
Amp(w, T) == IF A(w)[1] # 0 /\ A(w)[2] = T THEN A(w)[1] ELSE 0
(* {c_i, c+_j} = delta_ij (fermions);  [c_i, c+_j] = 0 for i # j (commuting modes), {c_i, c+_i} = 1 on-site in both cases *)
CAR1 == \A T \in SUBSET (1..NM) :
           LET sgn == IF Anti(i, j, ferm) \/ i = j THEN 1 ELSE -1 IN
           Amp(<<<<"c", i>>, <<"cp", j>>>>, T) + sgn * Amp(<<<<"cp", j>>, <<"c", i>>>>, T) = IF i = j /\ T = S THEN 1 ELSE 0
(* {c_i, c_j} = 0 *)
CAR2 == \A T \in SUBSET (1..NM) :
           LET sgn == IF Anti(i, j, ferm) \/ i = j THEN 1 ELSE -1 IN
           Amp(<<<<"c", i>>, <<"c", j>>>>, T) + sgn * Amp(<<<<"c", j>>, <<"c", i>>>>, T) = 0
(* n = c+ c ; c c = 0 *)
NumberOp == A(<<<<"cp", i>>, <<"c", i>>>>) = A(<<<<"n", i>>>>) /\ A(<<<<"c", i>>, <<"c", i>>>>)[1] = 0
=============================================================================
