---------------------------- MODULE EnvCoherence ----------------------------
(***************************************************************************)
(* The MPS environment cache (yastn/tn/mps/_env.py: Env.F with             *)
(* update_env_ / clear_site_ / Heff0,1,2 / measure) as a COHERENCE         *)
(* PROTOCOL.  Sites are 0..N-1; ver[n+1] is the content version of site n. *)
(* An entry of F has a key <<n, m>> (environment that contains site n and  *)
(* points to m = n+-1; the boundaries are <<-1, 0>> and <<N, N-1>>) or,    *)
(* with precompute, a derived key <<n, m, m>> (F[n, m] with the MPO tensor *)
(* of site m attached), and a dependency vector dep: dep[k+1] = version of *)
(* site k it was computed from, or -1 if it does not contain site k.       *)
(* A read is FRESH iff every dependency equals the current version.        *)
(* Events (also the vocabulary of recorded traces):                        *)
(*   <<"write", n>>  <<"update", n, to>>  <<"clear", n>>                   *)
(*   <<"heff1", n>>  <<"heff2", n1, n2>>  <<"heff0", n1, n2>>  <<"measure", n1, n2>> *)
(***************************************************************************)
EXTENDS Integers, Sequences, FiniteSets, TLC
NoDep(N) == [k \in 1..N |-> -1]
(* F is a function over a fixed key domain (<<>> = absent): TLC evaluates EXCEPT eagerly, so a trace of thousands of events keeps a flat state *)
AllKeys(N) == {<<n, n + d>> : n \in -2..(N + 1), d \in {-1, 1}} \cup {<<n, n + d, n + d>> : n \in -2..(N + 1), d \in {-1, 1}}
Init0(N) == [F |-> [k \in AllKeys(N) |-> IF k \in {<<-1, 0>>, <<N, N - 1>>} THEN NoDep(N) ELSE <<>>], ver |-> [k \in 1..N |-> 0], bad |-> <<>>]
Has(s, key) == key \in DOMAIN s.F /\ s.F[key] # <<>>
Get(s, key) == [key |-> key, dep |-> s.F[key]]
Fresh(s, key) == Has(s, key) /\ \A k \in 1..Len(s.ver) : s.F[key][k] \in {-1, s.ver[k]}
Put(s, key, dep) == [s EXCEPT !.F[key] = dep]
Del4(s, a, b, c, d) == [s EXCEPT !.F[a] = <<>>, !.F[b] = <<>>, !.F[c] = <<>>, !.F[d] = <<>>]
Flag(s, why) == [s EXCEPT !.bad = IF s.bad = <<>> THEN why ELSE s.bad]
(* environment to the left of site n (sites < n) / to the right (sites > n); with precompute the derived entries are used when reading *)
LKey(n) == <<n - 1, n>>
RKey(n) == <<n + 1, n>>
(* get_FL / get_FR: create the derived entry from its parent if absent (a derived entry that survives its parent's refresh is the bug class) *)
Derive(s, parent, child) == IF Has(s, child) THEN s ELSE IF Has(s, parent) THEN Put(s, child, Get(s, parent).dep) ELSE Flag(s, <<"missing", parent>>)
ReadAll(s, keys, what) == IF \A k \in keys : Fresh(s, k) THEN s
                          ELSE Flag(s, <<what, "stale or missing entry", CHOOSE k \in keys : ~Fresh(s, k),
                                         IF Has(s, CHOOSE k \in keys : ~Fresh(s, k)) THEN Get(s, CHOOSE k \in keys : ~Fresh(s, k)).dep ELSE <<>>, "versions", s.ver>>)
Apply(s, e, pre) ==
    LET N == Len(s.ver) IN
    CASE e[1] = "write"  -> [s EXCEPT !.ver[e[2] + 1] = @ + 1]
      [] e[1] = "clear"  -> Del4(s, <<e[2], e[2] - 1>>, <<e[2], e[2] + 1>>, <<e[2], e[2] - 1, e[2] - 1>>, <<e[2], e[2] + 1, e[2] + 1>>)
      [] e[1] = "update" ->
            LET n == e[2]
                src == IF e[3] = "last" THEN (IF pre /\ Has(s, <<n - 1, n, n>>) THEN <<n - 1, n, n>> ELSE <<n - 1, n>>)
                                        ELSE (IF pre /\ Has(s, <<n + 1, n, n>>) THEN <<n + 1, n, n>> ELSE <<n + 1, n>>)
                dst == IF e[3] = "last" THEN <<n, n + 1>> ELSE <<n, n - 1>> IN
            IF ~Has(s, src) THEN Flag(s, <<"update from a missing entry", src>>)
            ELSE Put(s, dst, [Get(s, src).dep EXCEPT ![n + 1] = s.ver[n + 1]])
      [] e[1] = "heff1"  -> IF pre THEN LET s2 == Derive(s, RKey(e[2]), <<e[2] + 1, e[2], e[2]>>) IN ReadAll(s2, {LKey(e[2]), <<e[2] + 1, e[2], e[2]>>}, "Heff1")
                            ELSE ReadAll(s, {LKey(e[2]), RKey(e[2])}, "Heff1")
      [] e[1] = "heff2"  -> IF pre THEN LET s2 == Derive(Derive(s, LKey(e[2]), <<e[2] - 1, e[2], e[2]>>), RKey(e[3]), <<e[3] + 1, e[3], e[3]>>) IN
                                        ReadAll(s2, {<<e[2] - 1, e[2], e[2]>>, <<e[3] + 1, e[3], e[3]>>}, "Heff2")
                            ELSE ReadAll(s, {LKey(e[2]), RKey(e[3])}, "Heff2")
      [] e[1] \in {"heff0", "measure"} -> ReadAll(s, {<<e[2], e[3]>>, <<e[3], e[2]>>}, e[1])
(* what an entry must contain to be meaningful: exactly the sites on its side *)
SideOK(s) == \A key \in DOMAIN s.F : Has(s, key) => LET n == key[1]  m == key[2] IN
                \A k \in 0..(Len(s.ver) - 1) : (s.F[key][k + 1] # -1) <=> (IF m > n THEN k <= n ELSE k >= n)
(* fold Apply over the events; balanced recursion keeps the evaluation stack logarithmic in the length of a trace *)
RECURSIVE RunRange(_, _, _, _, _)
RunRange(s, evs, pre, lo, hi) == IF lo > hi THEN s
                                 ELSE IF lo = hi THEN Apply(s, evs[lo], pre)
                                 ELSE LET mid == (lo + hi) \div 2 IN RunRange(RunRange(s, evs, pre, lo, mid), evs, pre, mid + 1, hi)
Run(s, evs, pre, k) == RunRange(s, evs, pre, k, Len(evs))
=============================================================================
