INIT Init
NEXT Next
