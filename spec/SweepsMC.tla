------------------------------ MODULE SweepsMC ------------------------------
(***************************************************************************)
(* Design check for C09 / C10 / C06: sweep schedules of dmrg_, tdvp_ and   *)
(* compression_                                                            *)
(* (_dmrg_sweep_1site_, _dmrg_sweep_2site_, _tdvp_sweep_1site_,            *)
(* _tdvp_sweep_2site_, _tdvp_sweep_12site_) written as the exact event     *)
(* sequences the code produces on the environment cache and on the sites,  *)
(* then run through EnvCoherence: every Heff / measure read must be fresh. *)
(* For '12site' the per-bond decision enlarge_bond is a nondeterministic   *)
(* boolean: TLC explores every decision sequence.  Each site must be       *)
(* evolved forward by dt/2 twice and each bond backward accordingly        *)
(* (time budget), and the sweep must end with the energy environment fresh.*)
(***************************************************************************)
EXTENDS Sweeps
CONSTANTS NMax, Sweeps
VARIABLES N, method, pre, dec, done, s, budget
vars == <<N, method, pre, dec, done, s, budget>>
Init == /\ N \in 2..NMax /\ method \in {"dmrg1", "dmrg2", "tdvp1", "tdvp2", "tdvp12", "comp1", "comp2"} /\ pre \in BOOLEAN
        /\ dec = <<>> /\ done = FALSE /\ s = Init0(2) /\ budget = <<>>
Go == /\ ~done /\ done' = TRUE /\ UNCHANGED <<N, method, pre>>
      /\ dec' \in IF method = "tdvp12" THEN [1..(2 * N) -> BOOLEAN] ELSE {<<>>}
      /\ LET one == Schedule(N, method, dec')
             evs == Setup(N) \o Times(Cache(one), Sweeps) \o << <<"measure", -1, 0>> >> IN
         /\ s' = Run(Init0(N), evs, pre, 1)
         /\ budget' = <<NetSteps(one), [n \in 0..(N - 1) |-> Covered(one, n)]>>
Next == Go
(* every read of every sweep is fresh and every update finds its source; the energy measured at the end is computed from the returned state *)
Inv_FreshRead == done => s.bad = <<>>
(* TDVP projector splitting: per sweep the state is propagated by two half steps in total (forward minus backward exponentials = 2), *)
(* and every site is propagated by a net amount of at least one half step per direction                                             *)
Inv_TimeBudget == (done /\ method \in {"tdvp1", "tdvp2", "tdvp12"}) => (budget[1] = 2 /\ \A n \in 0..(N - 1) : budget[2][n] >= 2)
=============================================================================
