INIT Init
NEXT Next
CONSTANTS
  MaxN = 1
  MaxTri = 1
  RectDims <- RectDims44
  Labels = 2
INVARIANT ModelOK
INVARIANT Why
