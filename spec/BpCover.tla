------------------------------ MODULE BpCover ------------------------------
(***************************************************************************)
(* C12, design level: belief propagation (EnvBP) as message passing on the *)
(* ENTANGLEMENT GRAPH of a finite PEPS.  E = set of bonds {s0, s1} whose   *)
(* bond dimension exceeds one; across a bond of dimension one the message  *)
(* is a normalised 1x1 matrix and carries nothing.  msg[s][dn] = bag of    *)
(* sites behind the message that site s holds for its side dn.             *)
(* update_bond_(s0 -> s1) (transcribed): the message s1 receives is s0     *)
(* together with what s0 holds for its three OTHER sides.                  *)
(* On a forest no site is ever counted twice and the fixpoint is exact     *)
(* (every site of the entangled component exactly once); on a graph with   *)
(* a cycle the counts grow without bound: BP is exact on loop-free         *)
(* entanglement only - and a nearest-neighbour value on a bond that is not *)
(* in E but closes a loop of correlations is not exact either.             *)
(***************************************************************************)
EXTENDS EnvCover
Side == {"t", "l", "b", "r"}
Opp(dn) == CASE dn = "t" -> "b" [] dn = "b" -> "t" [] dn = "l" -> "r" [] dn = "r" -> "l"
DirOf(s0, s1) == CHOOSE dn \in Side : Sh(s0, dn) = s1
BondsOf(d) == {{s, Sh(s, "r")} : s \in {q \in SitesOf(d) : Sh(q, "r") \in SitesOf(d)}} \cup {{s, Sh(s, "b")} : s \in {q \in SitesOf(d) : Sh(q, "b") \in SitesOf(d)}}
BpEye(d) == [s \in SitesOf(d) |-> [dn \in Side |-> Empty(d)]]
Others(d, msg, s, dn) == SumSeq(d, [k \in 1..3 |-> msg[s][(CHOOSE q \in [1..3 -> Side \ {dn}] : \A i, j \in 1..3 : i # j => q[i] # q[j])[k]]])
Send(d, E, msg, s0, s1) ==
    LET dn == DirOf(s0, s1) IN
    [msg EXCEPT ![s1][Opp(dn)] = IF {s0, s1} \in E THEN Plus(One(d, s0), Others(d, msg, s0, dn)) ELSE Empty(d)]
RECURSIVE SendAll(_, _, _, _)
SendAll(d, E, msg, seq) == IF seq = <<>> THEN msg ELSE SendAll(d, E, Send(d, E, msg, Head(seq)[1], Head(seq)[2]), Tail(seq))
RECURSIVE Sweeps(_, _, _, _, _)
Sweeps(d, E, msg, seq, k) == IF k = 0 THEN msg ELSE Sweeps(d, E, SendAll(d, E, msg, seq), seq, k - 1)
(* the entangled component seen from s through its side dn (without going back through s) *)
RECURSIVE Reach(_, _, _)
Reach(E, S, avoid) == LET N == {q \in UNION E : q \notin S /\ q # avoid /\ \E p \in S : {p, q} \in E} IN IF N = {} THEN S ELSE Reach(E, S \cup N, avoid)
Behind(d, E, s, dn) == LET q == Sh(s, dn) IN IF q \in SitesOf(d) /\ {s, q} \in E THEN Reach(E, {q}, s) ELSE {}
Component(E, s) == Reach(E, {s}, <<-9, -9>>)
BpExactAt(d, E, msg, s) == \A dn \in Side : msg[s][dn] = BagOf(d, Behind(d, E, s, dn))
Bp1(d, msg, s) == Plus(One(d, s), SumSeq(d, [k \in 1..4 |-> msg[s][<<"t", "l", "b", "r">>[k]]]))            \* measure_1site
BpNn(d, msg, s0, s1) == LET dn == DirOf(s0, s1) IN                                                           \* measure_nn on the bond s0 - s1
                        Plus(Plus(One(d, s0), One(d, s1)), Plus(Others(d, msg, s0, dn), Others(d, msg, s1, Opp(dn))))
(* a forest: every bond is a bridge *)
IsForest(E) == \A e \in E : LET s == CHOOSE x \in e : TRUE  q == CHOOSE x \in e : x # s IN q \notin Reach(E \ {e}, {s}, <<-9, -9>>)
=============================================================================
