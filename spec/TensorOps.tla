------------------------------ MODULE TensorOps ------------------------------
(***************************************************************************)
(* Reference semantics of yastn's symmetric-tensor algebra on ABSTRACT     *)
(* tensors with exact (Gaussian-)integer entries.                          *)
(*                                                                         *)
(* An abstract tensor is a record                                          *)
(*   sym  : symmetry name (see Charges)                                    *)
(*   s    : signatures of the NATIVE legs (sequence of +1/-1)              *)
(*   n    : total charge                                                   *)
(*   legs : per native leg, the sequence of <<t, D>> (sector, dimension),  *)
(*          sorted by t                                                    *)
(*   grp  : per LOGICAL leg its fusion tree in preorder: sequence of       *)
(*          <<k, mode>>; <<0,"o">> = native leg, <<k,"p">> = hard fusion   *)
(*          of k subtrees, <<k,"m">> = meta fusion                         *)
(*   ent  : the set of NON-ZERO elements << lab, val >>, lab = per native  *)
(*          leg a label <<t, i>> (sector, index 1..D), val = <<re, im>>    *)
(*   dg   : diagonal flag                                                  *)
(* Fusion only groups native legs; it never touches an element.  Every     *)
(* operation is defined on labels, with no reference to blocks, slices,    *)
(* strides, lazy permutations or fusion masks.  Zeros are implicit, so     *)
(* "missing sectors behave as zeros" and "stored zero blocks are           *)
(* representation" are built in.                                           *)
(***************************************************************************)
EXTENDS Charges, FiniteSetsExt, SequencesExt, TLC

(* ------------------------- Gaussian integers ------------------------- *)
CZ == <<0, 0>>
CAdd(x, y) == <<x[1] + y[1], x[2] + y[2]>>
CMul(x, y) == <<x[1] * y[1] - x[2] * y[2], x[1] * y[2] + x[2] * y[1]>>
CConj(x) == <<x[1], -x[2]>>
CSum(S, f(_)) == <<MapThenSumSet(LAMBDA e : f(e)[1], S), MapThenSumSet(LAMBDA e : f(e)[2], S)>>

(* ------------------------------ trees -------------------------------- *)
RECURSIVE SubEnd(_, _), Skip(_, _, _)
Skip(tr, q, cnt) == IF cnt = 0 THEN q ELSE Skip(tr, SubEnd(tr, q), cnt - 1)
SubEnd(tr, p) == Skip(tr, p + 1, tr[p][1])                  \* position just after the subtree rooted at p
Leaves(tr) == Cardinality({p \in 1..Len(tr) : tr[p][1] = 0})
Leaf == << <<0, "o">> >>
(* children subtrees of the root, as a sequence of trees *)
RECURSIVE KidsFrom(_, _, _)
KidsFrom(tr, q, cnt) == IF cnt = 0 THEN <<>> ELSE <<SubSeq(tr, q, SubEnd(tr, q) - 1)>> \o KidsFrom(tr, SubEnd(tr, q), cnt - 1)
Kids(tr) == KidsFrom(tr, 2, tr[1][1])
RECURSIVE Concat(_)
Concat(ss) == IF ss = <<>> THEN <<>> ELSE Head(ss) \o Concat(Tail(ss))

(* ------------------------- logical <-> native ------------------------- *)
NRank(T) == Len(T.s)
LRank(T) == Len(T.grp)
RECURSIVE LeavesBefore(_, _)
LeavesBefore(grp, k) == IF k <= 1 THEN 0 ELSE Leaves(grp[k - 1]) + LeavesBefore(grp, k - 1)
NatOf(T, k) == [j \in 1..Leaves(T.grp[k]) |-> LeavesBefore(T.grp, k) + j]          \* native axes of logical leg k
NatAxes(T, lax) == Concat([j \in 1..Len(lax) |-> NatOf(T, lax[j])])
RangeOf(q) == {q[i] : i \in 1..Len(q)}
Others(n, q) == SelectSeq([i \in 1..n |-> i], LAMBDA i : i \notin RangeOf(q))
Pick(q, idx) == [j \in 1..Len(idx) |-> q[idx[j]]]

(* ------------------------------ legs --------------------------------- *)
LexLess(x, y) == \E c \in 1..Len(x) : x[c] < y[c] /\ \A d \in 1..(c - 1) : x[d] = y[d]
SecSet(leg) == RangeOf(leg)                                   \* set of <<t, D>>
DimOf(leg, t) == (CHOOSE p \in RangeOf(leg) : p[1] = t)[2]
HasSec(leg, t) == \E p \in RangeOf(leg) : p[1] = t
(* two legs agree on the dimension of every common sector *)
DimsAgree(la, lb) == \A p \in RangeOf(la), q \in RangeOf(lb) : p[1] = q[1] => p[2] = q[2]
UnionLeg(la, lb) == SortSeq(SetToSeq(RangeOf(la) \cup RangeOf(lb)), LAMBDA x, y : LexLess(x[1], y[1]))

LabCharge(T, lab) == Add(Mod(T.sym), [k \in 1..Len(lab) |-> lab[k][1]], T.s, 1)

(* ------------------------- well-formedness (C02) ---------------------- *)
WfLegs(T) ==  /\ Len(T.legs) = NRank(T) /\ \A k \in 1..NRank(T) : T.s[k] \in {-1, 1}
              /\ \A k \in 1..NRank(T) : LET lg == T.legs[k] IN
                    /\ \A i \in 1..Len(lg) : IsCanon(Mod(T.sym), lg[i][1]) /\ lg[i][2] > 0
                    /\ \A i \in 1..(Len(lg) - 1) : Len(Mod(T.sym)) > 0 /\ LexLess(lg[i][1], lg[i + 1][1])
              /\ IsCanon(Mod(T.sym), T.n)
WfGrp(T) ==  /\ \A k \in 1..LRank(T) : Len(T.grp[k]) >= 1 /\ SubEnd(T.grp[k], 1) = Len(T.grp[k]) + 1
             /\ LeavesBefore(T.grp, LRank(T) + 1) = NRank(T)
WfEnt(T) == \A e \in T.ent :
                /\ Len(e[1]) = NRank(T) /\ e[2] # CZ
                /\ \A k \in 1..NRank(T) : HasSec(T.legs[k], e[1][k][1]) /\ e[1][k][2] \in 1..DimOf(T.legs[k], e[1][k][1])
                /\ LabCharge(T, e[1]) = T.n                               \* the selection rule: outside it every element is zero
WfDiag(T) == T.dg =>  /\ NRank(T) = 2 /\ T.s[1] = -T.s[2] /\ T.n = Zero(Mod(T.sym))
                      /\ \A e \in T.ent : e[1][1] = e[1][2]
WellFormed(T) == WfLegs(T) /\ WfGrp(T) /\ WfEnt(T) /\ WfDiag(T)

(* ------------------------- elementwise family ------------------------- *)
SameShape(a, b) == a.sym = b.sym /\ a.s = b.s /\ a.n = b.n /\ a.grp = b.grp /\ a.dg = b.dg
DimsOKSame(a, b) == NRank(a) = NRank(b) /\ \A k \in 1..NRank(a) : DimsAgree(a.legs[k], b.legs[k])
ValAt(T, lab) == IF \E e \in T.ent : e[1] = lab THEN (CHOOSE e \in T.ent : e[1] = lab)[2] ELSE CZ
Labs(T) == {e[1] : e \in T.ent}
(* x*a + y*b with Gaussian-integer amplitudes *)
LinComb(a, x, b, y) == [a EXCEPT !.legs = [k \in 1..NRank(a) |-> UnionLeg(a.legs[k], b.legs[k])],
                                 !.ent = {e \in {<<lab, CAdd(CMul(x, ValAt(a, lab)), CMul(y, ValAt(b, lab)))>> : lab \in Labs(a) \cup Labs(b)} : e[2] # CZ}]
(* ---- yastn.block: a super-tensor assembled from operands placed at positions along the legs (direct sum of the spaces of the positions; a leg on which *)
(* all operands sit at the same position is a common leg).  ops: sequence of operands (no fusion: every leg native), pos[k][n] = position of operand k on    *)
(* leg n.  In the abstract view the blocked leg is a native leg that cannot be unfused; labels are shifted by the dimensions of the earlier positions.       *)
BlkPosSet(pos, n) == {pos[k][n] : k \in 1..Len(pos)}
BlkSecs(ops, pos, n, p) == UNION {{q[1] : q \in RangeOf(ops[k].legs[n])} : k \in {j \in 1..Len(ops) : pos[j][n] = p}}
BlkDim(ops, pos, n, p, t) == LET K == {k \in 1..Len(ops) : pos[k][n] = p /\ \E q \in RangeOf(ops[k].legs[n]) : q[1] = t} IN
                             IF K = {} THEN 0 ELSE DimOf(ops[CHOOSE k \in K : TRUE].legs[n], t)
BlkOff(ops, pos, n, p, t) == SumSet({0}) + MapThenSumSet(LAMBDA pp : BlkDim(ops, pos, n, pp, t), {pp \in BlkPosSet(pos, n) : pp < p})
BlkLeg(ops, pos, n) == LET ts == UNION {BlkSecs(ops, pos, n, p) : p \in BlkPosSet(pos, n)} IN
                       SortSeq(SetToSeq({<<t, SumSet({0}) + MapThenSumSet(LAMBDA p : BlkDim(ops, pos, n, p, t), BlkPosSet(pos, n))>> : t \in ts}), LAMBDA x, y : LexLess(x[1], y[1]))
BlkLab(ops, pos, k, lab) == [n \in 1..Len(lab) |-> <<lab[n][1], BlkOff(ops, pos, n, pos[k][n], lab[n][1]) + lab[n][2]>>]
PreBlock(ops, pos) == /\ Len(ops) >= 1 /\ Len(pos) = Len(ops)
                      /\ \A k \in 1..Len(ops) : /\ ops[k].sym = ops[1].sym /\ ops[k].s = ops[1].s /\ ops[k].n = ops[1].n /\ ~ops[k].dg
                                                  /\ Len(pos[k]) = NRank(ops[1]) /\ \A j \in 1..LRank(ops[k]) : ops[k].grp[j] = Leaf
                      /\ \A j, k \in 1..Len(ops) : j # k => pos[j] # pos[k]
(* operands that share a position on a leg must agree on the dimensions of the sectors they share there *)
BlockDimsOK(ops, pos) == \A n \in 1..NRank(ops[1]) : \A j, k \in 1..Len(ops) : pos[j][n] = pos[k][n] => DimsAgree(ops[j].legs[n], ops[k].legs[n])
Block(ops, pos) == [ops[1] EXCEPT !.legs = [n \in 1..NRank(ops[1]) |-> BlkLeg(ops, pos, n)],
                                  !.ent = UNION {{<<BlkLab(ops, pos, k, f[1]), f[2]>> : f \in ops[k].ent} : k \in 1..Len(ops)}]
Scale(a, x) == [a EXCEPT !.ent = {e \in {<<f[1], CMul(x, f[2])>> : f \in a.ent} : e[2] # CZ}]
MapVals(a, F(_)) == [a EXCEPT !.ent = {e \in {<<f[1], F(f[2])>> : f \in a.ent} : e[2] # CZ}]
NegS(s) == [k \in 1..Len(s) |-> -s[k]]
ConjBlocks(a) == MapVals(a, CConj)
FlipSignature(a) == [a EXCEPT !.s = NegS(a.s), !.n = Neg(Mod(a.sym), a.n)]
Conj(a) == ConjBlocks(FlipSignature(a))

(* flip the charges (and signatures) of the native legs in the set F: t -> -t; labels follow, legs are re-sorted *)
FlipLab(a, lab, F) == [k \in 1..Len(lab) |-> IF k \in F THEN <<Neg(Mod(a.sym), lab[k][1]), lab[k][2]>> ELSE lab[k]]
FlipCharges(a, F) == [a EXCEPT !.s = [k \in 1..NRank(a) |-> IF k \in F THEN -a.s[k] ELSE a.s[k]],
                               !.legs = [k \in 1..NRank(a) |-> IF k \in F
                                            THEN SortSeq([i \in 1..Len(a.legs[k]) |-> <<Neg(Mod(a.sym), a.legs[k][i][1]), a.legs[k][i][2]>>],
                                                         LAMBDA x, y : LexLess(x[1], y[1]))
                                            ELSE a.legs[k]],
                               !.ent = {<<FlipLab(a, e[1], F), e[2]>> : e \in a.ent}]

(* ------------------------------ transpose ----------------------------- *)
(* p = permutation of LOGICAL legs: result leg j is old leg p[j] *)
Transpose(a, p) == LET np == NatAxes(a, p) IN
                   [a EXCEPT !.s = Pick(a.s, np), !.legs = Pick(a.legs, np), !.grp = Pick(a.grp, p),
                             !.ent = {<<Pick(e[1], np), e[2]>> : e \in a.ent}]
IsPerm(p, n) == Len(p) = n /\ RangeOf(p) = 1..n

(* ------------------------------ tensordot ----------------------------- *)
(* la, lb: logical axes to contract (sequences, paired in order);  ca, cb: conjugate operand first *)
PreDot(a, b, la, lb) ==
    /\ a.sym = b.sym
    /\ ((a.dg \/ b.dg) => Len(la) >= 1)            \* "Outer product with diagonal tensor not supported" (documented rejection)
    /\ Len(la) = Len(lb)
    /\ RangeOf(la) \subseteq 1..LRank(a) /\ RangeOf(lb) \subseteq 1..LRank(b)
    /\ Cardinality(RangeOf(la)) = Len(la) /\ Cardinality(RangeOf(lb)) = Len(lb)
    /\ \A j \in 1..Len(la) : a.grp[la[j]] = b.grp[lb[j]]                                 \* identical fusion trees
    /\ LET na == NatAxes(a, la)  nb == NatAxes(b, lb) IN
         \A j \in 1..Len(na) : a.s[na[j]] = -b.s[nb[j]]
(* invalid input outside every listed property (unequal dimensions of one charge sector): outcome unspecified *)
DimsOKDot(a, b, la, lb) == LET na == NatAxes(a, la)  nb == NatAxes(b, lb) IN
                           Len(na) = Len(nb) /\ \A j \in 1..Len(na) : DimsAgree(a.legs[na[j]], b.legs[nb[j]])
Dot(a, b, la, lb) ==
    LET na == NatAxes(a, la)  nb == NatAxes(b, lb)
        ra == Others(NRank(a), na)  rb == Others(NRank(b), nb)
        pairs == {p \in a.ent \X b.ent : \A j \in 1..Len(na) : p[1][1][na[j]] = p[2][1][nb[j]]}
        key(p) == Pick(p[1][1], ra) \o Pick(p[2][1], rb)
        keys == {key(p) : p \in pairs}
    IN [sym |-> a.sym,
        s |-> Pick(a.s, ra) \o Pick(b.s, rb),
        n |-> Plus(Mod(a.sym), a.n, b.n),
        legs |-> Pick(a.legs, ra) \o Pick(b.legs, rb),
        grp |-> Pick(a.grp, Others(LRank(a), la)) \o Pick(b.grp, Others(LRank(b), lb)),
        ent |-> {e \in {<<k, CSum({p \in pairs : key(p) = k}, LAMBDA p : CMul(p[1][2], p[2][2]))>> : k \in keys} : e[2] # CZ},
        dg |-> (a.dg /\ b.dg /\ Len(la) = 1)]        \* diagonal x diagonal over one leg stays diagonal
MaybeConj(a, c) == IF c = 1 THEN Conj(a) ELSE a

(* vdot: full contraction <a|b>, a number *)
PreVdot(a, b) == LRank(a) = LRank(b) /\ PreDot(a, b, [k \in 1..LRank(a) |-> k], [k \in 1..LRank(b) |-> k])
Vdot(a, b) == CSum({p \in a.ent \X b.ent : p[1][1] = p[2][1]}, LAMBDA p : CMul(p[1][2], p[2][2]))

(* ------------------------------- trace -------------------------------- *)
PreTrace(a, l0, l1) ==
    /\ Len(l0) = Len(l1) /\ RangeOf(l0) \cap RangeOf(l1) = {}
    /\ RangeOf(l0) \cup RangeOf(l1) \subseteq 1..LRank(a) /\ Cardinality(RangeOf(l0) \cup RangeOf(l1)) = 2 * Len(l0)
    /\ \A j \in 1..Len(l0) : a.grp[l0[j]] = a.grp[l1[j]]
    /\ LET n0 == NatAxes(a, l0)  n1 == NatAxes(a, l1) IN
         \A j \in 1..Len(n0) : a.s[n0[j]] = -a.s[n1[j]]
DimsOKTrace(a, l0, l1) == LET n0 == NatAxes(a, l0)  n1 == NatAxes(a, l1) IN
                          Len(n0) = Len(n1) /\ \A j \in 1..Len(n0) : DimsAgree(a.legs[n0[j]], a.legs[n1[j]])
Trace(a, l0, l1) ==
    LET n0 == NatAxes(a, l0)  n1 == NatAxes(a, l1)
        r == Others(NRank(a), n0 \o n1)
        sel == {e \in a.ent : \A j \in 1..Len(n0) : e[1][n0[j]] = e[1][n1[j]]}
        keys == {Pick(e[1], r) : e \in sel}
    IN [a EXCEPT !.s = Pick(a.s, r), !.legs = Pick(a.legs, r), !.grp = Pick(a.grp, Others(LRank(a), l0 \o l1)), !.dg = FALSE,
                 !.ent = {e \in {<<k, CSum({f \in sel : Pick(f[1], r) = k}, LAMBDA f : f[2])>> : k \in keys} : e[2] # CZ}]

(* -------------------------- add_leg / remove_leg ----------------------- *)
(* new native+logical leg at logical position pos (1-based, in the result), signature sg, single sector t of dimension 1 *)
InsAt(q, i, x) == SubSeq(q, 1, i - 1) \o <<x>> \o SubSeq(q, i, Len(q))
RemAt(q, i) == SubSeq(q, 1, i - 1) \o SubSeq(q, i + 1, Len(q))
AddLeg(a, pos, sg, t) == LET np == LeavesBefore(a.grp, pos) + 1 IN
    [a EXCEPT !.s = InsAt(a.s, np, sg), !.legs = InsAt(a.legs, np, << <<t, 1>> >>), !.grp = InsAt(a.grp, pos, Leaf),
              !.n = Add(Mod(a.sym), <<a.n, t>>, <<1, sg>>, 1), !.dg = FALSE,
              !.ent = {<<InsAt(e[1], np, <<t, 1>>), e[2]>> : e \in a.ent}]
(* remove a logical leg whose native legs all have (at most) one sector of dimension one; meta- and hard-fused groups allowed *)
PreRemoveLeg(a, pos) == /\ pos \in 1..LRank(a) /\ ~a.dg
                        /\ \A np \in RangeOf(NatOf(a, pos)) : Len(a.legs[np]) <= 1 /\ \A p \in RangeOf(a.legs[np]) : p[2] = 1
RemoveLeg(a, pos) == LET ns == NatOf(a, pos)
                         keep == Others(NRank(a), ns)
                         tk(j) == IF a.legs[ns[j]] = <<>> THEN Zero(Mod(a.sym)) ELSE a.legs[ns[j]][1][1] IN
    [a EXCEPT !.s = Pick(a.s, keep), !.legs = Pick(a.legs, keep), !.grp = RemAt(a.grp, pos),
              !.n = Add(Mod(a.sym), <<a.n>> \o [j \in 1..Len(ns) |-> tk(j)], <<1>> \o [j \in 1..Len(ns) |-> -a.s[ns[j]]], 1),
              !.ent = {<<Pick(e[1], keep), e[2]>> : e \in a.ent}]
(* add_leg(t=None): the new leg takes the whole charge of the tensor, the result has charge zero *)
DefaultLegCharge(a, sg) == Add(Mod(a.sym), <<a.n>>, <<-1>>, sg)

(* ------------------------------- fusion ------------------------------- *)
(* parts: sequence of sequences of logical legs (a partition of 1..LRank, any order): result leg j fuses parts[j]   *)
(* (a part with one leg is only moved).  Fusion changes the grouping of native legs and their order, never a value. *)
PreFuse(a, parts) == Concat(parts) \in Seq(1..LRank(a)) /\ IsPerm(Concat(parts), LRank(a)) /\ \A j \in 1..Len(parts) : Len(parts[j]) >= 1
FuseTree(a, part, mode) == IF Len(part) = 1 THEN a.grp[part[1]]
                           ELSE << <<Len(part), mode>> >> \o Concat([j \in 1..Len(part) |-> a.grp[part[j]]])
(* hard fusion turns every earlier meta fusion of the WHOLE tensor into a hard one (documented) *)
Harden(tr) == [p \in 1..Len(tr) |-> IF tr[p][2] = "m" THEN <<tr[p][1], "p">> ELSE tr[p]]
Fuse(a, parts, mode) == LET a1 == IF mode = "p" THEN [a EXCEPT !.grp = [k \in 1..LRank(a) |-> Harden(a.grp[k])]] ELSE a
                            t == Transpose(a1, Concat(parts)) IN
                        [t EXCEPT !.grp = [j \in 1..Len(parts) |-> FuseTree(a1, parts[j], mode)]]
EffMode(mode, knob) == IF knob.force # "none" THEN knob.force ELSE IF mode # "none" THEN mode ELSE knob.fusion
(* unfuse the logical legs in the set U (top level of their tree only) *)
PreUnfuse(a, U) == U \subseteq 1..LRank(a)
Unfuse(a, U) == [a EXCEPT !.grp = Concat([k \in 1..LRank(a) |-> IF k \in U /\ a.grp[k][1][1] > 0 THEN Kids(a.grp[k]) ELSE <<a.grp[k]>>])]

(* ------------------------- diagonal tensors -------------------------- *)
(* diag(): matrix -> diagonal tensor keeps only the diagonal elements; diagonal tensor -> the same elements as an ordinary matrix *)
PreDiag(a) == a.dg \/ (/\ NRank(a) = 2 /\ LRank(a) = 2 /\ a.s[1] = -a.s[2] /\ a.n = Zero(Mod(a.sym))
                        /\ a.grp[1] = Leaf /\ a.grp[2] = Leaf)
Diag(a) == IF a.dg THEN [a EXCEPT !.dg = FALSE]
           ELSE [a EXCEPT !.dg = TRUE, !.ent = {e \in a.ent : e[1][1] = e[1][2]}]
DVal(d, lb) == ValAt(d, <<lb, lb>>)
(* broadcast(d, b, axis): multiply b along one unfused leg by the diagonal of d; sectors absent in d give zero *)
PreBroadcast(d, b, k) == d.dg /\ d.sym = b.sym /\ k \in 1..LRank(b) /\ b.grp[k] = Leaf
Broadcast(d, b, k) == LET nk == NatOf(b, k)[1] IN
                      [b EXCEPT !.ent = {e \in {<<f[1], CMul(f[2], DVal(d, f[1][nk]))>> : f \in b.ent} : e[2] # CZ}]
(* apply_mask(d, b, axis): keep the indices where the diagonal of d is non-zero and renumber them inside each sector *)
KeptIdx(d, t) == {i \in 1..DimOf(d.legs[1], t) : DVal(d, <<t, i>>) # CZ}
NewIdx(d, lb) == Cardinality({j \in KeptIdx(d, lb[1]) : j <= lb[2]})
MaskLeg(d, leg) == SelectSeq([i \in 1..Len(leg) |-> IF HasSec(d.legs[1], leg[i][1]) THEN <<leg[i][1], Cardinality(KeptIdx(d, leg[i][1]))>> ELSE <<leg[i][1], 0>>],
                             LAMBDA p : p[2] > 0)
ApplyMask(d, b, k) == LET nk == NatOf(b, k)[1]
                          sel == {f \in b.ent : HasSec(d.legs[1], f[1][nk][1]) /\ f[1][nk][2] \in KeptIdx(d, f[1][nk][1])} IN
                      [b EXCEPT !.legs = [j \in 1..NRank(b) |-> IF j = nk \/ (b.dg /\ j \in {1, 2}) THEN MaskLeg(d, b.legs[j]) ELSE b.legs[j]],
                                !.ent = {<<[j \in 1..NRank(b) |-> IF j = nk \/ (b.dg /\ j \in {1, 2}) THEN <<f[1][j][1], NewIdx(d, f[1][j])>> ELSE f[1][j]], f[2]>> : f \in sel}]

(* ------------------------------ swap gate ------------------------------ *)
(* ferm: per charge component TRUE/FALSE.  parity of a group of native legs G for label lab in component c *)
ParC(a, lab, G, c) == (SumSet({0}) + MapThenSumSet(LAMBDA k : lab[k][1][c], G)) % 2
(* pairs: sequence of <<G1, G2>> (sets of native legs) swapped one after another *)
SwapSign(a, lab, pairs, ferm) ==
    LET bits == {<<j, c>> \in (1..Len(pairs)) \X (1..Len(Mod(a.sym))) : ferm[c] /\ ParC(a, lab, pairs[j][1], c) = 1 /\ ParC(a, lab, pairs[j][2], c) = 1}
    IN IF Cardinality(bits) % 2 = 0 THEN 1 ELSE -1
SwapGate(a, pairs, ferm) == [a EXCEPT !.ent = {<<e[1], <<SwapSign(a, e[1], pairs, ferm) * e[2][1], SwapSign(a, e[1], pairs, ferm) * e[2][2]>> >> : e \in a.ent}]

(* swap gate with an explicit charge: every leg in axes (native set G) is swapped with a virtual dimension-one leg of charge q *)
SwapChargeSign(a, lab, G, q, ferm) ==
    LET bits == {<<k, c>> \in G \X (1..Len(Mod(a.sym))) : ferm[c] /\ lab[k][1][c] % 2 = 1 /\ q[c] % 2 = 1}
    IN IF Cardinality(bits) % 2 = 0 THEN 1 ELSE -1
SwapCharge(a, G, q, ferm) == [a EXCEPT !.ent = {<<e[1], <<SwapChargeSign(a, e[1], G, q, ferm) * e[2][1], SwapChargeSign(a, e[1], G, q, ferm) * e[2][2]>> >> : e \in a.ent}]

(* ------------------------------- ncon ---------------------------------- *)
(* ORDER-FREE definition of a network value (C05): ts = tensors (conjugations already applied), inds[i][j] = label of logical leg j  *)
(* of tensor i (positive = contracted pair, non-positive -k = k-th outgoing leg), swaps = sequence of <<x, y>> label pairs.            *)
(*   value(out labels) = SUM over assignments of elements, one per tensor, that agree on every contracted label, of                    *)
(*                       PROD values * PROD_{<<x,y>> in swaps} (-1)^(SUM_c ferm[c] par_c(x) par_c(y))                                  *)
(* All legs of the operands are unfused here (logical = native).                                                                       *)
Occ(inds, x) == {p \in (1..Len(inds)) \X (1..8) : p[2] <= Len(inds[p[1]]) /\ inds[p[1]][p[2]] = x}
AllLabels(inds) == UNION {RangeOf(inds[i]) : i \in 1..Len(inds)}
LabelOf(asg, inds, x) == LET p == CHOOSE p \in Occ(inds, x) : TRUE IN asg[p[1]][1][p[2]]
Consistent(asg, inds) == \A x \in {y \in AllLabels(inds) : y > 0} : \A p, q \in Occ(inds, x) : asg[p[1]][1][p[2]] = asg[q[1]][1][q[2]]
NSwapSign(asg, inds, swaps, ferm, nsym) ==
    LET bits == {<<j, c>> \in (1..Len(swaps)) \X (1..nsym) : ferm[c] /\ LabelOf(asg, inds, swaps[j][1])[1][c] % 2 = 1 /\ LabelOf(asg, inds, swaps[j][2])[1][c] % 2 = 1}
    IN IF Cardinality(bits) % 2 = 0 THEN 1 ELSE -1
Assignments(ts) == CASE Len(ts) = 1 -> {<<e1>> : e1 \in ts[1].ent}
                     [] Len(ts) = 2 -> {<<e1, e2>> : e1 \in ts[1].ent, e2 \in ts[2].ent}
                     [] Len(ts) = 3 -> {<<e1, e2, e3>> : e1 \in ts[1].ent, e2 \in ts[2].ent, e3 \in ts[3].ent}
                     [] Len(ts) = 4 -> {<<e1, e2, e3, e4>> : e1 \in ts[1].ent, e2 \in ts[2].ent, e3 \in ts[3].ent, e4 \in ts[4].ent}
RECURSIVE CProd(_, _)
CProd(asg, k) == IF k = 0 THEN <<1, 0>> ELSE CMul(CProd(asg, k - 1), asg[k][2])
NOut(inds) == Cardinality({x \in AllLabels(inds) : x <= 0})
OutPos(inds, k) == CHOOSE p \in Occ(inds, -(k - 1)) : TRUE                 \* where the k-th outgoing leg lives
PreNcon(ts, inds) == /\ Len(ts) = Len(inds) /\ \A i \in 1..Len(ts) : Len(inds[i]) = NRank(ts[i]) /\ LRank(ts[i]) = NRank(ts[i])
                     /\ \A x \in AllLabels(inds) : IF x > 0 THEN Cardinality(Occ(inds, x)) = 2 ELSE Cardinality(Occ(inds, x)) = 1
                     /\ {x \in AllLabels(inds) : x <= 0} = {-(k - 1) : k \in 1..NOut(inds)}
                     /\ \A x \in {y \in AllLabels(inds) : y > 0} : \A p, q \in Occ(inds, x) : p # q => ts[p[1]].s[p[2]] = -ts[q[1]].s[q[2]]
Ncon(ts, inds, swaps, ferm) ==
    LET good == {asg \in Assignments(ts) : Consistent(asg, inds)}
        no == NOut(inds)
        key(asg) == [k \in 1..no |-> asg[OutPos(inds, k)[1]][1][OutPos(inds, k)[2]]]
        val(asg) == LET sg == NSwapSign(asg, inds, swaps, ferm, Len(Mod(ts[1].sym))) v == CProd(asg, Len(ts)) IN <<sg * v[1], sg * v[2]>>
        keys == {key(asg) : asg \in good}
    IN [sym |-> ts[1].sym,
        s |-> [k \in 1..no |-> ts[OutPos(inds, k)[1]].s[OutPos(inds, k)[2]]],
        n |-> Add(Mod(ts[1].sym), [i \in 1..Len(ts) |-> ts[i].n], [i \in 1..Len(ts) |-> 1], 1),
        legs |-> [k \in 1..no |-> ts[OutPos(inds, k)[1]].legs[OutPos(inds, k)[2]]],
        grp |-> [k \in 1..no |-> Leaf],
        ent |-> {e \in {<<k, CSum({asg \in good : key(asg) = k}, val)>> : k \in keys} : e[2] # CZ},
        dg |-> FALSE]

(* --------------------------- factorisations (C04) --------------------------- *)
(* STRUCTURE of svd / qr / eigh results for an operand in which every symmetry-allowed block is stored.  nl, nr = native axes of the  *)
(* left / right group (in the order given by the caller).  The effective matrix has one sector per left charge c; the new leg carries  *)
(* charge NewT(c) with dimension min(rows, cols) of that sector.                                                                       *)
LabelsOfLeg(leg) == UNION {{<<p[1], i>> : i \in 1..p[2]} : p \in RangeOf(leg)}
RECURSIVE IdxTuples(_, _)
IdxTuples(a, ax) == IF ax = <<>> THEN {<<>>} ELSE {<<lb>> \o q : lb \in LabelsOfLeg(a.legs[Head(ax)]), q \in IdxTuples(a, Tail(ax))}
GroupCharge(a, ax, q) == Add(Mod(a.sym), [k \in 1..Len(ax) |-> q[k][1]], [k \in 1..Len(ax) |-> a.s[ax[k]]], 1)
MinI(x, y) == IF x < y THEN x ELSE y
(* charge of the connecting leg (signature sg on the left factor) for left charge c; the left factor carries charge nL *)
NewT(a, c, sg, nL) == Add(Mod(a.sym), <<nL, c>>, <<sg, -sg>>, 1)                     \* c + sg * t = nL  =>  t = sg * (nL - c)
(* sectors of the effective matrix: left charges c that have a partner on the right (c + right charge = n); rows / cols counted on the legs *)
NewLeg(a, nl, nr, sg, nL, square) ==
    LET L == IdxTuples(a, nl)  R == IdxTuples(a, nr)
        lc == [q \in L |-> GroupCharge(a, nl, q)]
        rc == [r \in R |-> GroupCharge(a, nr, r)]
        act == {c \in {lc[q] : q \in L} : \E r \in R : Plus(Mod(a.sym), c, rc[r]) = a.n}
        rows(c) == Cardinality({q \in L : lc[q] = c})
        cols(c) == Cardinality({r \in R : Plus(Mod(a.sym), c, rc[r]) = a.n})
    IN SortSeq(SetToSeq({<<NewT(a, c, sg, nL), IF square THEN rows(c) ELSE MinI(rows(c), cols(c))>> : c \in act}), LAMBDA x, y : LexLess(x[1], y[1]))
(* left factor: left legs of a (logical order la) + connecting leg nleg at logical position pos (1-based) *)
LeftFactor(a, la, lb, sg, nL, pos, nleg) ==
    LET nl == NatAxes(a, la)  np == LeavesBefore(Pick(a.grp, la), pos) + 1 IN
    [sym |-> a.sym, s |-> InsAt(Pick(a.s, nl), np, sg), n |-> nL,
     legs |-> InsAt(Pick(a.legs, nl), np, nleg), grp |-> InsAt(Pick(a.grp, la), pos, Leaf), dg |-> FALSE]
RightFactor(a, la, lb, sg, nL, pos, nleg) ==
    LET nr == NatAxes(a, lb)  np == LeavesBefore(Pick(a.grp, lb), pos) + 1
        nR == Add(Mod(a.sym), <<a.n, nL>>, <<1, -1>>, 1) IN
    [sym |-> a.sym, s |-> InsAt(Pick(a.s, nr), np, -sg), n |-> nR,
     legs |-> InsAt(Pick(a.legs, nr), np, nleg), grp |-> InsAt(Pick(a.grp, lb), pos, Leaf), dg |-> FALSE]
SpectrumLeg(a, la, lb, sg, nL, square) == NewLeg(a, NatAxes(a, la), NatAxes(a, lb), sg, nL, square)
PreFactor(a, la, lb) == IsPerm(la \o lb, LRank(a)) /\ ~a.dg
StructEq(o, r) == o.sym = r.sym /\ o.s = r.s /\ o.n = r.n /\ o.legs = r.legs /\ o.grp = r.grp /\ o.dg = r.dg
WhyStruct(o, r) == IF o.s # r.s THEN <<"signature", o.s, "expected", r.s>> ELSE IF o.n # r.n THEN <<"charge", o.n, "expected", r.n>>
                   ELSE IF o.grp # r.grp THEN <<"fusion trees", o.grp, "expected", r.grp>> ELSE <<"legs", o.legs, "expected", r.legs>>

(* ------------------------- observational equality ---------------------- *)
(* what an observation of a result must satisfy w.r.t. the reference r (legs of r are the maximal admissible sector sets) *)
LegsWithin(obs, r) == \A k \in 1..NRank(r) : SecSet(obs.legs[k]) \subseteq SecSet(r.legs[k])
Conforms(obs, r) == /\ obs.sym = r.sym /\ obs.s = r.s /\ obs.n = r.n /\ obs.grp = r.grp /\ obs.dg = r.dg
                    /\ obs.ent = r.ent
                    /\ Len(obs.legs) = Len(r.legs) /\ LegsWithin(obs, r)
WhyNot(obs, r) == IF obs.s # r.s THEN <<"signature", obs.s, "expected", r.s>>
                  ELSE IF obs.n # r.n THEN <<"total charge", obs.n, "expected", r.n>>
                  ELSE IF obs.grp # r.grp THEN <<"fusion trees / leg grouping", obs.grp, "expected", r.grp>>
                  ELSE IF obs.dg # r.dg THEN <<"diag flag", obs.dg>>
                  ELSE IF obs.ent # r.ent THEN <<"elements differ", "only in result", obs.ent \ r.ent, "only in reference", r.ent \ obs.ent>>
                  ELSE IF Len(obs.legs) # Len(r.legs) THEN <<"number of legs">>
                  ELSE <<"legs outside the admissible sectors/dimensions", obs.legs, "reference", r.legs>>
=============================================================================
