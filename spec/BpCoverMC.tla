----------------------------- MODULE BpCoverMC -----------------------------
(* TLC: message passing of BpCover in ANY order of single updates, on every entanglement graph of the lattices Dims *)
EXTENDS BpCover
CONSTANTS Dims, Cap, OnlyForests
DimsSmall == {<<1, 3>>, <<2, 2>>}
DimsForest == {<<1, 4>>, <<2, 3>>, <<3, 2>>}
VARIABLES d, E, msg
vars == <<d, E, msg>>
Init == d \in Dims /\ E \in {F \in SUBSET BondsOf(d) : OnlyForests => IsForest(F)} /\ msg = BpEye(d)
Next == \E s0 \in SitesOf(d) : \E dn \in Side : Sh(s0, dn) \in SitesOf(d) /\ msg' = Send(d, E, msg, s0, Sh(s0, dn)) /\ UNCHANGED <<d, E>>
Spec == Init /\ [][Next]_vars
S == SitesOf(d)
Quiescent == \A s0 \in S : \A dn \in Side : Sh(s0, dn) \in S => Send(d, E, msg, s0, Sh(s0, dn)) = msg
Bounded == \A s \in S : \A dn \in Side : \A q \in S : msg[s][dn][q] <= Cap                      \* state constraint: loops count without bound
(* on a forest: never a double count, never a site from outside the part of the component behind that side *)
I_ForestInside == IsForest(E) => \A s \in S : \A dn \in Side : IsSet(msg[s][dn]) /\ Support(msg[s][dn]) \subseteq Behind(d, E, s, dn)
(* on a forest the only fixpoint is the exact one, and then every formula counts the entangled component of the site exactly once *)
I_ForestFixpoint == (IsForest(E) /\ Quiescent) => /\ \A s \in S : BpExactAt(d, E, msg, s) /\ Bp1(d, msg, s) = BagOf(d, Component(E, s))
                                                   /\ \A e \in E : LET s0 == CHOOSE x \in e : TRUE  s1 == CHOOSE x \in e : x # s0 IN BpNn(d, msg, s0, s1) = BagOf(d, Component(E, s0))
(* with a cycle there is no exact fixpoint: a quiescent state is never reached within the cap on a cycle (its sites keep being counted again) *)
I_CycleDoubleCounts == (~IsForest(E) /\ Quiescent) => \E s \in S : ~IsSet(Bp1(d, msg, s))
(* a bond outside E: if its ends lie in different components the state is a product across it and the nn formula is exact; if they lie in ONE component *)
(* the bond closes a loop of correlations and the formula counts the component twice: BP nearest-neighbour values are not exact there                 *)
I_NonTreeBond == (IsForest(E) /\ Quiescent) => \A b \in BondsOf(d) \ E :
                     LET s0 == CHOOSE x \in b : TRUE  s1 == CHOOSE x \in b : x # s0 IN
                     IF s1 \in Component(E, s0) THEN ~IsSet(BpNn(d, msg, s0, s1))
                     ELSE BpNn(d, msg, s0, s1) = BagOf(d, Component(E, s0) \cup Component(E, s1))
Monotone == [][IsForest(E) => \A s \in S : \A dn \in Side : \A q \in S : msg[s][dn][q] <= msg'[s][dn][q]]_vars
=============================================================================
