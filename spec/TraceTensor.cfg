INIT Init
NEXT Next
INVARIANT Inv_WF
