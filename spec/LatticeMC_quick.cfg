INIT Init
NEXT Next
CONSTANTS
  MaxN = 4
  MaxTri = 3
  RectDims <- RectDimsQuick
  Labels = 3
INVARIANT ModelOK
INVARIANT Why
