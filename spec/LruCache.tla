------------------------------ MODULE LruCache ------------------------------
(***************************************************************************)
(* The metadata caches of yastn (functools.lru_cache around pure _meta_*   *)
(* functions) as a state machine.  An INSTANCE has a maxsize, an order of  *)
(* keys (least recently used first) and the value stored with each key.    *)
(* Call SITES are bound to instances.  set_cache_maxsize() creates a NEW   *)
(* empty instance and rebinds the module-attribute sites, while sites that *)
(* imported the name at import time (aliases) keep the OLD instance, which *)
(* clear_cache() no longer reaches (named deviation, DESIGN.md C16).       *)
(* F(key) is the function being cached; transparency says a call returns   *)
(* F(key) whatever the history.                                            *)
(***************************************************************************)
EXTENDS Integers, Sequences, FiniteSets, TLC
CONSTANTS Keys, Sites, AliasSites, Sizes, Depth     \* AliasSites \subseteq Sites
VARIABLES inst,     \* [id -> [max, order, val]]   (a sequence: ids 1..Len(inst))
          bind,     \* [site -> id]
          ret,      \* last returned value
          lastkey, lastkind
vars == <<inst, bind, ret, lastkey, lastkind>>
F(k) == <<"F", k>>
None == <<"none">>
RangeOf(q) == {q[i] : i \in 1..Len(q)}
Fresh(m) == [max |-> m, order |-> <<>>, val |-> [k \in {} |-> None]]
Init == inst = <<Fresh(2)>> /\ bind = [s \in Sites |-> 1] /\ ret = None /\ lastkey = None /\ lastkind = "init"
Without(q, k) == SelectSeq(q, LAMBDA x : x # k)
Touch(c, k) == [c EXCEPT !.order = Append(Without(c.order, k), k)]
Insert(c, k, v) == IF c.max = 0 THEN c
                   ELSE LET o == IF Len(c.order) >= c.max THEN Tail(c.order) ELSE c.order    \* evict the least recently used
                        IN [c EXCEPT !.order = Append(o, k), !.val = [x \in RangeOf(o) \cup {k} |-> IF x = k THEN v ELSE c.val[x]]]
Call(s, k) == LET id == bind[s]  c == inst[id] IN
              /\ lastkey' = k /\ UNCHANGED bind
              /\ IF k \in RangeOf(c.order)
                 THEN ret' = c.val[k] /\ lastkind' = "hit" /\ inst' = [inst EXCEPT ![id] = Touch(c, k)]
                 ELSE ret' = F(k) /\ lastkind' = "miss" /\ inst' = [inst EXCEPT ![id] = Insert(c, k, F(k))]
Reach == {bind[s] : s \in Sites \ AliasSites}                 \* instances clear_cache() reaches: the module attributes
Clear == /\ inst' = [id \in 1..Len(inst) |-> IF id \in Reach THEN Fresh(inst[id].max) ELSE inst[id]]
         /\ lastkind' = "clear" /\ UNCHANGED <<bind, ret, lastkey>>
Resize(m) == /\ inst' = Append(inst, Fresh(m))
             /\ bind' = [s \in Sites |-> IF s \in AliasSites THEN bind[s] ELSE Len(inst) + 1]
             /\ lastkind' = "resize" /\ UNCHANGED <<ret, lastkey>>
Next == \/ \E s \in Sites, k \in Keys : Call(s, k)
        \/ Clear
        \/ \E m \in Sizes : Len(inst) < 3 /\ Resize(m)
Bound == TLCGet("level") <= Depth
(* ---- properties ---- *)
Inv_Size == \A id \in 1..Len(inst) : Len(inst[id].order) <= inst[id].max /\ DOMAIN inst[id].val = RangeOf(inst[id].order)
Inv_HitIsInserted == \A id \in 1..Len(inst) : \A k \in RangeOf(inst[id].order) : inst[id].val[k] = F(k)     \* entries are never altered after insertion
Inv_Transparent == lastkind \in {"hit", "miss"} => ret = F(lastkey)                                         \* the result depends on the key alone
Inv_NoDup == \A id \in 1..Len(inst) : \A i, j \in 1..Len(inst[id].order) : i # j => inst[id].order[i] # inst[id].order[j]
=============================================================================
