INIT Init
NEXT Next
CONSTANTS
  Keys = {"k1", "k2", "k3"}
  Sites = {"mod", "alias"}
  AliasSites = {"alias"}
  Sizes = {0, 1, 2}
  Depth = 7
CONSTRAINT Bound
INVARIANT Inv_Size
INVARIANT Inv_HitIsInserted
INVARIANT Inv_Transparent
INVARIANT Inv_NoDup
