---------------------------- MODULE TraceCharges ----------------------------
(* I->S binding for C19: every logged call of the real sym.fuse / add_charges *)
(* must return exactly Charges!Add.  One trace = a sequence of batch events. *)
EXTENDS Charges, TLC, Json, IOUtils
Traces == ndJsonDeserialize(IOEnv.TRACE_FILE)
VARIABLES tid, l
Ev == Traces[tid].ev

RowOk(e, i) == e.res[i] = Add(Mod(e.sym), e.ts[i], e.ss, e.snew)
Ok(e)  == /\ e.sym \in SymNames
          /\ Len(e.res) = Len(e.ts)
          /\ \A i \in 1..Len(e.ts) : RowOk(e, i)
Why(e) == IF Len(e.res) # Len(e.ts) THEN <<"row count", Len(e.res), Len(e.ts)>>
          ELSE LET i == CHOOSE i \in 1..Len(e.ts) : ~RowOk(e, i)
               IN <<e.op, e.sym, "ts", e.ts[i], "ss", e.ss, "snew", e.snew, "got", e.res[i], "spec", Add(Mod(e.sym), e.ts[i], e.ss, e.snew)>>

Init == tid \in 1..Len(Traces) /\ l = 1
Step == l \in 1..Len(Ev) /\ (Ok(Ev[l]) = TRUE) /\ l' = l + 1 /\ UNCHANGED tid
Fail == l \in 1..Len(Ev) /\ ~Ok(Ev[l]) /\ PrintT(<<"REJECT", tid, l, ToString(Why(Ev[l]))>>) /\ l' = l + 1 /\ UNCHANGED tid
Done == l = Len(Ev) + 1 /\ PrintT(<<"ACCEPT", tid>>) /\ l' = -1 /\ UNCHANGED tid
Next == Step \/ Fail \/ Done
=============================================================================
