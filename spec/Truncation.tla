----------------------------- MODULE Truncation -----------------------------
(***************************************************************************)
(* The selection rule of yastn.linalg.truncation_mask as a two-stage       *)
(* nondeterministic relation on integer spectra (ties are the only         *)
(* freedom).  sp = sequence (one entry per charge sector) of sequences of  *)
(* non-negative integers.  Options record o:                               *)
(*   Dtot : Nat or Inf (-1)                                                *)
(*   Dblk : per-sector sequence of Nat / Inf (-1) / Missing (-2: dict      *)
(*          without this key => 0, as the code does)                       *)
(*   tol  : <<p, q>>  meaning p/q;   tolb : per-sector sequence of <<p,q>>  *)
(*          (<<-1, 1>> = dict without this key => 0)                        *)
(* "v > tol * max" is the code's strict comparison, done by cross-         *)
(* multiplication so everything stays in the integers.                     *)
(***************************************************************************)
EXTENDS Integers, Sequences, FiniteSets, FiniteSetsExt, TLC

Inf == -1
Missing == -2
MinInf(a, b) == IF a = Inf THEN b ELSE IF b = Inf THEN a ELSE IF a < b THEN a ELSE b
MaxOf(S) == IF S = {} THEN 0 ELSE CHOOSE x \in S : \A y \in S : y <= x
Above(v, t, mx) == v * t[2] > t[1] * mx
EffD(o, c) == IF o.Dblk[c] = Missing THEN 0 ELSE o.Dblk[c]
EffTolB(o, c) == IF o.tolb[c][1] < 0 THEN <<0, 1>> ELSE o.tolb[c]

(* all D-subsets of cand made of largest values: no discarded candidate exceeds a kept one *)
TopSets(val(_), cand, D) == {K \in SUBSET cand : Cardinality(K) = D /\ \A i \in K, j \in cand \ K : val(i) >= val(j)}

(* ---- stage 1: per sector ---- *)
BlockD(vals, o, c) == LET mx == MaxOf({vals[i] : i \in 1..Len(vals)})
                          Dtol == Cardinality({i \in 1..Len(vals) : Above(vals[i], EffTolB(o, c), mx)})
                      IN MinInf(EffD(o, c), Dtol)
BlockAdm(vals, o, c) == LET D == BlockD(vals, o, c) IN
                        IF D >= Len(vals) THEN {1..Len(vals)} ELSE TopSets(LAMBDA i : vals[i], 1..Len(vals), D)
Stage1(sp, o) == {s \in [1..Len(sp) -> SUBSET (1..3)] : \A c \in 1..Len(sp) : s[c] \in BlockAdm(sp[c], o, c)}

(* ---- stage 2: all survivors compete ---- *)
Positions(sp, s) == {<<c, i>> : c \in 1..Len(sp), i \in 1..3} \cap {p \in (1..Len(sp)) \X (1..3) : p[2] \in s[p[1]]}
GlobalD(sp, o, s) == LET P == Positions(sp, s)
                         mx == MaxOf({sp[p[1]][p[2]] : p \in P})
                         Dtol == Cardinality({p \in P : Above(sp[p[1]][p[2]], o.tol, mx)})
                     IN MinInf(o.Dtot, Dtol)
GlobalAdm(sp, o, s) == TopSets(LAMBDA p : sp[p[1]][p[2]], Positions(sp, s), GlobalD(sp, o, s))
Admissible(sp, o) == UNION {GlobalAdm(sp, o, s) : s \in Stage1(sp, o)}

AllPos(sp) == {p \in (1..Len(sp)) \X (1..3) : p[2] <= Len(sp[p[1]])}
KeptBag(sp, K) == [v \in 0..9 |-> Cardinality({p \in K : sp[p[1]][p[2]] = v})]
Sq(sp, K) == SumSet({0}) + MapThenSumSet(LAMBDA p : sp[p[1]][p[2]] * sp[p[1]][p[2]], K)
Discarded2(sp, K) == Sq(sp, AllPos(sp) \ K)
=============================================================================
