----------------------------- MODULE CtmMovesMC -----------------------------
(* TLC: every sequence of update_ moves (h, v, l, r, t, b in any order, any number) on every open lattice up to MaxN x MaxN.               *)
(* The state is only (d, cov): the reachable coverages are few because moves are monotone and idempotent at the fixed point.              *)
EXTENDS CtmMoves
CONSTANTS MaxN
VARIABLES d, cov
vars == <<d, cov>>
Init == d \in (1..MaxN) \X (1..MaxN) /\ cov = CtmEye(d)
Next == \E m \in MoveNames : cov' = Move(d, cov, m) /\ d' = d
Spec == Init /\ [][Next]_vars
S == SitesOf(d)
(* whatever the order of the moves: no tensor ever holds a site outside its own region, nor a site twice *)
I_Inside == \A s \in S : \A dn \in Dirs : Support(cov[s][dn]) \subseteq Full(d, s, dn) /\ IsSet(cov[s][dn])
(* the exact environment is a fixed point of every move, and the only one of the pair (h, v) *)
I_ExactIsFixed == CtmExact(d, cov) => \A m \in MoveNames : Move(d, cov, m) = cov
I_FixedIsExact == (Move(d, cov, "h") = cov /\ Move(d, cov, "v") = cov) => CtmExact(d, cov)
(* a measurement is never a double count, and it is exact as soon as the eight tensors of its site are *)
I_NeverTwice == \A s \in S : IsSet(M1(d, cov, s))
I_M1 == \A s \in S : CtmExactAt(d, cov, s) <=> Once(d, M1(d, cov, s))
(* coverage only grows *)
Monotone == [][\A s \in S : \A dn \in Dirs : \A q \in S : cov[s][dn][q] <= cov'[s][dn][q]]_vars
(* COVERAGE: one sweep of the four sequential moves, in ANY order, lets every tensor stand for its whole region; the simultaneous pair needs as many rounds as       *)
(* expand_outward_.  (For the implementation complete coverage is necessary for exact values, not sufficient: projectors computed from a partially built environment *)
(* keep only the directions that environment needs - see TracePepsEnv!CtmuExpected.)                                                                                   *)
Perms4 == {p \in [1..4 -> {"l", "r", "t", "b"}] : \A i, j \in 1..4 : i # j => p[i] # p[j]}
RECURSIVE Rounds(_, _)
Rounds(ms, n) == IF n = 0 THEN <<>> ELSE ms \o Rounds(ms, n - 1)
AllD == (1..MaxN) \X (1..MaxN)
ASSUME A_OneSweep == \A dd \in AllD : \A p \in Perms4 : CtmExact(dd, AfterMoves(dd, p))
ASSUME A_Rounds == \A dd \in AllD : \A n \in 0..(MaxN + 1) : CtmExact(dd, AfterMoves(dd, Rounds(<<"h", "v">>, n))) <=> (n >= HvNeeded(dd))
ASSUME A_RoundsVH == \A dd \in AllD : \A n \in 0..(MaxN + 1) : CtmExact(dd, AfterMoves(dd, Rounds(<<"v", "h">>, n))) <=> (n >= HvNeeded(dd))
(* three of the four moves are not enough (on lattices with both directions) *)
ASSUME A_ThreeNotEnough == \A dd \in AllD : (dd[1] >= 2 /\ dd[2] >= 2) => ~CtmExact(dd, AfterMoves(dd, <<"l", "r", "t">>))
=============================================================================
