INIT Init
NEXT Next
