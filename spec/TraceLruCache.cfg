INIT Init
NEXT Next
