--------------------------- MODULE SerializeRules ---------------------------
(* what a serialisation route (sequence of steps <<name, args...>>) implies: shared by the design spec and the trace spec *)
EXTENDS Integers, Sequences, FiniteSets, TLC
(* the same facts as functions of a route, for the trace spec *)
MaterialisedBy(st) == \E i \in 1..Len(st) : st[i][1] \in {"save_to_dict", "save_to_hdf5"} \/ (st[i][1] = "to_dict" /\ st[i][3])
OutcomeOf(st) == LET c == st[Len(st)][2] IN
                 IF c \in {"othersym", "otherferm"} \/ (st[1][1] = "save_to_dict" /\ c = "none") THEN "rejected" ELSE "restored"
=============================================================================
