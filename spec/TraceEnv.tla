------------------------------- MODULE TraceEnv -------------------------------
(* I->S binding for C09 / C10 (protocol part).  Recorded from OUTSIDE (class-level wrappers, no source change): every update_env_ /       *)
(* clear_site_ / Heff0,1,2 / measure call of every environment instance, site writes inferred from CONTENT digests of the MPS tensors,   *)
(* enlarge_bond decisions.  (1) the event sequence of every environment must pass EnvCoherence with no stale or missing read;            *)
(* (2) the cache events of the energy environment must be EXACTLY the schedule of Sweeps.tla for the recorded method / decisions;        *)
(* (3) per-sweep numbers (scaled integers) and measured verdicts must satisfy the relations of the property.                             *)
EXTENDS Sweeps, Json, IOUtils
Traces == ndJsonDeserialize(IOEnv.TRACE_FILE)
VARIABLES tid, l, st, p
Ev == Traces[tid].ev
Abs(x) == IF x < 0 THEN -x ELSE x
AllV(v) == \A k \in DOMAIN v : v[k] = TRUE
M0 == << <<"measure", -1, 0>> >>
NoW(q) == SelectSeq(q, LAMBDA x : x[1] # "write")          \* site writes are inferred from content in the recording; compare cache events only
Expected(e) == IF e.methods = <<"tdvp12run">> THEN Setup(e.N) \o NoW(Cache(Multi12(e.N, e.nsweeps, e.decisions[1]))) \o e.tail
               ELSE IF e.interleave_measure      \* dmrg_: energy measured after setup and after every sweep
               THEN Setup(e.N) \o M0 \o Cat([k \in 1..Len(e.methods) |-> NoW(Cache(Schedule(e.N, e.methods[k], e.decisions[k]))) \o M0])
               ELSE Setup(e.N) \o Cat([k \in 1..Len(e.methods) |-> NoW(Cache(Schedule(e.N, e.methods[k], e.decisions[k])))]) \o e.tail
Converged(c) == Len(c) > 0 /\ \A i \in 1..Len(c) : c[i] = TRUE        \* at least one criterion given, and all of the given ones satisfied
Ok(e) == CASE e.op = "coherence" -> Run(Init0(e.N), e.events, e.pre, 1).bad = <<>>
           [] e.op = "schedule"  -> e.cache = Expected(e)
           [] e.op = "dmrg_sweep" ->        \* energies scaled by 10^7; tol in the same units
                 /\ Abs(e.E - e.Edense) <= e.tol                                   \* reported energy = <H> in the returned state
                 /\ e.E >= e.E0 - e.tol                                            \* variational: never below the lowest eigenvalue of the sector
                 /\ (e.monotone => e.E <= e.Eprev + e.tol)                         \* no increase from sweep to sweep when no truncation binds
                 /\ AllV(e.verdicts)                                               \* normalised, canonical, same charge sector, (converged at full D => eigenstate), penalties => orthogonal
           [] e.op = "tdvp_snapshot" ->
                 /\ e.ti = e.ti_expected /\ e.steps_ok                             \* snapshots tile the time grid; steps * dt = tf - ti
                 /\ AllV(e.verdicts)
           [] e.op = "dmrg_stop" ->         \* the stopping rule of dmrg_ (iterator mode, one entry of e.sat per performed sweep: which of the GIVEN criteria it satisfied)
                 /\ Len(e.sat) >= 1 /\ Len(e.sat) <= e.max_sweeps
                 /\ \A k \in 1..(Len(e.sat) - 1) : ~Converged(e.sat[k])             \* it went on only while some given criterion was not met
                 /\ (Len(e.sat) < e.max_sweeps => Converged(e.sat[Len(e.sat)]))     \* it stopped early only when ALL given criteria were met
                 /\ AllV(e.verdicts)
Why(e) == CASE e.op = "coherence" -> <<"environment cache", e.what, Run(Init0(e.N), e.events, e.pre, 1).bad>>
            [] e.op = "schedule" -> <<"cache events differ from the schedule", e.what, "first difference at",
                                      CHOOSE k \in 1..(Len(e.cache) + 1) : k > Len(e.cache) \/ k > Len(Expected(e)) \/ e.cache[k] # Expected(e)[k],
                                      "observed length", Len(e.cache), "expected length", Len(Expected(e))>>
            [] e.op = "dmrg_sweep" -> <<"dmrg sweep", e.what, "E", e.E, "Edense", e.Edense, "E0", e.E0, "Eprev", e.Eprev, "monotone", e.monotone, e.verdicts>>
            [] e.op = "tdvp_snapshot" -> <<"tdvp snapshot", e.what, e.ti, e.ti_expected, e.steps_ok, e.verdicts>>
            [] e.op = "dmrg_stop" -> <<"dmrg stopping rule", e.what, "criteria met per sweep", e.sat, "max_sweeps", e.max_sweeps, e.verdicts>>
(* a coherence event is replayed through EnvCoherence in chunks of at most Chunk cache events per TLC step (st = cache state so far, p = events consumed), *)
(* so that a recording of thousands of events neither nests deeply nor is re-run for the diagnosis                                                          *)
Chunk == 150
IsCoh == l \in 1..Len(Ev) /\ Ev[l].op = "coherence"
Cur == IF p = 0 THEN Init0(Ev[l].N) ELSE st
Hi == IF p + Chunk < Len(Ev[l].events) THEN p + Chunk ELSE Len(Ev[l].events)
Nxt == RunRange(Cur, Ev[l].events, Ev[l].pre, p + 1, Hi)
Init == tid \in 1..Len(Traces) /\ l = 1 /\ st = <<>> /\ p = 0
CohMore == IsCoh /\ Hi < Len(Ev[l].events) /\ st' = Nxt /\ p' = Hi /\ UNCHANGED <<tid, l>>
CohEnd == /\ IsCoh /\ Hi = Len(Ev[l].events)
          /\ IF Nxt.bad = <<>> THEN TRUE ELSE PrintT(<<"REJECT", tid, l, ToString(<<"environment cache", Ev[l].what, Nxt.bad>>)>>)
          /\ st' = <<>> /\ p' = 0 /\ l' = l + 1 /\ UNCHANGED tid
Step == l \in 1..Len(Ev) /\ ~IsCoh /\ (Ok(Ev[l]) = TRUE) /\ l' = l + 1 /\ UNCHANGED <<tid, st, p>>
Fail == l \in 1..Len(Ev) /\ ~IsCoh /\ ~Ok(Ev[l]) /\ PrintT(<<"REJECT", tid, l, ToString(Why(Ev[l]))>>) /\ l' = l + 1 /\ UNCHANGED <<tid, st, p>>
Done == l = Len(Ev) + 1 /\ PrintT(<<"ACCEPT", tid>>) /\ l' = -1 /\ UNCHANGED <<tid, st, p>>
Next == CohMore \/ CohEnd \/ Step \/ Fail \/ Done
=============================================================================
