INIT Init
NEXT Next
CONSTANTS
  SYMS = {"dense", "Z2", "Z3", "U1", "Z2xU1", "U1xU1", "U1xU1xZ2"}
  B1 = 2
  B2 = 1
  B3 = 1
INVARIANT Closure
INVARIANT Assoc
INVARIANT Commut
INVARIANT Identity
INVARIANT Inverse
INVARIANT Grouping
INVARIANT SelfFuse
