INIT Init
NEXT Next
