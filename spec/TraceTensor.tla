----------------------------- MODULE TraceTensor -----------------------------
(***************************************************************************)
(* I->S binding for the tensor algebra (C01, C02, C03, C05a, C14).         *)
(* A trace is a program executed on real yastn tensors.  Registers are     *)
(* append-only: every successful operation appends the OBSERVED abstract   *)
(* state of its result (projection alpha), and the next step starts from   *)
(* observed states.  For each event TLC recomputes the reference result    *)
(* from the observed operands with TensorOps (exact Gaussian integers) and *)
(* decides: accepted iff the operation had to be accepted; result conforms *)
(* to the reference; result is well-formed (C02) on the abstract view and  *)
(* on the raw block structure; the library's own is_consistent() agrees.   *)
(***************************************************************************)
EXTENDS TensorOps, Json, IOUtils
Traces == ndJsonDeserialize(IOEnv.TRACE_FILE)
VARIABLES tid, l, reg
Tr == Traces[tid]
Ev == Tr.ev
Knob == Tr.knob

N(o) == [sym |-> o.sym, s |-> o.s, n |-> o.n, legs |-> o.legs, grp |-> o.grp, ent |-> RangeOf(o.ent), dg |-> o.dg]
ModeCode(m) == IF m = "hard" THEN "p" ELSE IF m = "meta" THEN "m" ELSE m
KnobC == [fusion |-> ModeCode(Knob.fusion), force |-> ModeCode(Knob.force)]
G(j) == j + 1                                      \* JSON axes are 0-based
G1(q) == [j \in 1..Len(q) |-> q[j] + 1]
G2(qq) == [j \in 1..Len(qq) |-> G1(qq[j])]
Z(v) == <<v[1], v[2]>>

(* ---- raw block structure of the real object (struct.s, n, t, D, size, diag) : C02 on the representation itself ---- *)
RECURSIVE Prod(_)
Prod(q) == IF q = <<>> THEN 1 ELSE Head(q) * Prod(Tail(q))
RECURSIVE SumSeq(_)
SumSeq(q) == IF q = <<>> THEN 0 ELSE Head(q) + SumSeq(Tail(q))
LexLessSeq(x, y) == \E c \in 1..Len(x) : LexLess(x[c], y[c]) /\ \A d \in 1..(c - 1) : x[d] = y[d]
RawOK(o) == LET r == o.raw  nb == Len(r.t) IN
    /\ r.cons = "ok"                                                            \* the library's own is_consistent()
    /\ Len(r.D) = nb
    /\ \A b \in 1..nb : Len(r.t[b]) = Len(r.s) /\ Len(r.D[b]) = Len(r.s)
    /\ \A b \in 1..nb : Add(Mod(o.sym), r.t[b], r.s, 1) = r.n                     \* every stored block obeys the charge rule
    /\ \A b \in 1..(nb - 1) : Len(r.s) > 0 /\ Len(Mod(o.sym)) > 0 /\ LexLessSeq(r.t[b], r.t[b + 1])   \* unique and ordered
    /\ \A b, c \in 1..nb : \A k \in 1..Len(r.s) : r.t[b][k] = r.t[c][k] => r.D[b][k] = r.D[c][k]      \* one dimension per (leg, charge)
    /\ \A b \in 1..nb : \A k \in 1..Len(r.s) : r.D[b][k] > 0
    /\ r.size = SumSeq([b \in 1..nb |-> IF r.dg THEN r.D[b][1] ELSE Prod(r.D[b])])
    /\ r.n = o.n
    /\ o.views = "same"            \* blocks+legs, to_numpy and to_nonsymmetric describe one and the same array (compared by the recorder)

(* ---- per-operation: precondition (must be accepted) and reference result ---- *)
A(e) == reg[e.a]
B(e) == reg[e.b]
Amp(e, k) == Z(e.amp[k])
PartsOf(e) == G2(e.parts)
SetOf(q) == RangeOf(G1(q))
NatSet(T, lax) == RangeOf(NatAxes(T, G1(lax)))
NTs(e) == [i \in 1..Len(e.ts) |-> MaybeConj(reg[e.ts[i]], e.conjs[i])]
SwapPairs(T, e) == [j \in 1..Len(e.pairs) |-> <<NatSet(T, e.pairs[j][1]), NatSet(T, e.pairs[j][2])>>]

BlkOps(e) == [i \in 1..Len(e.ts) |-> reg[e.ts[i]]]
(* "route": the value already held in register a reached another way (e.how): sum_k x_k . conj(y_k) over the first three legs through fuse -> block -> one tensordot;  *)
(* the open legs may carry every sector of the operands' open legs (maximal admissible sets)                                                                          *)
RECURSIVE UnionLegs(_, _, _)
UnionLegs(rs, ax, k) == IF k = 1 THEN reg[rs[1]].legs[ax] ELSE UnionLeg(UnionLegs(rs, ax, k - 1), reg[rs[k]].legs[ax])
RouteRef(e) == [A(e) EXCEPT !.legs = <<UnionLegs(e.xs, 4, Len(e.xs)), IF "em" \in DOMAIN e THEN reg[e.em].legs[2] ELSE UnionLegs(e.ys, 4, Len(e.ys))>>]
Pre(e) == CASE e.op = "lincomb"   -> SameShape(A(e), B(e))
            [] e.op = "block"     -> PreBlock(BlkOps(e), e.pos)
            [] e.op = "add3"      -> SameShape(A(e), B(e)) /\ SameShape(A(e), reg[e.c])
            [] e.op \in {"scale", "conj", "conj_blocks", "flip_signature", "copy", "consume_transpose", "route"} -> TRUE
            [] e.op = "flip_charges" -> SetOf(e.axes) \subseteq 1..LRank(A(e)) /\ ~A(e).dg /\ \A k \in SetOf(e.axes) : A(e).grp[k] = Leaf
            [] e.op = "transpose" -> IsPerm(G1(e.p), LRank(A(e)))
            [] e.op = "tensordot" -> PreDot(MaybeConj(A(e), e.conj[1]), MaybeConj(B(e), e.conj[2]), G1(e.la), G1(e.lb))
            [] e.op = "trace"     -> PreTrace(A(e), G1(e.l0), G1(e.l1))
            [] e.op = "add_leg"   -> G(e.pos) \in 1..(LRank(A(e)) + 1) /\ ~A(e).dg
            [] e.op = "remove_leg" -> PreRemoveLeg(A(e), G(e.pos))
            [] e.op = "fuse"      -> PreFuse(A(e), PartsOf(e)) /\ ~A(e).dg
            [] e.op = "unfuse"    -> PreUnfuse(A(e), SetOf(e.axes)) /\ ~A(e).dg
            [] e.op = "diag"      -> PreDiag(A(e))
            [] e.op = "broadcast" -> PreBroadcast(A(e), B(e), G(e.axis))
            [] e.op = "apply_mask" -> PreBroadcast(A(e), B(e), G(e.axis))
            [] e.op = "swap_charge" -> RangeOf(G1(e.axes)) \subseteq 1..LRank(A(e))
            [] e.op = "ncon"      -> PreNcon(NTs(e), e.inds)
            [] e.op = "swap_gate" -> \A j \in 1..Len(e.pairs) : RangeOf(G1(e.pairs[j][1])) \cup RangeOf(G1(e.pairs[j][2])) \subseteq 1..LRank(A(e))
Ref(e) == CASE e.op = "lincomb"   -> LinComb(A(e), Amp(e, 1), B(e), Amp(e, 2))
            [] e.op = "block"     -> Block(BlkOps(e), e.pos)
            [] e.op = "scale"     -> Scale(A(e), Amp(e, 1))
            [] e.op = "conj"      -> Conj(A(e))
            [] e.op = "conj_blocks" -> ConjBlocks(A(e))
            [] e.op = "flip_signature" -> FlipSignature(A(e))
            [] e.op \in {"copy", "consume_transpose"} -> A(e)
            [] e.op = "route"     -> RouteRef(e)
            [] e.op = "flip_charges" -> FlipCharges(A(e), NatSet(A(e), e.axes))
            [] e.op = "transpose" -> Transpose(A(e), G1(e.p))
            [] e.op = "tensordot" -> Dot(MaybeConj(A(e), e.conj[1]), MaybeConj(B(e), e.conj[2]), G1(e.la), G1(e.lb))
            [] e.op = "trace"     -> Trace(A(e), G1(e.l0), G1(e.l1))
            [] e.op = "add_leg"   -> AddLeg(A(e), G(e.pos), e.s, IF e.tnone THEN DefaultLegCharge(A(e), e.s) ELSE e.t)
            [] e.op = "add3"      -> LinComb(LinComb(A(e), Amp(e, 1), B(e), Amp(e, 2)), <<1, 0>>, reg[e.c], Amp(e, 3))
            [] e.op = "remove_leg" -> RemoveLeg(A(e), G(e.pos))
            [] e.op = "fuse"      -> Fuse(A(e), PartsOf(e), EffMode(ModeCode(e.mode), KnobC))
            [] e.op = "unfuse"    -> Unfuse(A(e), SetOf(e.axes))
            [] e.op = "diag"      -> Diag(A(e))
            [] e.op = "broadcast" -> Broadcast(A(e), B(e), G(e.axis))
            [] e.op = "apply_mask" -> ApplyMask(A(e), B(e), G(e.axis))
            [] e.op = "swap_charge" -> SwapCharge(A(e), NatSet(A(e), e.axes), e.charge, Tr.ferm)
            [] e.op = "ncon"      -> Ncon(NTs(e), e.inds, e.swaps, Tr.ferm)
            [] e.op = "swap_gate" -> SwapGate(A(e), SwapPairs(A(e), e), Tr.ferm)

(* ---- MPS / MPO algebra (C06): registers hold alpha(to_tensor()) of real MPS / MPO objects; every operation of the MPS algebra is defined on the  ---- *)
(* ---- dense representative with the tensor semantics above.  An MPO on nn sites has logical legs ket_1, bra_1, ..., ket_N, bra_N.                 ---- *)
Odd(nn) == [k \in 1..nn |-> 2 * k - 1]
Even(nn) == [k \in 1..nn |-> 2 * k]
Seq1(nn) == [k \in 1..nn |-> k]
InterleaveP(nn) == [k \in 1..(2 * nn) |-> IF k % 2 = 1 THEN (k + 1) \div 2 ELSE nn + k \div 2]
SwapPairsPerm(nn) == [k \in 1..(2 * nn) |-> IF k % 2 = 1 THEN k + 1 ELSE k - 1]
RevPerm(nn, ph) == IF ph = 1 THEN [k \in 1..nn |-> nn + 1 - k] ELSE [k \in 1..(2 * nn) |-> IF k % 2 = 1 THEN 2 * nn - k ELSE 2 * nn + 2 - k]
RECURSIVE LinFold(_, _, _)
LinFold(rs, amps, k) == IF k = 1 THEN Scale(reg[rs[1]], Z(amps[1])) ELSE LinComb(LinFold(rs, amps, k - 1), <<1, 0>>, reg[rs[k]], Z(amps[k]))
MApply(O, x, nn) == Dot(O, x, Even(nn), Seq1(nn))
MCompose(P, Q, nn) == Transpose(Dot(P, Q, Even(nn), Odd(nn)), InterleaveP(nn))
RECURSIVE OuterFold(_, _)
OuterFold(rs, k) == IF k = 1 THEN reg[rs[1]] ELSE Dot(OuterFold(rs, k - 1), reg[rs[k]], <<>>, <<>>)
RECURSIVE SumOps(_, _, _, _)
SumOps(rs, amps, x, nn) == LinFold(rs, amps, Len(rs))          \* sum of MPOs with amplitudes, then applied
IsMps(e) == e.op \in {"m_lin", "m_scale", "m_apply", "m_compose", "m_conj", "m_transpose", "m_hc", "m_reverse", "m_outer", "m_div"}
PreM(e) == CASE e.op = "m_lin" -> \A k \in 2..Len(e.rs) : SameShape(reg[e.rs[1]], reg[e.rs[k]])
             [] e.op = "m_apply" -> PreDot(A(e), B(e), Even(e.N), Seq1(e.N))
             [] e.op = "m_compose" -> PreDot(A(e), B(e), Even(e.N), Odd(e.N))
             [] OTHER -> TRUE
RefM(e) == CASE e.op = "m_lin" -> LinFold(e.rs, e.amp, Len(e.rs))
             [] e.op = "m_scale" -> Scale(A(e), Amp(e, 1))
             [] e.op = "m_apply" -> MApply(A(e), B(e), e.N)
             [] e.op = "m_compose" -> MCompose(A(e), B(e), e.N)
             [] e.op = "m_conj" -> Conj(A(e))
             [] e.op = "m_transpose" -> IF e.ph = 2 THEN Transpose(A(e), SwapPairsPerm(e.N)) ELSE A(e)
             [] e.op = "m_hc" -> IF e.ph = 2 THEN Conj(Transpose(A(e), SwapPairsPerm(e.N))) ELSE Conj(A(e))
             [] e.op = "m_reverse" -> Transpose(A(e), RevPerm(e.N, e.ph))
             [] e.op = "m_outer" -> OuterFold(e.rs, Len(e.rs))
(* division by a scalar: the result r is the tensor with c * r = operand (exact in the Gaussian integers) *)
DivOK(e) == Scale(N(e.obs), Amp(e, 1)) = [A(e) EXCEPT !.legs = N(e.obs).legs] /\ N(e.obs).s = A(e).s /\ N(e.obs).n = A(e).n
(* the separate norm factor: multiplication by c multiplies it by |c| (c = 0 sets it to 0); Gaussian-integer c with integer modulus *)
AbsG(z) == CHOOSE m \in 0..9 : m * m = z[1] * z[1] + z[2] * z[2]
FactorOK(e) == CASE e.op = "m_scale" -> e.factor[1] * e.factor0[2] = AbsG(Amp(e, 1)) * e.factor0[1] * e.factor[2]
                 [] e.op = "m_div" -> e.factor[1] * e.factor0[2] * AbsG(Amp(e, 1)) = e.factor0[1] * e.factor[2]
                 [] OTHER -> TRUE
MpsOK(e) == IF e.op = "m_div" THEN e.out = "ok" /\ DivOK(e) /\ FactorOK(e)
            ELSE IF PreM(e) THEN /\ e.out = "ok" /\ FactorOK(e)
                                 (* the zero state has no definite charge (it is represented with empty legs): only "no element" is required of it *)
                                 /\ \/ (RefM(e).ent = {} /\ N(e.obs).ent = {})
                                    \/ (Conforms(N(e.obs), RefM(e)) /\ WellFormed(N(e.obs)))
                 ELSE e.out = "YastnError"
WhyMps(e) == IF e.op = "m_div" THEN <<"division: c * result differs from the operand, or factor bookkeeping", e.factor0, e.factor>>
             ELSE IF ~PreM(e) THEN <<"must be rejected", e.out>> ELSE IF e.out # "ok" THEN <<"valid MPS operation failed", e.out>>
             ELSE IF ~Conforms(N(e.obs), RefM(e)) THEN WhyNot(N(e.obs), RefM(e)) ELSE <<"factor bookkeeping / well-formedness", e.factor0, e.factor>>
(* numbers: overlap <a|b>, <a| sum_k amp_k O_k |b> *)
IsMNum(e) == e.op \in {"m_overlap", "m_measure"}
RefMNum(e) == CASE e.op = "m_overlap" -> Vdot(Conj(A(e)), B(e))
                [] e.op = "m_measure" -> Vdot(Conj(A(e)), MApply(LinFold(e.rs, e.amp, Len(e.rs)), B(e), e.N))

(* C03 'operations on incompatibly fused legs are rejected with YastnError rather than computed': a dimension conflict on a native leg that sits INSIDE a hard-fused *)
(* group is not visible from the fused leg (the effective sectors of the operands may even be disjoint), for ANY pair of operands of an n-ary sum                     *)
HardFusedAxes(T) == UNION {RangeOf(NatOf(T, k)) : k \in {j \in 1..LRank(T) : T.grp[j][1][1] > 1 /\ T.grp[j][1][2] = "p"}}
HiddenDimConflict(a, b) == NRank(a) = NRank(b) /\ \E k \in HardFusedAxes(a) : ~DimsAgree(a.legs[k], b.legs[k])
MustRejectHidden(e) == CASE e.op = "lincomb" -> SameShape(A(e), B(e)) /\ HiddenDimConflict(A(e), B(e))
                         [] e.op = "add3" -> SameShape(A(e), B(e)) /\ SameShape(A(e), reg[e.c])
                                             /\ (HiddenDimConflict(A(e), B(e)) \/ HiddenDimConflict(A(e), reg[e.c]) \/ HiddenDimConflict(B(e), reg[e.c]))
                         [] OTHER -> FALSE
(* inputs on which the outcome is unspecified (6.4 of DESIGN.md): a charge sector with two different dimensions in the operands *)
Unspec(e) == CASE e.op = "lincomb" -> SameShape(A(e), B(e)) /\ ~DimsOKSame(A(e), B(e))
               [] e.op = "block" -> PreBlock(BlkOps(e), e.pos) /\ ~BlockDimsOK(BlkOps(e), e.pos)
               [] e.op = "add3" -> SameShape(A(e), B(e)) /\ SameShape(A(e), reg[e.c]) /\ ~(DimsOKSame(A(e), B(e)) /\ DimsOKSame(A(e), reg[e.c]) /\ DimsOKSame(B(e), reg[e.c]))
               [] e.op = "vdot" /\ A(e).dg # B(e).dg -> TRUE        \* mixing a diagonal with a non-diagonal operand in vdot: unsupported input, unspecified
               [] e.op \in {"tensordot", "vdot"} -> ~DimsOKDot(A(e), B(e), IF e.op = "vdot" THEN [k \in 1..LRank(A(e)) |-> k] ELSE G1(e.la),
                                                                         IF e.op = "vdot" THEN [k \in 1..LRank(B(e)) |-> k] ELSE G1(e.lb))
                                                    /\ Len(IF e.op = "vdot" THEN <<>> ELSE G1(e.la)) = Len(IF e.op = "vdot" THEN <<>> ELSE G1(e.lb))
                                                    /\ (e.op = "vdot" => LRank(A(e)) = LRank(B(e)))
                                                    /\ (e.op = "tensordot" => (RangeOf(G1(e.la)) \subseteq 1..LRank(A(e)) /\ RangeOf(G1(e.lb)) \subseteq 1..LRank(B(e))))
               [] e.op = "diag" -> PreDiag(A(e)) /\ ~A(e).dg /\ ~DimsAgree(A(e).legs[1], A(e).legs[2])
               [] e.op \in {"broadcast", "apply_mask"} -> PreBroadcast(A(e), B(e), G(e.axis)) /\ ~DimsAgree(A(e).legs[1], B(e).legs[NatOf(B(e), G(e.axis))[1]])
               [] e.op = "trace" -> Len(e.l0) = Len(e.l1) /\ RangeOf(G1(e.l0)) \cup RangeOf(G1(e.l1)) \subseteq 1..LRank(A(e)) /\ ~DimsOKTrace(A(e), G1(e.l0), G1(e.l1))
               [] OTHER -> FALSE
(* ---- factorisations: structure decided here, spectra compared with prescribed integers, numeric clauses arrive as measured verdicts ---- *)
NS(o) == [sym |-> o.sym, s |-> o.s, n |-> o.n, legs |-> o.legs, grp |-> o.grp, dg |-> o.dg]
IsFact(e) == e.op \in {"svd", "qr", "eigh", "eig"}
ZeroN(e) == Zero(Mod(A(e).sym))
PosL(e) == G(e.Laxis)
PosR(e) == G(e.Raxis)
FactNL(e) == IF e.op \in {"svd", "eig"} /\ ~e.nU THEN ZeroN(e) ELSE IF e.op = "eigh" THEN ZeroN(e) ELSE A(e).n      \* charge carried by the left factor
AllV(v) == \A k \in DOMAIN v : v[k] = TRUE
(* the connecting leg: charges must be among those the bipartition implies (NewT of an active left charge) and the dimension cannot      *)
(* exceed min(rows, cols) of that sector of the legs; it equals it when every allowed block is stored, and is smaller when blocks are      *)
(* absent (stored blocks are representation, 6.1) - then reconstruction + isometry (verdicts) pin it from below.                            *)
LegLE(obs, mx) == \A p \in RangeOf(obs) : \E q \in RangeOf(mx) : q[1] = p[1] /\ p[2] <= q[2] /\ p[2] >= 1
FactStruct(o, r, np) == /\ o.sym = r.sym /\ o.s = r.s /\ o.n = r.n /\ o.grp = r.grp /\ o.dg = r.dg /\ Len(o.legs) = Len(r.legs)
                        /\ \A k \in 1..Len(r.legs) : IF k = np THEN LegLE(o.legs[k], r.legs[k]) ELSE SecSet(o.legs[k]) \subseteq SecSet(r.legs[k])
NpL(e) == LeavesBefore(Pick(A(e).grp, G1(e.la)), PosL(e)) + 1
NpR(e) == LeavesBefore(Pick(A(e).grp, G1(e.lb)), PosR(e)) + 1
FactOK(e) == LET a == A(e)  la == G1(e.la)  lb == G1(e.lb)  sq == (e.op \in {"eigh", "eig"})
                 nleg == SpectrumLeg(a, la, lb, e.sg, FactNL(e), sq)
                 nlegR == IF sq THEN nleg ELSE nleg IN
    /\ e.out = "ok"
    /\ FactStruct(NS(e.L), LeftFactor(a, la, lb, e.sg, FactNL(e), PosL(e), nleg), NpL(e)) /\ RawOK(e.L)
    /\ (e.op # "eigh" => /\ FactStruct(NS(e.R), RightFactor(a, la, lb, e.sg, FactNL(e), PosR(e), nleg), NpR(e)) /\ RawOK(e.R)
                          /\ e.R.legs[NpR(e)] = e.L.legs[NpL(e)])                                   \* both factors agree on the connecting space
    /\ (e.op # "qr" => /\ e.S.legs = <<e.L.legs[NpL(e)], e.L.legs[NpL(e)]>>
                        /\ e.S.s = <<-e.sg, e.sg>> /\ e.S.n = ZeroN(e) /\ e.S.dg)
    /\ AllV(e.verdicts)
    /\ (e.spectrum # <<>> => e.spectrum = e.S.vals)              \* prescribed integer spectrum per sector, sorted as documented
    /\ (e.full => e.L.legs[NpL(e)] = nleg)                        \* every allowed block stored: exactly min(rows, cols)
WhyFact(e) == LET a == A(e)  la == G1(e.la)  lb == G1(e.lb)  sq == (e.op \in {"eigh", "eig"})
                  nleg == SpectrumLeg(a, la, lb, e.sg, FactNL(e), sq) IN
    IF e.out # "ok" THEN <<"factorisation failed", e.out>>
    ELSE IF ~FactStruct(NS(e.L), LeftFactor(a, la, lb, e.sg, FactNL(e), PosL(e), nleg), NpL(e)) THEN <<"left factor structure", WhyStruct(NS(e.L), LeftFactor(a, la, lb, e.sg, FactNL(e), PosL(e), nleg))>>
    ELSE IF e.op # "eigh" /\ ~FactStruct(NS(e.R), RightFactor(a, la, lb, e.sg, FactNL(e), PosR(e), nleg), NpR(e)) THEN <<"right factor structure", WhyStruct(NS(e.R), RightFactor(a, la, lb, e.sg, FactNL(e), PosR(e), nleg))>>
    ELSE IF e.op # "eigh" /\ e.R.legs[NpR(e)] # e.L.legs[NpL(e)] THEN <<"the two factors disagree on the connecting leg", e.L.legs[NpL(e)], e.R.legs[NpR(e)]>>
    ELSE IF e.full /\ e.L.legs[NpL(e)] # nleg THEN <<"connecting leg", e.L.legs[NpL(e)], "expected (all blocks stored)", nleg>>
    ELSE IF ~AllV(e.verdicts) THEN <<"measured clause false", e.verdicts>>
    ELSE IF e.spectrum # <<>> /\ e.spectrum # e.S.vals THEN <<"spectrum", e.S.vals, "prescribed", e.spectrum>>
    ELSE <<"spectrum tensor structure / raw structure", e.S>>
(* numbers *)
PreNum(e) == CASE e.op = "vdot" -> PreVdot(MaybeConj(A(e), e.conj[1]), MaybeConj(B(e), e.conj[2]))
               [] e.op = "norm2" -> TRUE
RefNum(e) == CASE e.op = "vdot" -> Vdot(MaybeConj(A(e), e.conj[1]), MaybeConj(B(e), e.conj[2]))
               [] e.op = "norm2" -> CSum(A(e).ent, LAMBDA f : CMul(f[2], CConj(f[2])))
IsNum(e) == e.op \in {"vdot", "norm2"}
IsInit(e) == e.op = "init"

(* an ncon event carries the results obtained with SEVERAL contraction orders: every one must conform to the single order-free reference *)
NconOK(e) == LET r == Ref(e) IN \A k \in 1..Len(e.results) :
                 /\ e.results[k].out = "ok" /\ e.results[k].obs.views = "same"
                 /\ Conforms(N(e.results[k].obs), r) /\ WellFormed(N(e.results[k].obs)) /\ RawOK(e.results[k].obs)
ResOK(e) == LET o == N(e.obs) IN e.obs.views = "same" /\ Conforms(o, Ref(e)) /\ WellFormed(o) /\ RawOK(e.obs)
Ok(e) == IF IsInit(e) THEN WellFormed(N(e.obs)) /\ RawOK(e.obs)
         ELSE IF MustRejectHidden(e) THEN e.out = "YastnError"
         ELSE IF Unspec(e) THEN TRUE
         ELSE IF IsNum(e) THEN (IF PreNum(e) THEN e.out = "ok" /\ Z(e.val) = RefNum(e) ELSE e.out = "YastnError")
         ELSE IF IsMps(e) THEN MpsOK(e)
         ELSE IF IsMNum(e) THEN e.out = "ok" /\ Z(e.val) = RefMNum(e)
         ELSE IF IsFact(e) THEN (IF PreFactor(A(e), G1(e.la), G1(e.lb)) THEN FactOK(e) ELSE e.out = "YastnError")
         ELSE IF e.op = "ncon" THEN (IF Pre(e) THEN NconOK(e) ELSE \A k \in 1..Len(e.results) : e.results[k].out = "YastnError")
         ELSE IF Pre(e) THEN e.out = "ok" /\ ResOK(e)
         ELSE e.out = "YastnError"
Why(e) == IF IsInit(e) THEN <<"initial tensor not well-formed", WfLegs(N(e.obs)), WfGrp(N(e.obs)), WfEnt(N(e.obs)), WfDiag(N(e.obs)), e.obs.raw, e.obs.views>>
          ELSE IF MustRejectHidden(e) THEN <<"operands disagree on the dimension of a sector inside a hard-fused group: must be rejected with YastnError, got", e.out>>
          ELSE IF IsNum(e) THEN (IF PreNum(e) THEN <<"number", e.out, IF e.out = "ok" THEN Z(e.val) ELSE CZ, "reference", RefNum(e)>>
                                 ELSE <<"must be rejected with YastnError, got", e.out>>)
          ELSE IF IsMps(e) THEN WhyMps(e)
          ELSE IF IsMNum(e) THEN <<"number", e.out, IF e.out = "ok" THEN Z(e.val) ELSE CZ, "reference", RefMNum(e)>>
          ELSE IF IsFact(e) THEN WhyFact(e)
          ELSE IF e.op = "ncon" THEN (IF ~Pre(e) THEN <<"ncon must be rejected">> ELSE
                 LET r == Ref(e)  k == CHOOSE k \in 1..Len(e.results) : ~(e.results[k].out = "ok" /\ e.results[k].obs.views = "same" /\ Conforms(N(e.results[k].obs), r)
                                                                           /\ WellFormed(N(e.results[k].obs)) /\ RawOK(e.results[k].obs))
                 IN <<"contraction order", e.results[k].order, e.results[k].out, IF e.results[k].out = "ok" THEN WhyNot(N(e.results[k].obs), r) ELSE <<>>>>)
          ELSE IF ~Pre(e) THEN <<"must be rejected with YastnError, got", e.out>>
          ELSE IF e.out # "ok" THEN <<"valid operation was not executed:", e.out>>
          ELSE IF e.obs.views # "same" THEN <<"result cannot be read back consistently (C01/C02)", e.obs.views, "is_consistent", e.obs.raw.cons>>
          ELSE IF ~Conforms(N(e.obs), Ref(e)) THEN WhyNot(N(e.obs), Ref(e))
          ELSE IF ~WellFormed(N(e.obs)) THEN <<"result not well-formed (C02)", WfLegs(N(e.obs)), WfGrp(N(e.obs)), WfEnt(N(e.obs)), WfDiag(N(e.obs))>>
          ELSE <<"raw block structure / is_consistent / views (C02, C01)", e.obs.raw, e.obs.views>>

(* register numbering: a program executed under several configurations keeps the numbering of the GENERATING execution (field reg): a step that is legitimately   *)
(* rejected here (e.g. explicit and default fusion modes mixed under another default) leaves a placeholder, a step computed only here is validated but not registered *)
HasReg(e) == "reg" \in DOMAIN e
Missing == [sym |-> "missing"]
Appends(e) == IsInit(e) \/ (~IsNum(e) /\ ~IsMNum(e) /\ ~IsFact(e) /\ e.op # "ncon" /\ (IF HasReg(e) THEN e.reg ELSE e.out = "ok"))
NewReg(e) == IF "obs" \in DOMAIN e THEN N(e.obs) ELSE Missing
OperandMissing(e) == ~IsInit(e) /\ "out" \in DOMAIN e /\ e.out = "operand missing (an earlier step failed in this execution)"
Init == tid \in 1..Len(Traces) /\ l = 1 /\ reg = <<>>
Step == /\ l \in 1..Len(Ev) /\ (OperandMissing(Ev[l]) \/ Ok(Ev[l]) = TRUE) /\ l' = l + 1 /\ UNCHANGED tid
        /\ reg' = IF Appends(Ev[l]) THEN Append(reg, NewReg(Ev[l])) ELSE reg
(* a rejected event stops the trace (the state after it is not trustworthy) *)
Fail == l \in 1..Len(Ev) /\ ~OperandMissing(Ev[l]) /\ ~Ok(Ev[l]) /\ PrintT(<<"REJECT", tid, l, ToString(<<Ev[l].op, Why(Ev[l])>>)>>) /\ l' = 0 /\ UNCHANGED <<tid, reg>>
Done == l = Len(Ev) + 1 /\ PrintT(<<"ACCEPT", tid>>) /\ l' = -1 /\ UNCHANGED <<tid, reg>>
Next == Step \/ Fail \/ Done
(* C02 as an invariant of the trace spec: every register, after every event, is well-formed *)
Inv_WF == \A r \in 1..Len(reg) : reg[r] = Missing \/ WellFormed(reg[r])
=============================================================================
