------------------------------ MODULE LatticeMC ------------------------------
(* Design check for C20: every geometry in the bound is one state; the model's own tables satisfy all invariants. *)
EXTENDS Lattice
CONSTANTS MaxN,      \* SquareLattice dims up to MaxN x MaxN
          MaxTri,    \* TriangularLattice(full_patch) dims up to MaxTri x MaxTri
          RectDims,  \* set of <<Nx, Ny>> for RectangularUnitcell patterns
          Labels     \* number of labels in patterns
VARIABLES g, phase
RectDimsQuick == {<<1,1>>, <<1,2>>, <<2,1>>, <<2,2>>, <<1,3>>, <<3,1>>, <<2,3>>, <<3,2>>}
RectDimsThorough == RectDimsQuick \cup {<<3,3>>, <<1,4>>, <<4,1>>, <<2,4>>, <<4,2>>}
RectDims44 == {<<4,4>>}
BCs == {"infinite", "obc", "cylinder"}
Geo(kind, nx, ny, bc, pat) == [kind |-> kind, Nx |-> nx, Ny |-> ny, bc |-> bc, pat |-> pat]
Init == phase = 0 /\ g \in {Geo("Checkerboard", 2, 2, "infinite", <<>>), Geo("Tri3", 3, 3, "infinite", <<>>)}
                         \cup {Geo("Square", 1, 1, bc, <<>>) : bc \in BCs}
Expand == /\ phase = 0 /\ phase' = 1 /\ g.kind = "Square" /\ g.Nx = 1 /\ g.Ny = 1
          /\ \/ \E nx \in 1..MaxN, ny \in 1..MaxN : g' = Geo("Square", nx, ny, g.bc, <<>>)
             \/ \E nx \in 1..MaxTri, ny \in 1..MaxTri : g' = Geo("TriFull", nx, ny, g.bc, <<>>)
             \/ g.bc = "infinite" /\ \E d \in RectDims : \E p \in [1..d[1] -> [1..d[2] -> 0..(Labels - 1)]] :
                   g' = Geo("Rectangular", d[1], d[2], "infinite", p)
Next == Expand
Checked == g.kind # "Rectangular" \/ ValidPattern(g)
ModelOK == Checked => AllInv(ModelTable(g), g)
Why == Checked => (FirstFailing(ModelTable(g), g) = "ok" \/ PrintT(<<"MODEL-FAIL", g, FirstFailing(ModelTable(g), g)>>))
(* a canonical-label pattern (first occurrences of labels in increasing order) that is valid: used to count non-trivial cases *)
=============================================================================
