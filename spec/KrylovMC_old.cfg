SPECIFICATION Spec
CONSTANTS
  NcvMax = 3
  Ncv0Max = 5
  T = 6
  Rule = "eq"
INVARIANT Inv_NoOvershoot
INVARIANT Inv_NcvRange
INVARIANT Inv_RejectKeepsSpace
PROPERTY Prop_Progress
PROPERTY Termination
