INIT Init
NEXT Next
CONSTANTS
  MaxObj = 4
  Vals = {0, 1}
  Depth = 6
CONSTRAINT Bound
INVARIANT I_FreshIndep
PROPERTY A_PureKeeps
PROPERTY A_InPlaceOnly
PROPERTY A_CopyIsolated
