------------------------------ MODULE TraceHeap ------------------------------
(* I->S binding for C15: a recorded sequence of public calls on real yastn objects (tensors, MPS/MPO, PEPS).  Around every call the  *)
(* recorder digests EVERY live object before and after, and probes storage sharing (numpy.shares_memory) of every new object with    *)
(* every live one.  The event sequence must be a behaviour of Heap: pure calls change nothing, copy()/clone() results share with       *)
(* nothing, in-place calls change only objects that may share storage with the receiver.                                                *)
EXTENDS Integers, Sequences, FiniteSets, TLC, Json, IOUtils
Traces == ndJsonDeserialize(IOEnv.TRACE_FILE)
VARIABLES tid, l, share
Ev == Traces[tid].ev
RangeOf(q) == {q[i] : i \in 1..Len(q)}
Sym(R) == R \cup {<<p[2], p[1]>> : p \in R}
Pairs(q) == {<<q[i][1], q[i][2]>> : i \in 1..Len(q)}
Closure(o) == {o} \cup {p[2] : p \in {x \in share : x[1] = o}}
Ok(e) == CASE e.kind = "pure"  -> e.changed = <<>>                                         \* arguments (and everything else) keep value and structure, also when the call is rejected
           [] e.kind = "fresh" -> e.changed = <<>> /\ e.shares = <<>>                           \* independent copy: no shared storage with anything alive
           [] e.kind = "inplace" -> RangeOf(e.changed) \subseteq Closure(e.recv)
           [] e.kind = "raises" -> e.out = "ok"                                                 \* a public copy/clone that must work
Why(e) == CASE e.kind = "pure" -> <<"operation changed an existing object", e.fn, "changed", e.changed>>
            [] e.kind = "fresh" -> <<"copy/clone not independent", e.fn, "changed", e.changed, "shares storage with", e.shares>>
            [] e.kind = "inplace" -> <<"in-place call changed an object that does not share storage with its receiver", e.fn, "receiver", e.recv, "changed", e.changed, "closure", Closure(e.recv)>>
            [] OTHER -> <<"call failed", e.fn, e.out>>
Init == tid \in 1..Len(Traces) /\ l = 1 /\ share = {}
Step == l \in 1..Len(Ev) /\ (Ok(Ev[l]) = TRUE) /\ l' = l + 1 /\ share' = share \cup Sym(Pairs(Ev[l].shares)) /\ UNCHANGED tid
Fail == l \in 1..Len(Ev) /\ ~Ok(Ev[l]) /\ PrintT(<<"REJECT", tid, l, ToString(Why(Ev[l]))>>) /\ l' = l + 1 /\ share' = share \cup Sym(Pairs(Ev[l].shares)) /\ UNCHANGED tid
Done == l = Len(Ev) + 1 /\ PrintT(<<"ACCEPT", tid>>) /\ l' = -1 /\ UNCHANGED <<tid, share>>
Next == Step \/ Fail \/ Done
=============================================================================
