INIT Init
NEXT LogNext
CONSTANTS
  G <- @G@
  Objs = {"a", "b"}
  Depth = @D@
CONSTRAINT Bound
INVARIANT I_Consistent
PROPERTY A_PatchIsolated
PROPERTY A_Commit
