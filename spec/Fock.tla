-------------------------------- MODULE Fock --------------------------------
(***************************************************************************)
(* Fock space of NM fermionic modes in the Jordan-Wigner convention used   *)
(* by yastn: modes are ordered 1..NM (site-major; within a site spin-up    *)
(* before spin-down, |ud> = c+_u c+_d |0>).  A basis state is the set of   *)
(* occupied modes; a vector is <<sg, S>> with sg in {-1, 0, 1} (0 = the    *)
(* zero vector).  Elementary operators <<"c", m>>, <<"cp", m>>, <<"n", m>>.*)
(* The statistics is a GRADING gr = <<kind, nm>>: kind "all" = every two    *)
(* modes anticommute (Z2, U1, U1xU1xZ2 with the parity component);          *)
(* "species" = modes anticommute iff they belong to the same species        *)
(* (m-1) % nm (U1xU1 with fermionic=True: each component is graded on its   *)
(* own, so up and down COMMUTE); "none" = all modes commute (bosonic        *)
(* configuration of C07: no strings).                                       *)
(***************************************************************************)
EXTENDS Integers, Sequences, FiniteSets, TLC
ZeroV == <<0, {}>>
Anti(k, m, gr) == gr[1] = "all" \/ (gr[1] = "species" /\ (k - 1) % gr[2] = (m - 1) % gr[2])
JW(m, S, gr) == IF Cardinality({k \in S : k < m /\ Anti(k, m, gr)}) % 2 = 1 THEN -1 ELSE 1
ApplyEl(el, st, ferm) ==
    IF st[1] = 0 THEN ZeroV
    ELSE LET m == el[2]  S == st[2] IN
         CASE el[1] = "c"  -> IF m \in S THEN <<st[1] * JW(m, S, ferm), S \ {m}>> ELSE ZeroV
           [] el[1] = "cp" -> IF m \notin S THEN <<st[1] * JW(m, S, ferm), S \cup {m}>> ELSE ZeroV
           [] el[1] = "n"  -> IF m \in S THEN st ELSE ZeroV
           [] el[1] = "h"  -> IF m \notin S THEN st ELSE ZeroV              \* hole projector 1 - n
(* a word is a sequence of elementary operators read as an operator product: the RIGHTMOST acts first *)
RECURSIVE ApplyWord(_, _, _)
ApplyWord(w, st, ferm) == IF w = <<>> THEN st ELSE ApplyWord(SubSeq(w, 1, Len(w) - 1), ApplyEl(w[Len(w)], st, ferm), ferm)
(* matrix of a word on the whole Fock space: set of <<out, in, sign>> *)
Matrix(w, NM, ferm) == {<<ApplyWord(w, <<1, S>>, ferm)[2], S, ApplyWord(w, <<1, S>>, ferm)[1]>> : S \in {T \in SUBSET (1..NM) : ApplyWord(w, <<1, T>>, ferm)[1] # 0}}

(* ------------------ local operators of the predefined families ------------------ *)
(* nm = modes per site; site j (0-based) owns modes j*nm+1 .. j*nm+nm; up = 1, down = 2 *)
M(j, a, nm) == j * nm + a
LocalWord(name, j, nm) ==
    CASE name = "I"   -> <<>>
      [] name = "n"   -> << <<"n", M(j, 1, nm)>> >>
      [] name = "c"   -> << <<"c", M(j, 1, nm)>> >>
      [] name = "cp"  -> << <<"cp", M(j, 1, nm)>> >>
      [] name = "nu"  -> << <<"n", M(j, 1, nm)>> >>
      [] name = "nd"  -> << <<"n", M(j, 2, nm)>> >>
      [] name = "cu"  -> << <<"c", M(j, 1, nm)>> >>
      [] name = "cd"  -> << <<"c", M(j, 2, nm)>> >>
      [] name = "cpu" -> << <<"cp", M(j, 1, nm)>> >>
      [] name = "cpd" -> << <<"cp", M(j, 2, nm)>> >>
      [] name = "Sp"  -> << <<"cp", M(j, 1, nm)>>, <<"c", M(j, 2, nm)>> >>        \* S+ = c+_u c_d
      [] name = "Sm"  -> << <<"cp", M(j, 2, nm)>>, <<"c", M(j, 1, nm)>> >>        \* S- = c+_d c_u
      [] name = "nund" -> << <<"n", M(j, 1, nm)>>, <<"n", M(j, 2, nm)>> >>
RECURSIVE ConcatW(_)
ConcatW(ss) == IF ss = <<>> THEN <<>> ELSE Head(ss) \o ConcatW(Tail(ss))
Rev(q) == [i \in 1..Len(q) |-> q[Len(q) + 1 - i]]
(* operator product "applied[1] acts first, applied[2] second, ...": the word lists the LAST applied operator first *)
ProductWord(names, sites, applied, nm) == ConcatW([p \in 1..Len(applied) |-> LocalWord(names[Rev(applied)[p] + 1], sites[Rev(applied)[p] + 1], nm)])
=============================================================================
