---------------------------- MODULE TraceLattice ----------------------------
(* I->S binding for C20 (geometry part): one event = the complete tables observed from one real geometry object, *)
(* or the outcome of its constructor.  Every invariant of Lattice.tla is evaluated on the observed tables.       *)
EXTENDS Lattice, Json, IOUtils
Traces == ndJsonDeserialize(IOEnv.TRACE_FILE)
VARIABLES tid, l
Ev == Traces[tid].ev

Accepts(g) == /\ g.bc \in {"infinite", "obc", "cylinder"}
              /\ g.kind = "Rectangular" => (g.rect /\ g.Nx >= 1 /\ g.Ny >= 1 /\ ValidPattern(g))
DirSeq == <<Dir.tl, Dir.t, Dir.tr, Dir.l, Dir.r, Dir.bl, Dir.b, Dir.br>>
Rev(q) == [i \in 1..Len(q) |-> q[Len(q) + 1 - i]]
(* named directions are the corresponding shifts *)
I_Named(T) == \A i \in 1..Len(T.win) : \A k \in 1..8 : T.nnd[i][k] = T.nn[i][ShiftIx(DirSeq[k])]
(* bonds() / sites() listings: default = h then v (then d); reverse = reversed *)
I_Listing(T) == /\ T.ball = T.bh \o T.bv \o T.bd /\ T.ballrev = Rev(T.ball)
                /\ T.sitesrev = Rev(T.sites) /\ T.bhrev = Rev(T.bh) /\ T.bvrev = Rev(T.bv)
(* nn_bond_dirn on all ordered pairs of valid sites of the small window *)
DirnOK(T, g, i, j) == LET a == T.swin[i]  b == T.swin[j]  r == T.dirn[i][j]
                          is(d) == TNN(T, a, d) = b /\ TNN(T, b, <<-d[1], -d[2]>>) = a IN
                      (Valid(g, a) /\ Valid(g, b)) =>
                          /\ r = "lr" => is(Dir.r)
                          /\ r = "tb" => is(Dir.b)
                          /\ r = "rl" => is(Dir.l)
                          /\ r = "bt" => is(Dir.t)
                          /\ r = "YastnError" => ~(is(Dir.r) \/ is(Dir.b) \/ is(Dir.l) \/ is(Dir.t))
                          /\ r \in {"lr", "tb", "rl", "bt", "YastnError"}
I_Dirn(T, g) == \A i, j \in 1..Len(T.swin) : DirnOK(T, g, i, j)
(* listed bonds are reported in lattice order by nn_bond_dirn: horizontal 'lr', vertical 'tb' *)
I_BondsDirn(T) == /\ \A a \in 1..Len(T.bh) : (InSW(T, T.bh[a][1]) /\ InSW(T, T.bh[a][2])) => T.dirn[SPos(T, T.bh[a][1])][SPos(T, T.bh[a][2])] = "lr"
                  /\ \A a \in 1..Len(T.bv) : (InSW(T, T.bv[a][1]) /\ InSW(T, T.bv[a][2])) => T.dirn[SPos(T, T.bv[a][1])][SPos(T, T.bv[a][2])] = "tb"

Ok(e) == IF e.outcome = "ok"
         THEN Accepts(e.g) /\ AllInv(e.T, e.g) /\ I_Named(e.T) /\ I_Listing(e.T) /\ I_Dirn(e.T, e.g) /\ I_BondsDirn(e.T)
         ELSE e.outcome = "YastnError" /\ ~Accepts(e.g)
Why(e) == IF e.outcome # "ok" THEN <<"constructor outcome", e.outcome, "spec accepts", Accepts(e.g)>>
          ELSE IF ~Accepts(e.g) THEN <<"constructed although the geometry must be rejected">>
          ELSE IF ~AllInv(e.T, e.g) THEN <<FirstFailing(e.T, e.g)>>
          ELSE IF ~I_Named(e.T) THEN <<"I_Named: named direction differs from its shift">>
          ELSE IF ~I_Listing(e.T) THEN <<"I_Listing: bonds()/sites() default or reverse listing inconsistent">>
          ELSE IF ~I_Dirn(e.T, e.g) THEN <<"I_Dirn: nn_bond_dirn inconsistent with nn_site">>
          ELSE <<"I_BondsDirn: a listed bond is not reported in lattice order (lr / tb) by nn_bond_dirn">>

Init == tid \in 1..Len(Traces) /\ l = 1
Step == l \in 1..Len(Ev) /\ (Ok(Ev[l]) = TRUE) /\ l' = l + 1 /\ UNCHANGED tid
Fail == l \in 1..Len(Ev) /\ ~Ok(Ev[l]) /\ PrintT(<<"REJECT", tid, l, ToString(Why(Ev[l]))>>) /\ l' = l + 1 /\ UNCHANGED tid   \* events are independent: go on
Done == l = Len(Ev) + 1 /\ PrintT(<<"ACCEPT", tid>>) /\ l' = -1 /\ UNCHANGED tid
Next == Step \/ Fail \/ Done
=============================================================================
