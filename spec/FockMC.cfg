INIT Init
NEXT Next
CONSTANT NM = 4
INVARIANT CAR1
INVARIANT CAR2
INVARIANT NumberOp
