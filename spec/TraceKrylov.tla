----------------------------- MODULE TraceKrylov -----------------------------
(* I->S binding for C18.  Recorded from OUTSIDE (class-level wrapper of Tensor.expand_krylov_space reading the controller variables of the   *)
(* calling expmv frame at the top of every iteration; no source change).  Every recorded iteration of every expmv call must be a transition  *)
(* of the controller of Krylov.tla for SOME environment (acceptance table / breakdown): basis kept on rejection and reset on acceptance,     *)
(* time advanced by exactly the step, clamps on tau and ncv, forced shrink when the space cannot grow, PROGRESS after every rejection;       *)
(* the call's bookkeeping (steps, krylov_steps, info.ncv) must follow from the iterations.  eigs / lin_solver calls and the numerical        *)
(* comparisons with dense references enter as integers and measured verdict bits whose implication structure is stated here.                *)
EXTENDS Krylov, Json, IOUtils
Traces == ndJsonDeserialize(IOEnv.TRACE_FILE)
VARIABLES tid, l, pv, cnt
Ev == Traces[tid].ev
AllV(v) == \A k \in DOMAIN v : v[k] = TRUE
None == [none |-> TRUE]
M(p) == IF p.happy THEN p.lenOut ELSE p.lenOut - 1
Log02 == 2322                                          \* -1000 * log2(0.2)
IterOK(e) ==
    /\ e.ncv >= 1 /\ e.lenIn >= 1
    /\ (pv = None) => (e.lenIn = 1 /\ ~e.rej)
    /\ (pv # None) =>
          /\ e.ncv \in NcvLo(e.ncvmax, M(pv))..NcvHi(e.ncvmax, M(pv))                          \* line 170
          /\ (e.rej => (e.lenIn = pv.lenOut /\ e.same_t))                                        \* rejected: basis kept, time unchanged
          /\ (~e.rej => (e.lenIn = 1 /\ e.advanced))                                             \* accepted: basis reset, t_now += tau exactly
          /\ (pv.happy => ~e.rej)                                                                \* a breakdown step is exact, hence accepted
          /\ e.ltau <= pv.ltaue + 1000 + 2                                                       \* line 169: tau <= 2 tau_old
          /\ e.ltau >= Min(pv.ltaue - Log02, e.lrem) - 2                                         \*           tau >= 0.2 tau_old unless the end is nearer
          /\ (e.rej => (e.tcmp = -1 \/ LenAfter(e.lenIn, e.ncv) > e.lenIn))                      \* PROGRESS
          /\ ((e.rej /\ ForcedShrink("geq", M(pv), e.ncvmax)) => e.tcmp = -1)                    \* the space cannot grow: the step must shrink
    /\ e.ltau <= e.lrem + 2                                                                       \* never step beyond t_out
    /\ (~e.happy => e.lenOut = LenAfter(e.lenIn, e.ncv))
    /\ (e.happy => (e.lenOut >= e.lenIn /\ e.lenOut <= Max(e.lenIn, e.ncv)))
EndOK(e) ==
    /\ e.reached
    /\ e.steps = cnt.iters - cnt.rejs                                                             \* accepted iterations
    /\ e.ksteps = cnt.fcalls
    /\ (pv = None => (e.steps = 0 /\ e.ncv_info = Max(1, e.ncv0)))                                \* t = 0 or zero vector: no iteration
    /\ (pv # None => (~e.last_rejected /\ e.ncv_info \in NcvLo(e.ncvmax, M(pv))..NcvHi(e.ncvmax, M(pv))))
    /\ AllV(e.verdicts)
EigsOK(e) ==
    /\ e.returned = e.k /\ e.m <= e.ncv /\ e.m >= Min(e.ncv, e.reach)                             \* no premature breakdown: the space is only cut when invariant
    /\ (e.spans => e.exact)                                                                       \* Ritz pairs are eigenpairs once the space is invariant
    /\ ((e.hermitian /\ ~e.spans) => e.bounds)                                                    \* else variational bounds
    /\ AllV(e.verdicts)
LinOK(e) == /\ e.res_is_true_residual /\ e.res_le_initial           \* the reported number is ||f(x) - b||; the update over the Krylov space does not worsen the start
            /\ AllV(e.verdicts)
RaiseOK(e) == e.raised = e.expected
Ok(e) == CASE e.op = "begin" -> TRUE [] e.op = "iter" -> IterOK(e) [] e.op = "end" -> EndOK(e) [] e.op = "eigs" -> EigsOK(e)
           [] e.op = "lin" -> LinOK(e) [] e.op = "raise" -> RaiseOK(e) [] e.op = "stuck" -> FALSE
NextPv(e) == CASE e.op = "begin" -> None [] e.op = "iter" -> [lenOut |-> e.lenOut, happy |-> e.happy, ltaue |-> e.ltaue] [] OTHER -> pv
NextCnt(e) == CASE e.op = "begin" -> [iters |-> 0, rejs |-> 0, fcalls |-> 0]
                [] e.op = "iter" -> [iters |-> cnt.iters + 1, rejs |-> cnt.rejs + (IF e.rej THEN 1 ELSE 0), fcalls |-> cnt.fcalls + (e.lenOut - e.lenIn) + (IF e.happy THEN 1 ELSE 0)]
                [] OTHER -> cnt
Init == tid \in 1..Len(Traces) /\ l = 1 /\ pv = None /\ cnt = [iters |-> 0, rejs |-> 0, fcalls |-> 0]
Step == l \in 1..Len(Ev) /\ (Ok(Ev[l]) = TRUE) /\ l' = l + 1 /\ pv' = NextPv(Ev[l]) /\ cnt' = NextCnt(Ev[l]) /\ UNCHANGED tid
Fail == l \in 1..Len(Ev) /\ ~Ok(Ev[l]) /\ PrintT(<<"REJECT", tid, l, ToString(<<Ev[l].op, Ev[l].what, "previous iteration", pv, "counters", cnt, "event", Ev[l]>>)>>)
        /\ l' = l + 1 /\ pv' = NextPv(Ev[l]) /\ cnt' = NextCnt(Ev[l]) /\ UNCHANGED tid
Done == l = Len(Ev) + 1 /\ PrintT(<<"ACCEPT", tid>>) /\ l' = -1 /\ UNCHANGED <<tid, pv, cnt>>
Next == Step \/ Fail \/ Done
=============================================================================
