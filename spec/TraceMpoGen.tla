----------------------------- MODULE TraceMpoGen -----------------------------
(***************************************************************************)
(* I->S binding for C07.  The reference is the Fock model (Fock.tla): an   *)
(* operator term  amp * o_1(p_1) o_2(p_2) ... o_k(p_k)  is the word of     *)
(* elementary operators in the GIVEN order (the last acts first), with     *)
(* all Jordan-Wigner signs produced by ApplyWord, never by swap-gate       *)
(* bookkeeping.  A custom fermionic order f_map puts the modes of site i   *)
(* at Jordan-Wigner position fmap[i].  States are Fock vectors (sets of    *)
(* <<occupied modes, amplitude>>), amplitudes are Gaussian integers.       *)
(***************************************************************************)
EXTENDS Fock, FiniteSetsExt, Json, IOUtils
Traces == ndJsonDeserialize(IOEnv.TRACE_FILE)
VARIABLES tid, l
Ev == Traces[tid].ev
RangeOf(q) == {q[k] : k \in 1..Len(q)}
Z(v) == <<v[1], v[2]>>
CMul(x, y) == <<x[1] * y[1] - x[2] * y[2], x[1] * y[2] + x[2] * y[1]>>
CConj(x) == <<x[1], -x[2]>>
CSum(S, f(_)) == <<MapThenSumSet(LAMBDA e : f(e)[1], S), MapThenSumSet(LAMBDA e : f(e)[2], S)>>
(* position of site i in the fermionic order (0-based) *)
FPos(e, i) == IF e.fmap = <<>> THEN i ELSE e.fmap[i + 1]
(* JW mode of local mode a (1..nm) at site i; observed site-based mode numbers are translated the same way *)
ModeOf(e, i, a) == FPos(e, i) * e.nm + a
Tr(e, m) == ModeOf(e, (m - 1) \div e.nm, ((m - 1) % e.nm) + 1)
TrSet(e, q) == {Tr(e, m) : m \in RangeOf(q)}
WordOf(e, ops, pos) == ConcatW([k \in 1..Len(ops) |-> LocalWord(ops[k], FPos(e, pos[k]), e.nm)])
NM(e) == e.nm * e.N
(* operator matrices as sets of <<out, in, sign>> *)
TermMatrix(e, tm) == Matrix(WordOf(e, tm.ops, tm.pos), NM(e), e.gr)
(* sum of terms: value of entry <<out, in>> *)
EntryKeys(e) == UNION {{<<x[1], x[2]>> : x \in TermMatrix(e, e.terms[k])} : k \in 1..Len(e.terms)}
EntryVal(e, key) == CSum({k \in 1..Len(e.terms) : \E x \in TermMatrix(e, e.terms[k]) : x[1] = key[1] /\ x[2] = key[2]},
                         LAMBDA k : LET x == CHOOSE x \in TermMatrix(e, e.terms[k]) : x[1] = key[1] /\ x[2] = key[2]
                                    IN <<x[3] * e.terms[k].amp[1], x[3] * e.terms[k].amp[2]>>)
ExpectedOp(e) == {y \in {<<key[1], key[2], EntryVal(e, key)>> : key \in EntryKeys(e)} : y[3] # <<0, 0>>}
ObservedOp(e) == {<<TrSet(e, x[1]), TrSet(e, x[2]), Z(x[3])>> : x \in RangeOf(e.ent)}
(* expectation values  <bra| word |ket>  on Fock vectors *)
Vec(e, v) == {<<TrSet(e, x[1]), Z(x[2])>> : x \in RangeOf(v)}
AmpOf(V, S) == IF \E x \in V : x[1] = S THEN (CHOOSE x \in V : x[1] = S)[2] ELSE <<0, 0>>
Expect(e, w) == LET B == Vec(e, e.bra)  K == Vec(e, e.ket) IN
                CSum({x \in K : ApplyWord(w, <<1, x[1]>>, e.gr)[1] # 0},
                     LAMBDA x : LET r == ApplyWord(w, <<1, x[1]>>, e.gr)  a == CMul(CConj(AmpOf(B, r[2])), x[2]) IN <<r[1] * a[1], r[1] * a[2]>>)
(* sampling: a drawn configuration names, per site, one local vector u = <<u_empty, u_occupied>> (Gaussian integers, norm^2 = e.m per site: 1 for the occupation basis,   *)
(* 2 for the x / y bases); the returned probability p is logged as the integer nearest to  p * <psi|psi> * m^N.  Born rule:  | sum_S conj(u(S)) psi(S) |^2             *)
RECURSIVE ProdOver(_, _, _)
ProdOver(e, S, i) == IF i > e.N THEN <<1, 0>> ELSE CMul(CConj(Z(e.u[i][IF (i - 1) * e.nm + 1 \in S THEN 2 ELSE 1])), ProdOver(e, S, i + 1))
Overlap(e) == CSum(Vec(e, e.ket), LAMBDA x : CMul(ProdOver(e, x[1], 1), x[2]))
Norm2(e) == MapThenSumSet(LAMBDA x : x[2][1] * x[2][1] + x[2][2] * x[2][2], Vec(e, e.ket))
Born(e) == Overlap(e)[1] * Overlap(e)[1] + Overlap(e)[2] * Overlap(e)[2]
Ok(e) == CASE e.op = "sample" -> e.out = "ok" /\ e.near /\ e.den = Norm2(e) /\ e.pnum = Born(e)
           [] e.op = "generate" -> e.out = "ok" /\ ObservedOp(e) = ExpectedOp(e)
           [] e.op = "measure"  -> e.out = "ok" /\ Z(e.val) = Expect(e, WordOf(e, e.ops, e.pos))       \* <bra| o_1(p_1) ... o_k(p_k) |ket>, any order, repeated sites
Why(e) == IF e.out # "ok" THEN <<e.op, "failed", e.out>>
          ELSE IF e.op = "sample" THEN <<"sample: returned probability times <psi|psi> m^N", e.pnum, "near", e.near, "Born rule", Born(e), "norm", e.den, Norm2(e), "local vectors", e.u>>
          ELSE IF e.op = "generate" THEN <<"MPO differs from the sum of Jordan-Wigner operator products", "terms", e.terms, "fmap", e.fmap,
                                            "only in MPO", ObservedOp(e) \ ExpectedOp(e), "only in reference", ExpectedOp(e) \ ObservedOp(e)>>
          ELSE <<e.fn, e.ops, e.pos, "value", Z(e.val), "reference", Expect(e, WordOf(e, e.ops, e.pos))>>
Init == tid \in 1..Len(Traces) /\ l = 1
Step == l \in 1..Len(Ev) /\ (Ok(Ev[l]) = TRUE) /\ l' = l + 1 /\ UNCHANGED tid
Fail == l \in 1..Len(Ev) /\ ~Ok(Ev[l]) /\ PrintT(<<"REJECT", tid, l, ToString(Why(Ev[l]))>>) /\ l' = l + 1 /\ UNCHANGED tid
Done == l = Len(Ev) + 1 /\ PrintT(<<"ACCEPT", tid>>) /\ l' = -1 /\ UNCHANGED tid
Next == Step \/ Fail \/ Done
=============================================================================
