INIT Init
NEXT Next
