INIT Init
NEXT Next
CONSTANTS
  SYMS = {"dense", "Z2", "Z3", "U1", "Z2xU1", "U1xU1", "U1xU1xZ2"}
  MaxSec = 3
  MaxLen = 4
INVARIANT Emit
INVARIANT ConjInvolution
INVARIANT SortedUnique
