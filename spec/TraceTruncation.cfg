INIT TInit
NEXT TNext
