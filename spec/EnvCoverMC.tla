----------------------------- MODULE EnvCoverMC -----------------------------
(* TLC: the coverage state machine of EnvCover on every open lattice up to MaxN x MaxN and K expansions *)
EXTENDS EnvCover
CONSTANTS MaxN, K
VARIABLES d, k, cov
vars == <<d, k, cov>>
Init == d \in (1..MaxN) \X (1..MaxN) /\ k = 0 /\ cov = CtmEye(d)
Expand == k < K /\ cov' = CtmExpand(d, cov) /\ k' = k + 1 /\ d' = d
Next == Expand
Spec == Init /\ [][Next]_vars
S == SitesOf(d)
(* no tensor ever contains a site outside its own region, nor a site twice: regions of the eight tensors of a site are disjoint by construction *)
I_Inside == \A s \in S : \A dn \in Dirs : Support(cov[s][dn]) \subseteq Full(d, s, dn) /\ IsSet(cov[s][dn])
I_Closed == cov = CtmAfter(d, k)
(* exactness arrives exactly at max(Nx, Ny) - 1 expansions, site by site at its distance from the farthest lattice edge *)
Radius(s) == MaxI(MaxI(s[1], d[1] - 1 - s[1]), MaxI(s[2], d[2] - 1 - s[2]))
I_Needed == (k >= CtmNeeded(d)) <=> CtmExact(d, cov)
I_Local == \A s \in S : (k >= Radius(s)) <=> CtmExactAt(d, cov, s)
(* every measurement formula counts every site exactly once iff the tensors it uses are exact *)
I_M1 == \A s \in S : CtmExactAt(d, cov, s) => Once(d, M1(d, cov, s))
I_M1only == \A s \in S : Once(d, M1(d, cov, s)) => CtmExactAt(d, cov, s)
I_Mnn == CtmExact(d, cov) => /\ \A s \in S : Sh(s, "r") \in S => Once(d, MnnH(d, cov, s, Sh(s, "r")))
                              /\ \A u \in S : Sh(u, "b") \in S => Once(d, MnnV(d, cov, u, Sh(u, "b")))
I_M2x2 == CtmExact(d, cov) => \A s \in S : Sh(s, "br") \in S => Once(d, M2x2(d, cov, s))
I_MWin == CtmExact(d, cov) => \A x0 \in 0..(d[1] - 1) : \A x1 \in x0..(d[1] - 1) : \A y0 \in 0..(d[2] - 1) : \A y1 \in y0..(d[2] - 1) : Once(d, MWin(d, cov, <<x0, x1>>, <<y0, y1>>))
I_NeverTwice == \A s \in S : IsSet(M1(d, cov, s)) /\ (Sh(s, "br") \in S => IsSet(M2x2(d, cov, s)))      \* also before exactness: an approximation, never a double count
(* boundary MPS: what each set-up string provides, and that every formula it enables is exact *)
Setups == {<<"l">>, <<"r">>, <<"t">>, <<"b">>, <<"l", "r">>, <<"t", "b">>, <<"l", "r", "t", "b">>}
I_Bm == \A su \in Setups :
          /\ \A key \in BmKeys(d, su) : Support(BmCov(d, key)) = (CASE key[2] = "l" -> {q \in S : q[2] < key[1]} [] key[2] = "r" -> {q \in S : q[2] > key[1]}
                                                                    [] key[2] = "t" -> {q \in S : q[1] < key[1]} [] key[2] = "b" -> {q \in S : q[1] > key[1]})
          /\ \A s \in S : BmCan1site(d, su, s) => Once(d, BmColumn(d, s[2]))
          /\ \A u \in S : BmCanNnH(d, su, u) => Once(d, BmRow(d, u[1]))
          /\ \A y0 \in 0..(d[2] - 1) : \A y1 \in y0..(d[2] - 1) : BmCanColumns(d, su, y0, y1) => Once(d, BmColumns(d, y0, y1))
          /\ \A z0 \in 0..(d[1] - 1) : \A z1 \in z0..(d[1] - 1) : ({<<z1, "b">>, <<z0, "t">>} \subseteq BmKeys(d, su)) => Once(d, BmRows(d, z0, z1))
I_BmSetups == /\ \A s \in S : BmCan1site(d, <<"l", "r">>, s) /\ BmCanNnH(d, <<"t", "b">>, s) /\ BmCan1site(d, <<"l", "r", "t", "b">>, s) /\ BmCanNnH(d, <<"l", "r", "t", "b">>, s)
              /\ \A u \in S : BmCan1site(d, <<"l">>, u) <=> (u[2] = d[2] - 1)          \* a one-sided set-up serves only the last line
              /\ \A v \in S : BmCan1site(d, <<"r">>, v) <=> (v[2] = 0)
(* NTU clusters: symmetric under the reflections of the bond, nested, and contain the bond's neighbours *)
Refl(o) == <<-o[1], o[2]>>
Flip(o) == <<o[1], 1 - o[2]>>
ASSUME I_Clusters == /\ \A w \in WhichAll : \A o \in ClusterH(w) : Refl(o) \in ClusterH(w) /\ Flip(o) \in ClusterH(w)
              /\ ClusterH("NN") \subseteq ClusterH("NN+") /\ ClusterH("NN+") \subseteq ClusterH("NN++") /\ ClusterH("NN") \subseteq ClusterH("NNN")
              /\ ClusterH("NNN") \subseteq ClusterH("NNN+") /\ ClusterH("NNN+") \subseteq ClusterH("NNN++") /\ ClusterH("NN+") \subseteq ClusterH("NNN+") /\ ClusterH("NN++") \subseteq ClusterH("NNN++")
              /\ Cardinality(ClusterH("NN")) = 6 /\ Cardinality(ClusterH("NN+")) = 16 /\ Cardinality(ClusterH("NN++")) = 30
              /\ Cardinality(ClusterH("NNN")) = 10 /\ Cardinality(ClusterH("NNN+")) = 24 /\ Cardinality(ClusterH("NNN++")) = 50
Monotone == [][\A s \in S : \A dn \in Dirs : \A q \in S : cov[s][dn][q] <= cov'[s][dn][q]]_vars
=============================================================================
