------------------------------ MODULE MpsCanon ------------------------------
(***************************************************************************)
(* Gauge state machine of MpsMpoOBC (C08): what each method GUARANTEES.    *)
(* A state st is a record                                                  *)
(*   pC    : -9 = no central block, otherwise n1 of the bond (n1, n1+1),   *)
(*           n1 in -1..N-1 (sites are 0..N-1)                              *)
(*   iso   : [0..N-1 -> SUBSET {"L","R"}] site n is known to be a left     *)
(*           (A+A = 1 over (left, phys)) / right isometry                  *)
(*   exact : the represented state (factor included) is EXACTLY the initial*)
(*           one; FALSE = only the ray is guaranteed (positive multiple)   *)
(*   unit  : the represented state is known to have norm 1                 *)
(*   ray   : the state is a positive multiple of the initial one           *)
(* Methods are pure functions on st mirroring the code one-to-one; the     *)
(* composite methods canonize_ / truncate_ are the compositions the code   *)
(* performs.  "binding" says whether a truncation really discards weight.  *)
(***************************************************************************)
EXTENDS Integers, Sequences, FiniteSets, TLC
CONSTANT N
NoC == -9
Sites == 0..(N - 1)
Dir(to) == IF to = "last" THEN "L" ELSE "R"
Sweep(to) == IF to = "last" THEN [k \in 1..N |-> k - 1] ELSE [k \in 1..N |-> N - k]
(* all sites left of the centre are left isometries and all sites right of it right isometries: the central block carries the norm *)
CentredAt(st, n1) == /\ \A m \in Sites : m <= n1 => "L" \in st.iso[m]
                     /\ \A m \in Sites : m > n1 => "R" \in st.iso[m]
CanOrth(st) == st.pC = NoC
Orth(st, n, to, nz) ==
    LET c == IF to = "last" THEN n ELSE n - 1
        iso2 == [st.iso EXCEPT ![n] = {Dir(to)}]
        st2 == [st EXCEPT !.pC = c, !.iso = iso2] IN
    [st2 EXCEPT !.exact = st.exact /\ ~nz,                                  \* normalize=True resets the factor: only the ray survives
                !.unit = IF nz THEN CentredAt(st2, c) ELSE st.unit]           \* the (normalised) central block carries the whole norm iff the rest is canonical
Absorb(st, to) ==
    IF st.pC = NoC THEN st
    ELSE LET n1 == st.pC  n2 == st.pC + 1
             outside == n1 < 0 \/ n2 > N - 1
             tgt == IF (to = "first" /\ n1 >= 0) \/ n2 > N - 1 THEN n1 ELSE n2 IN
         [st EXCEPT !.pC = NoC,
                    !.iso = IF outside THEN st.iso                         \* a block outside the chain is 1 x 1 and normalised (a phase): flags survive
                            ELSE [st.iso EXCEPT ![tgt] = {}]]
(* SVD of the central block; U goes to the left site, V to the right one; S (normalised) stays central *)
(* shrinks: the bond dimension decreases (always when binding; also when exactly-zero Schmidt values of a rank-deficient block are dropped *)
(* without any weight being discarded): U / V are then non-square isometries and the OPPOSITE flag of the neighbouring site is lost          *)
Diag(st, nz, binding, shrinks) ==
    IF st.pC = NoC THEN st
    ELSE LET n1 == st.pC  n2 == st.pC + 1
             keepL(m) == IF binding \/ shrinks THEN st.iso[m] \cap {"L"} ELSE st.iso[m]      \* A U with U an isometry stays a left isometry; square U keeps both
             keepR(m) == IF binding \/ shrinks THEN st.iso[m] \cap {"R"} ELSE st.iso[m]
             iso2 == [m \in Sites |-> IF m = n1 THEN keepL(m) ELSE IF m = n2 THEN keepR(m) ELSE st.iso[m]]
             st2 == [st EXCEPT !.iso = iso2] IN
         [st2 EXCEPT !.exact = st.exact /\ ~nz /\ ~binding,
                     !.ray = st.ray /\ ~binding,                                  \* discarding weight leaves the ray
                     !.unit = IF nz THEN CentredAt(st2, n1) ELSE (st.unit /\ ~binding)]
RECURSIVE CanonFrom(_, _, _, _)
CanonFrom(st, to, nz, k) == IF k > N THEN st ELSE CanonFrom(Absorb(Orth(st, Sweep(to)[k], to, nz), to), to, nz, k + 1)
Canonize(st, to, nz) == CanonFrom(Absorb(st, to), to, nz, 1)
RECURSIVE TruncFrom(_, _, _, _, _)
TruncFrom(st, to, nz, binding, k) == IF k > N THEN st
                                     ELSE TruncFrom(Absorb(Diag(Orth(st, Sweep(to)[k], to, nz), nz, binding, binding), to), to, nz, binding, k + 1)
CanTruncate(st) == st.pC = NoC
Truncate(st, to, nz, binding) == TruncFrom(st, to, nz, binding, 1)
SetSite(st, n) == [st EXCEPT !.iso = [st.iso EXCEPT ![n] = {}], !.exact = FALSE, !.unit = FALSE, !.ray = FALSE]
Init0 == [pC |-> NoC, iso |-> [m \in Sites |-> {}], exact |-> TRUE, unit |-> FALSE, ray |-> TRUE]
IsCanonical(st, to) == st.pC = NoC /\ \A m \in Sites : Dir(to) \in st.iso[m]
=============================================================================
