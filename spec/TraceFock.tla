------------------------------ MODULE TraceFock ------------------------------
(* I->S binding for fkron (C05c): the dense matrix of every real fkron(...) call, with local basis states translated to occupations, *)
(* must be exactly the matrix of the ordered operator product on the Fock space.                                                        *)
EXTENDS Fock, Json, IOUtils
Traces == ndJsonDeserialize(IOEnv.TRACE_FILE)
VARIABLES tid, l
Ev == Traces[tid].ev
RangeOf(q) == {q[k] : k \in 1..Len(q)}
SetOf(q) == RangeOf(q)
Applied(e) == IF e.app = <<>> THEN Rev([k \in 1..Len(e.ops) |-> k - 1]) ELSE e.app       \* default: the last operator is applied first
Expected(e) == Matrix(ProductWord(e.ops, e.sites, Applied(e), e.nm), e.nm * Len(e.ops), e.ferm)
Observed(e) == {<<SetOf(x[1]), SetOf(x[2]), x[3]>> : x \in RangeOf(e.ent)}
Ok(e) == e.out = "ok" /\ Observed(e) = Expected(e)
Why(e) == IF e.out # "ok" THEN <<"fkron raised", e.out>>
          ELSE <<"fkron matrix differs from the ordered operator product", e.ops, "sites", e.sites, "app", e.app, "only observed", Observed(e) \ Expected(e), "only expected", Expected(e) \ Observed(e)>>
Init == tid \in 1..Len(Traces) /\ l = 1
Step == l \in 1..Len(Ev) /\ (Ok(Ev[l]) = TRUE) /\ l' = l + 1 /\ UNCHANGED tid
Fail == l \in 1..Len(Ev) /\ ~Ok(Ev[l]) /\ PrintT(<<"REJECT", tid, l, ToString(Why(Ev[l]))>>) /\ l' = l + 1 /\ UNCHANGED tid
Done == l = Len(Ev) + 1 /\ PrintT(<<"ACCEPT", tid>>) /\ l' = -1 /\ UNCHANGED tid
Next == Step \/ Fail \/ Done
=============================================================================
