INIT Init
NEXT Next
