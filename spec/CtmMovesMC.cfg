SPECIFICATION Spec
CONSTANTS MaxN = 4
INVARIANT I_Inside
INVARIANT I_ExactIsFixed
INVARIANT I_FixedIsExact
INVARIANT I_NeverTwice
INVARIANT I_M1
PROPERTY Monotone
