INIT Init
NEXT Next
CONSTANTS
  N = 3
  Depth = 5
CONSTRAINT Bound
INVARIANT P_Canonize
INVARIANT P_Truncate
INVARIANT I_Types
PROPERTY A_ExactOnlyLostByNormalizeOrBinding
