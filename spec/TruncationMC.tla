---------------------------- MODULE TruncationMC ----------------------------
(* Design check for C13: every (spectrum, options) in the bound; the two selection stages are separate, *)
(* nondeterministic steps (ties), and the property is a set of invariants on every reachable final mask. *)
EXTENDS Truncation
CONSTANTS MaxSec, MaxLen, MaxVal, Sorted   \* bound on spectra;  Sorted = TRUE: only non-increasing sectors (what svd delivers)
VARIABLES sp, o, stage, surv, fin
vars == <<sp, o, stage, surv, fin>>

SecVals == UNION {[1..n -> 0..MaxVal] : n \in 1..MaxLen}
SecOK(v) == Sorted => \A i \in 1..(Len(v) - 1) : v[i] >= v[i + 1]
Tols == {<<0, 1>>, <<1, 3>>, <<1, 2>>, <<1, 1>>}
DtotS == {0, 1, 2, 3, 5, Inf}
DblkS == {0, 1, 2, Inf}
(* scalar options are broadcast; dictionary options: sector 1 listed, the others possibly missing *)
OptsFor(n) == {[Dtot |-> dt, Dblk |-> db, tol |-> t, tolb |-> tb] :
                  dt \in DtotS, t \in Tols,
                  db \in {[c \in 1..n |-> d] : d \in DblkS} \cup {[c \in 1..n |-> IF c = 1 THEN d ELSE Missing] : d \in {1, 2}}
                                                             \cup {[c \in 1..n |-> IF c = n THEN d ELSE Missing] : d \in {1}},
                  tb \in {[c \in 1..n |-> x] : x \in Tols \ {<<1, 3>>}} \cup {[c \in 1..n |-> IF c = 1 THEN <<1, 2>> ELSE <<-1, 1>>]}}

Init == /\ stage = "nsec" /\ sp \in {<<v>> : v \in {w \in SecVals : SecOK(w)}} /\ o = <<>> /\ surv = <<>> /\ fin = {}
AddSector == /\ stage = "nsec" /\ Len(sp) < MaxSec /\ \E v \in SecVals : SecOK(v) /\ sp' = Append(sp, v)
             /\ UNCHANGED <<o, stage, surv, fin>>
ChooseOpts == /\ stage = "nsec" /\ stage' = "input" /\ o' \in OptsFor(Len(sp)) /\ UNCHANGED <<sp, surv, fin>>
BlockSelect == /\ stage = "input" /\ stage' = "block" /\ surv' \in Stage1(sp, o) /\ UNCHANGED <<sp, o, fin>>
GlobalSelect == /\ stage = "block" /\ stage' = "done" /\ fin' \in GlobalAdm(sp, o, surv) /\ UNCHANGED <<sp, o, surv>>
Next == AddSector \/ ChooseOpts \/ BlockSelect \/ GlobalSelect

Val(p) == sp[p[1]][p[2]]
InSec(K, c) == {p \in K : p[1] = c}
Done == stage = "done"
(* every requested limit is respected *)
I_Limits == Done => /\ \A c \in 1..Len(sp) : EffD(o, c) # Inf => Cardinality(InSec(fin, c)) <= EffD(o, c)
                    /\ (o.Dtot # Inf => Cardinality(fin) <= o.Dtot)
                    /\ \A p \in fin : /\ Above(Val(p), EffTolB(o, p[1]), MaxOf({sp[p[1]][i] : i \in 1..Len(sp[p[1]])}))
                                      /\ Above(Val(p), o.tol, MaxOf({Val(q) : q \in Positions(sp, surv)}))
(* no discarded value exceeds a kept value competing under the same limit *)
I_TopBlock  == Done => \A c \in 1..Len(sp) : \A i \in surv[c], j \in (1..Len(sp[c])) \ surv[c] : sp[c][i] >= sp[c][j]
I_TopGlobal == Done => \A p \in fin, q \in Positions(sp, surv) \ fin : Val(p) >= Val(q)
(* maximal: a value is discarded only because some limit is tight *)
I_Maximal == Done => /\ \A c \in 1..Len(sp) : \A j \in (1..Len(sp[c])) \ surv[c] :
                          \/ Cardinality(surv[c]) = EffD(o, c)
                          \/ ~Above(sp[c][j], EffTolB(o, c), MaxOf({sp[c][i] : i \in 1..Len(sp[c])}))
                     /\ \A q \in Positions(sp, surv) \ fin :
                          \/ Cardinality(fin) = o.Dtot
                          \/ ~Above(Val(q), o.tol, MaxOf({Val(r) : r \in Positions(sp, surv)}))
(* ties are the only freedom: the multiset of kept values is determined by the input *)
I_TiesOnly == stage = "input" => \A K1, K2 \in Admissible(sp, o) : KeptBag(sp, K1) = KeptBag(sp, K2)
(* limits that do not bind: exactly the values > 0 are kept (strict comparison at tol = 0) *)
NonBinding == o.Dtot = Inf /\ o.tol = <<0, 1>> /\ \A c \in 1..Len(sp) : EffD(o, c) = Inf /\ EffTolB(o, c) = <<0, 1>>
I_NonBinding == (Done /\ NonBinding) => fin = {p \in AllPos(sp) : Val(p) > 0}
I_Weight == Done => Discarded2(sp, fin) + Sq(sp, fin) = Sq(sp, AllPos(sp))
I_FinIsAdm == Done => fin \in Admissible(sp, o)
=============================================================================
