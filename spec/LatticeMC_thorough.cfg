INIT Init
NEXT Next
CONSTANTS
  MaxN = 5
  MaxTri = 3
  RectDims <- RectDimsThorough
  Labels = 4
INVARIANT ModelOK
INVARIANT Why
