------------------------------- MODULE Lattice -------------------------------
(***************************************************************************)
(* Lattice geometries of yastn.tn.fpeps (_geometry.py) as finite tables.   *)
(* A geometry is a record g = [kind, Nx, Ny, bc, pat]:                      *)
(*   kind in {"Square","Checkerboard","Rectangular","Tri3","TriFull"},      *)
(*   bc in {"infinite","obc","cylinder"}, pat = rows of labels (Rectangular)*)
(* A site is <<x, y>>;  NoSite == <<>>  stands for Python's None.           *)
(* A "table" T is what can be observed of a geometry on a finite window:   *)
(*   T.win   sites of the window (sequence)                                *)
(*   T.nn    [i -> [k -> site or NoSite]]  neighbour of win[i] by Shifts[k]*)
(*   T.idx   [i -> index]   (any value; only its kernel matters)           *)
(*   T.sites, T.bh, T.bv, T.bd   listed unique sites / bonds (<<s0,s1>>)   *)
(*   T.ford  [i -> [j -> BOOLEAN]] on the small window T.swin              *)
(* The same invariants are evaluated on the model's own tables (design     *)
(* check) and on tables observed from the implementation (trace check).    *)
(***************************************************************************)
EXTENDS Integers, Sequences, FiniteSets, SequencesExt, TLC

NoSite == <<>>
Shifts == [k \in 1..25 |-> <<((k - 1) \div 5) - 2, ((k - 1) % 5) - 2>>]       \* all (dx,dy) in (-2..2)^2
ShiftIx(d) == (d[1] + 2) * 5 + (d[2] + 2) + 1
Dir == [tl |-> <<-1, -1>>, t |-> <<-1, 0>>, tr |-> <<-1, 1>>, l |-> <<0, -1>>, r |-> <<0, 1>>, bl |-> <<1, -1>>, b |-> <<1, 0>>, br |-> <<1, 1>>]

Per(g) == CASE g.kind \in {"Checkerboard", "Rectangular", "Tri3"} -> <<"i", "i">>
            [] g.bc = "infinite" -> <<"i", "i">>
            [] g.bc = "obc"      -> <<"o", "o">>
            [] g.bc = "cylinder" -> <<"p", "o">>

(* sites that exist *)
Valid(g, s) == /\ (Per(g)[1] = "o" => s[1] \in 0..(g.Nx - 1))
               /\ (Per(g)[2] = "o" => s[2] \in 0..(g.Ny - 1))

NN(g, s, d) == LET x == s[1] + d[1]  y == s[2] + d[2] IN
               IF Per(g)[1] = "o" /\ x \notin 0..(g.Nx - 1) THEN NoSite
               ELSE IF Per(g)[2] = "o" /\ y \notin 0..(g.Ny - 1) THEN NoSite
               ELSE << IF Per(g)[1] = "p" THEN x % g.Nx ELSE x, y >>

Index(g, s) == CASE g.kind = "Checkerboard" -> <<(s[1] + s[2]) % 2>>
                 [] g.kind = "Rectangular"  -> <<g.pat[(s[1] % g.Nx) + 1][(s[2] % g.Ny) + 1]>>
                 [] g.kind = "Tri3"         -> <<(s[2] - s[1]) % 3>>
                 [] OTHER -> << IF Per(g)[1] \in {"i", "p"} THEN s[1] % g.Nx ELSE s[1],
                                IF Per(g)[2] = "i" THEN s[2] % g.Ny ELSE s[2] >>

(* a Rectangular pattern is valid iff every occurrence of a label sees the same four neighbour labels *)
Env4(g, s) == <<Index(g, <<s[1] - 1, s[2]>>), Index(g, <<s[1], s[2] - 1>>), Index(g, <<s[1] + 1, s[2]>>), Index(g, <<s[1], s[2] + 1>>)>>
Cell(g) == {<<x, y>> : x \in 0..(g.Nx - 1), y \in 0..(g.Ny - 1)}
ValidPattern(g) == \A s1, s2 \in Cell(g) : Index(g, s1) = Index(g, s2) => Env4(g, s1) = Env4(g, s2)

(* -------- the model's own listing of unique sites and bonds (one admissible choice) -------- *)
ColMajor(Nx, Ny) == [k \in 1..(Nx * Ny) |-> <<(k - 1) % Nx, (k - 1) \div Nx>>]
LexLessS(a, b) == a[1] < b[1] \/ (a[1] = b[1] /\ a[2] < b[2])
MinSite(S) == CHOOSE s \in S : \A u \in S : u = s \/ LexLessS(s, u)
RectSites(g) == LET labels == {Index(g, s) : s \in Cell(g)}
                    reps == {MinSite({s \in Cell(g) : Index(g, s) = lb}) : lb \in labels}
                IN SortSeq(SetToSeq(reps), LexLessS)
MSites(g) == CASE g.kind = "Checkerboard" -> << <<0, 0>>, <<0, 1>> >>
               [] g.kind = "Tri3"         -> << <<0, 0>>, <<0, 1>>, <<0, 2>> >>
               [] g.kind = "Rectangular"  -> RectSites(g)
               [] OTHER -> ColMajor(g.Nx, g.Ny)
BondsFrom(g, d0, d1) == LET ss == MSites(g)
                            all == [i \in 1..Len(ss) |-> <<NN(g, ss[i], d0), NN(g, ss[i], d1)>>]
                        IN SelectSeq(all, LAMBDA b : b[1] # NoSite /\ b[2] # NoSite)
MBh(g) == BondsFrom(g, <<0, 0>>, Dir.r)
MBv(g) == BondsFrom(g, <<0, 0>>, Dir.b)
MBd(g) == IF g.kind \in {"Tri3", "TriFull"} THEN BondsFrom(g, Dir.b, Dir.r) ELSE <<>>

Window(g, k) == LET xs == (-k * g.Nx)..((k + 1) * g.Nx - 1)  ys == (-k * g.Ny)..((k + 1) * g.Ny - 1)
                    n == Cardinality(xs) * Cardinality(ys)  h == Cardinality(ys)
                IN [i \in 1..n |-> <<(-k * g.Nx) + ((i - 1) \div h), (-k * g.Ny) + ((i - 1) % h)>>]
SmallWindow(g) == LET h == g.Ny + 2 IN [i \in 1..((g.Nx + 2) * h) |-> <<((i - 1) \div h) - 1, ((i - 1) % h) - 1>>]
FOrd(a, b) == a[2] < b[2] \/ (a[2] = b[2] /\ a[1] <= b[1])                       \* column-major, reflexive

ModelTable(g) == LET w == Window(g, 1)  sw == SmallWindow(g) IN
   [win |-> w, swin |-> sw, Nx |-> g.Nx, Ny |-> g.Ny,
    nn   |-> [i \in 1..Len(w) |-> [k \in 1..25 |-> NN(g, w[i], Shifts[k])]],
    idx  |-> [i \in 1..Len(w) |-> Index(g, w[i])],
    sites |-> MSites(g), bh |-> MBh(g), bv |-> MBv(g), bd |-> MBd(g),
    ford |-> [i \in 1..Len(sw) |-> [j \in 1..Len(sw) |-> FOrd(sw[i], sw[j])]]]

(* --------------------------- lookups in a table --------------------------- *)
(* the window is the regular grid Window(G, 1) (checked by I_Shape), so positions are arithmetic *)
Pos(T, s) == (s[1] + T.Nx) * (3 * T.Ny) + (s[2] + T.Ny) + 1
InWin(T, s) == s[1] \in (-T.Nx)..(2 * T.Nx - 1) /\ s[2] \in (-T.Ny)..(2 * T.Ny - 1)
TNN(T, s, d) == T.nn[Pos(T, s)][ShiftIx(d)]
TIdx(T, s) == T.idx[Pos(T, s)]
I_Shape(T, g) == T.Nx = g.Nx /\ T.Ny = g.Ny /\ T.win = Window(g, 1) /\ T.swin = SmallWindow(g)
                 /\ Len(T.nn) = Len(T.win) /\ Len(T.idx) = Len(T.win) /\ Len(T.ford) = Len(T.swin)
SeqSet(q) == {q[i] : i \in 1..Len(q)}

(* ------------------------------- invariants ------------------------------- *)
(* neighbour lookup agrees with the square lattice with the declared boundary and is None exactly across an open boundary *)
I_NNModel(T, g) == \A i \in 1..Len(T.win) : Valid(g, T.win[i]) => \A k \in 1..25 : T.nn[i][k] = NN(g, T.win[i], Shifts[k])
(* mutually inverse wherever defined (and the result is inside the window) *)
I_Inverse(T, g) == \A i \in 1..Len(T.win) : Valid(g, T.win[i]) => \A k \in 1..25 :
                      LET r == T.nn[i][k] IN (r # NoSite /\ InWin(T, r)) =>
                          LET back == TNN(T, r, <<-Shifts[k][1], -Shifts[k][2]>>) IN
                          back # NoSite /\ (back = T.win[i] \/ (Per(g)[1] = "p" /\ back[2] = T.win[i][2] /\ (back[1] - T.win[i][1]) % g.Nx = 0))
(* the kernel of the indexing is the one of the model: same tensor iff same class *)
I_IndexKernel(T, g) == \A i, j \in 1..Len(T.win) : (Valid(g, T.win[i]) /\ Valid(g, T.win[j])) =>
                          ((T.idx[i] = T.idx[j]) <=> (Index(g, T.win[i]) = Index(g, T.win[j])))
(* every site of the window is equivalent to exactly one listed site; listed sites are valid *)
I_UniqueSites(T, g) == /\ \A a \in 1..Len(T.sites) : Valid(g, T.sites[a]) /\ InWin(T, T.sites[a])
                       /\ \A a, b \in 1..Len(T.sites) : a # b => TIdx(T, T.sites[a]) # TIdx(T, T.sites[b])
                       /\ \A i \in 1..Len(T.win) : Valid(g, T.win[i]) => \E a \in 1..Len(T.sites) : TIdx(T, T.sites[a]) = T.idx[i]
(* index is invariant under a shift p iff p is a period: checked for all shifts of the window's origin cell *)
IsPeriod(T, g, p) == \A i \in 1..Len(T.win) :
                        LET s == T.win[i]  u == <<s[1] + p[1], s[2] + p[2]>> IN
                        (Valid(g, s) /\ Valid(g, u) /\ InWin(T, u) /\ s[1] \in 0..(g.Nx - 1) /\ s[2] \in 0..(g.Ny - 1)) => TIdx(T, u) = T.idx[i]
ModelPeriod(g, p) == \A s \in Cell(g) : LET u == <<s[1] + p[1], s[2] + p[2]>> IN Valid(g, u) => Index(g, u) = Index(g, s)
I_Periodic(T, g) == \A px \in (-g.Nx)..g.Nx, py \in (-g.Ny)..g.Ny : IsPeriod(T, g, <<px, py>>) <=> ModelPeriod(g, <<px, py>>)
(* listed bonds: nearest neighbours in lattice order (lr / tb / bottom-left -> top-right), fermionically ordered, no missing endpoint *)
BondOK(T, b, d) == /\ Len(b) = 2 /\ b[1] # NoSite /\ b[2] # NoSite /\ InWin(T, b[1]) /\ InWin(T, b[2])
                   /\ TNN(T, b[1], d) = b[2] /\ TNN(T, b[2], <<-d[1], -d[2]>>) = b[1]
I_BondsNN(T, g) == /\ \A a \in 1..Len(T.bh) : BondOK(T, T.bh[a], Dir.r) /\ Valid(g, T.bh[a][1])
                   /\ \A a \in 1..Len(T.bv) : BondOK(T, T.bv[a], Dir.b) /\ Valid(g, T.bv[a][1])
                   /\ \A a \in 1..Len(T.bd) : BondOK(T, T.bd[a], Dir.tr) /\ Valid(g, T.bd[a][1])
SPos(T, s) == (s[1] + 1) * (T.Ny + 2) + (s[2] + 1) + 1
InSW(T, s) == s[1] \in -1..T.Nx /\ s[2] \in -1..T.Ny
TF(T, a, b) == T.ford[SPos(T, a)][SPos(T, b)]
(* deliberate reading (DESIGN.md, C20): a bond that wraps around the periodic direction of a cylinder cannot be ordered by ANY total *)
(* order compatible with top<bottom; it is exempt.  All other listed bonds must be fermionically ordered.                        *)
Wraps(g, b) == Per(g)[1] = "p" /\ b[2][1] < b[1][1]
I_BondsFOrd(T, g) == \A q \in {T.bh, T.bv, T.bd} : \A a \in 1..Len(q) :
                        (Len(q[a]) = 2 /\ q[a][1] # NoSite /\ q[a][2] # NoSite /\ InSW(T, q[a][1]) /\ InSW(T, q[a][2]) /\ ~Wraps(g, q[a]))
                           => TF(T, q[a][1], q[a][2])
(* each class of equivalent bonds is listed exactly once, and every nearest-neighbour pair of the lattice is equivalent to a listed bond *)
BClass(T, b) == <<TIdx(T, b[1]), TIdx(T, b[2])>>
BondsUnique(T, q, g, d) ==
    /\ \A a, b \in 1..Len(q) : a # b => BClass(T, q[a]) # BClass(T, q[b])
    /\ \A i \in 1..Len(T.win) : LET s == T.win[i] IN
          (Valid(g, s) /\ s[1] \in 0..(g.Nx - 1) /\ s[2] \in 0..(g.Ny - 1)) =>
             LET u == TNN(T, s, d[1])  v == TNN(T, s, d[2]) IN
             (u # NoSite /\ v # NoSite) => \E a \in 1..Len(q) : BClass(T, q[a]) = <<TIdx(T, u), TIdx(T, v)>>
I_UniqueBonds(T, g) == /\ BondsUnique(T, T.bh, g, <<<<0, 0>>, Dir.r>>) /\ BondsUnique(T, T.bv, g, <<<<0, 0>>, Dir.b>>)
                       /\ (g.kind \in {"Tri3", "TriFull"} => BondsUnique(T, T.bd, g, <<Dir.b, Dir.r>>))
                       /\ (g.kind \notin {"Tri3", "TriFull"} => T.bd = <<>>)
(* fermionic order: reflexive, antisymmetric, transitive, total; left before right, top before bottom *)
I_TotalOrder(T, g) == LET n == Len(T.swin) IN
    /\ \A i \in 1..n : T.ford[i][i]
    /\ \A i, j \in 1..n : (T.ford[i][j] \/ T.ford[j][i]) /\ ((T.ford[i][j] /\ T.ford[j][i]) => i = j)
    /\ \A i, j, k \in 1..n : (T.ford[i][j] /\ T.ford[j][k]) => T.ford[i][k]
    /\ \A i, j \in 1..n : ((T.swin[j] = <<T.swin[i][1], T.swin[i][2] + 1>>) \/ (T.swin[j] = <<T.swin[i][1] + 1, T.swin[i][2]>>)) => T.ford[i][j]

AllInv(T, g) == /\ I_Shape(T, g) /\ I_NNModel(T, g) /\ I_Inverse(T, g) /\ I_IndexKernel(T, g) /\ I_UniqueSites(T, g) /\ I_Periodic(T, g)
                /\ I_BondsNN(T, g) /\ I_BondsFOrd(T, g) /\ I_UniqueBonds(T, g) /\ I_TotalOrder(T, g)
FirstFailing(T, g) == CASE ~I_Shape(T, g) -> "I_Shape: malformed table (harness)"
                        [] ~I_NNModel(T, g) -> "I_NNModel: nn_site differs from the square lattice with this boundary"
                        [] ~I_Inverse(T, g) -> "I_Inverse: neighbour lookup not mutually inverse"
                        [] ~I_IndexKernel(T, g) -> "I_IndexKernel: site2index identifies/separates the wrong sites"
                        [] ~I_UniqueSites(T, g) -> "I_UniqueSites: sites() does not list each unique site exactly once"
                        [] ~I_Periodic(T, g) -> "I_Periodic: site2index not invariant under exactly the lattice periods"
                        [] ~I_BondsNN(T, g) -> "I_BondsNN: a listed bond does not join nearest neighbours in lattice order / has a missing endpoint"
                        [] ~I_BondsFOrd(T, g) -> "I_BondsFOrd: a listed bond is not fermionically ordered"
                        [] ~I_UniqueBonds(T, g) -> "I_UniqueBonds: bond classes not listed exactly once"
                        [] ~I_TotalOrder(T, g) -> "I_TotalOrder: f_ordered is not a total order with left<right, top<bottom"
                        [] OTHER -> "ok"
=============================================================================
