-------------------------------- MODULE Legs --------------------------------
(***************************************************************************)
(* yastn.Leg as a specification: which constructor arguments are accepted, *)
(* what the accepted leg stores, and conj().   (yastn/tensor/_legs.py)     *)
(* Arguments are modelled the way the constructor sees them after          *)
(* flattening: t is a flat sequence of integers, D a flat sequence.        *)
(***************************************************************************)
EXTENDS Charges, TLC

Chunk(t, n, i) == [c \in 1..n |-> t[(i - 1) * n + c]]           \* i-th charge of a flat list
ChargesOf(t, n, k) == [i \in 1..k |-> Chunk(t, n, i)]

LexLess(x, y) == \E c \in 1..Len(x) : x[c] < y[c] /\ \A d \in 1..(c - 1) : x[d] = y[d]

Accept(sym, s, t, D) ==
    LET n == NSym(sym)  k == Len(D)  IN
    /\ s \in {-1, 1}
    /\ \A i \in 1..k : D[i] > 0
    /\ k * n = Len(t) /\ (n = 0 => k <= 1)
    /\ \A i \in 1..k : IsCanon(Mod(sym), Chunk(t, n, i))
    /\ \A i, j \in 1..k : i # j => Chunk(t, n, i) # Chunk(t, n, j)

(* accepted leg: sectors sorted ascending (lexicographically), as a sequence of <<charge, dim>> *)
Stored(sym, s, t, D) ==
    LET n == NSym(sym)  k == Len(D)
        secs == [i \in 1..k |-> <<Chunk(t, n, i), D[i]>>]
    IN [s |-> s, tD |-> SortSeq(secs, LAMBDA x, y : LexLess(x[1], y[1]))]

Conj(leg) == [s |-> -leg.s, tD |-> leg.tD]
Outcome(sym, s, t, D) == IF Accept(sym, s, t, D) THEN Stored(sym, s, t, D) ELSE "YastnError"

(* ---------- argument space "in and just outside the valid domain" ---------- *)
CONSTANTS SYMS, MaxSec, MaxLen
VARIABLES sym, s, t, D, picked
vars == <<sym, s, t, D, picked>>
Outside(m) == IF m = 0 THEN -1..1 ELSE -1..m                   \* one step outside the canonical range
ArgT(sy, len) == {q \in [1..len -> -2..3] : \A i \in 1..len :
                     LET n == NSym(sy) IN IF n = 0 THEN q[i] \in 0..1 ELSE q[i] \in Outside(Mod(sy)[((i - 1) % n) + 1])}
Init == sym \in SYMS /\ s \in -2..2 /\ t = <<>> /\ D = <<>> /\ picked = FALSE
Pick == /\ ~picked /\ picked' = TRUE /\ UNCHANGED <<sym, s>>
        /\ \E k \in 0..MaxSec :
             /\ D' \in [1..k -> {-1, 0, 1, 2}]
             /\ \E len \in {k * NSym(sym), k * NSym(sym) + 1, k * NSym(sym) - 1} \cap 0..MaxLen : t' \in ArgT(sym, len)
Next == Pick
Emit == picked => PrintT(<<"CASE", sym, s, t, D, Outcome(sym, s, t, D)>>)

(* properties of the model itself *)
ConjInvolution == (picked /\ Accept(sym, s, t, D)) =>
                     LET l == Stored(sym, s, t, D) IN Conj(Conj(l)) = l /\ Conj(l).s = -l.s /\ Conj(l).tD = l.tD
SortedUnique   == (picked /\ Accept(sym, s, t, D)) =>
                     LET l == Stored(sym, s, t, D) IN
                       /\ \A i \in 1..(Len(l.tD) - 1) : LexLess(l.tD[i][1], l.tD[i + 1][1])
                       /\ \A i \in 1..Len(l.tD) : IsCanon(Mod(sym), l.tD[i][1]) /\ l.tD[i][2] > 0
                       /\ Len(l.tD) = Len(D)
=============================================================================
