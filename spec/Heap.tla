-------------------------------- MODULE Heap --------------------------------
(***************************************************************************)
(* Aliasing discipline of yastn objects (C15).  Objects have an observable *)
(* value val[o] (a digest of the full representation) and a symmetric      *)
(* may-share relation (storage possibly shared).                           *)
(*   Pure(args) -> new : new may share with its arguments; no value changes*)
(*   Fresh(src) -> new : copy()/clone(): new shares with NOTHING           *)
(*   InPlace(recv)     : documented in-place API: may change recv and      *)
(*                       whatever may share storage with it, nothing else  *)
(***************************************************************************)
EXTENDS Integers, FiniteSets, TLC
CONSTANTS MaxObj, Vals, Depth
VARIABLES obj, val, share, last, fresh
vars == <<obj, val, share, last, fresh>>
Sym(R) == R \cup {<<p[2], p[1]>> : p \in R}
Closure(o) == {p \in obj : p = o \/ <<o, p>> \in share}
Init == obj = {1} /\ val = [o \in {1} |-> 0] /\ share = {} /\ last = <<"init">> /\ fresh = {}
NewId == Cardinality(obj) + 1
Pure(A, shares) == /\ Cardinality(obj) < MaxObj /\ A \subseteq obj /\ A # {}
                   /\ LET n == NewId
                          S == IF shares THEN UNION {Closure(a) : a \in A} ELSE {} IN
                      /\ obj' = obj \cup {n}
                      /\ \E v \in Vals : val' = [o \in obj \cup {n} |-> IF o = n THEN v ELSE val[o]]
                      /\ share' = share \cup Sym({<<n, s>> : s \in S})
                      /\ last' = <<"pure", A, n>> /\ UNCHANGED fresh
Fresh(a) == /\ Cardinality(obj) < MaxObj /\ a \in obj
            /\ LET n == NewId IN
               /\ obj' = obj \cup {n} /\ val' = [o \in obj \cup {n} |-> IF o = n THEN val[a] ELSE val[o]]
               /\ share' = share /\ fresh' = fresh \cup {n} /\ last' = <<"fresh", a, n>>
InPlace(r) == /\ r \in obj
              /\ \E f \in [Closure(r) -> Vals] : val' = [o \in obj |-> IF o \in Closure(r) THEN f[o] ELSE val[o]]
              /\ last' = <<"inplace", r>> /\ UNCHANGED <<obj, share, fresh>>
Next == \/ \E A \in SUBSET obj, sh \in BOOLEAN : Pure(A, sh)
        \/ \E a \in obj : Fresh(a)
        \/ \E r \in obj : InPlace(r)
Bound == TLCGet("level") <= Depth
(* a pure operation never changes the value of an existing object *)
A_PureKeeps == [][last'[1] \in {"pure", "fresh"} => \A o \in obj : val'[o] = val[o]]_vars
(* an in-place operation changes only what may share storage with its receiver *)
A_InPlaceOnly == [][last'[1] = "inplace" => \A o \in obj : val'[o] # val[o] => o \in Closure(last'[2])]_vars
(* a copy/clone shares with nothing that existed when it was made, hence later in-place edits of the source (or of the copy) never reach the other *)
I_FreshIndep == \A n \in fresh : \A o \in obj : (o < n) => <<n, o>> \notin share
A_CopyIsolated == [][\A n \in fresh : (last'[1] = "inplace" /\ last'[2] < n /\ <<n, last'[2]>> \notin share) => val'[n] = val[n]]_vars
=============================================================================
