INIT Init
NEXT Next
