------------------------------ MODULE Serialize ------------------------------
(***************************************************************************)
(* Serialisation routes of yastn objects as a state machine (C17).         *)
(* An object travels obj -> (dict | legacy | hdf5) -> ... -> restored or   *)
(* rejected.  The abstract payload never changes along a route; what the   *)
(* spec tracks is the FORM, the serialisation level, and whether a pending *)
(* (lazy) leg permutation is still pending: to_dict keeps it pending,      *)
(* resolve_ops / save_to_dict / save_to_hdf5 materialise it.               *)
(* TLC explores ALL routes to a depth for every kind and emits one case    *)
(* per terminal state (S->I).                                              *)
(***************************************************************************)
EXTENDS SerializeRules
CONSTANTS Kinds, Depth
VARIABLES kind, form, level, lazy, steps, cfg, out, lazy0
vars == <<kind, form, level, lazy, steps, cfg, out, lazy0>>
Cfgs == {"none", "same", "othersym", "otherferm"}
HasHdf5(k) == k \in {"Tensor", "Mps", "Mpo"}
HasLegacy(k) == k \in {"Tensor", "Mps", "Mpo", "Peps", "EnvCTM", "EnvBP", "EnvBMPS"}       \* environments: EnvCTM / EnvBP / EnvBoundaryMPS (state + environment tensors)
Init == kind \in Kinds /\ form = "obj" /\ level = -1 /\ lazy \in BOOLEAN /\ lazy0 = lazy /\ steps = <<>> /\ cfg = "none" /\ out = "running"
Do(s) == steps' = Append(steps, s) /\ UNCHANGED lazy0
ToDict(lv, res) == /\ form = "obj" /\ form' = "dict" /\ level' = lv /\ lazy' = (lazy /\ ~res) /\ Do(<<"to_dict", lv, res>>) /\ UNCHANGED <<kind, cfg, out>>
V1Strip == /\ form = "dict" /\ ~lazy /\ kind = "Tensor" /\ Len(steps) = 1 /\ Do(<<"v1_strip">>) /\ UNCHANGED <<kind, form, level, lazy, cfg, out>>   \* older generation: no 'trans' field
Split == /\ form = "dict" /\ form' = "split" /\ Do(<<"split">>) /\ UNCHANGED <<kind, level, lazy, cfg, out>>
Combine == /\ form = "split" /\ form' = "dict" /\ Do(<<"combine">>) /\ UNCHANGED <<kind, level, lazy, cfg, out>>
NpSaveLoad == /\ form = "dict" /\ level >= 1 /\ Do(<<"npy">>) /\ UNCHANGED <<kind, form, level, lazy, cfg, out>>
Legacy == /\ form = "obj" /\ HasLegacy(kind) /\ form' = "legacy" /\ lazy' = FALSE /\ level' = 2 /\ Do(<<"save_to_dict">>) /\ UNCHANGED <<kind, cfg, out>>
Hdf5 == /\ form = "obj" /\ HasHdf5(kind) /\ form' = "hdf5" /\ lazy' = FALSE /\ level' = 2 /\ Do(<<"save_to_hdf5">>) /\ UNCHANGED <<kind, cfg, out>>
(* restoring: an incompatible config is rejected; the legacy format and hdf5 need a config *)
Restore(c) == /\ form \in {"dict", "legacy", "hdf5"} /\ cfg' = c /\ form' = "done" /\ Do(<<"from", c>>)
              /\ (form = "hdf5" => c = "same")
              /\ out' = IF c \in {"othersym", "otherferm"} THEN "rejected"
                        ELSE IF form = "legacy" /\ c = "none" THEN "rejected"
                        ELSE "restored"
              /\ UNCHANGED <<kind, level, lazy>>
Next == \/ \E lv \in 0..2, r \in BOOLEAN : ToDict(lv, r)
        \/ V1Strip \/ Split \/ Combine \/ NpSaveLoad \/ Legacy \/ Hdf5
        \/ \E c \in Cfgs : Restore(c)
Bound == TLCGet("level") <= Depth
(* the property of the design: every terminal state is either a rejection that had to happen or a faithful restoration; the pending
   permutation is pending afterwards iff no step materialised it *)
Materialised == MaterialisedBy(steps)
I_Outcome == form = "done" => /\ out \in {"restored", "rejected"}
                               /\ (out = "restored" => (lazy => ~Materialised))
                               /\ (out = "rejected" <=> (cfg \in {"othersym", "otherferm"} \/ (steps[1][1] = "save_to_dict" /\ cfg = "none")))
I_Functions == form = "done" => (out = OutcomeOf(steps) /\ (lazy <=> (lazy0 /\ ~MaterialisedBy(steps))))
Emit == form = "done" => PrintT(<<"CASE", kind, steps, out, lazy0, lazy>>)
=============================================================================
