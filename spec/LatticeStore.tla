---------------------------- MODULE LatticeStore ----------------------------
(***************************************************************************)
(* The Lattice / Peps container (_geometry.py class Lattice) as a state    *)
(* machine: site data keyed by the tensor index, plus a patch keyed by     *)
(* site.  Objects are tags; move_to_patch stores a (shallow) copy = same   *)
(* tag.  The geometry is a small explicit instance: sites of a window and  *)
(* their index classes (taken from Lattice.tla).                           *)
(***************************************************************************)
EXTENDS Lattice
CONSTANTS G,        \* geometry record
          Objs,     \* set of object tags
          Depth
VARIABLES data,     \* [index -> tag or "None"]
          patch,    \* set of <<site, tag>>  (a partial map site -> tag)
          last      \* last action label (for replay)
vars == <<data, patch, last>>
Win == {s \in SeqSet(Window(G, 1)) : Valid(G, s) /\ s[1] \in 0..G.Nx /\ s[2] \in 0..G.Ny}   \* sites used as arguments
Indices == {Index(G, s) : s \in SeqSet(MSites(G))}
Patched(s) == \E p \in patch : p[1] = s
PatchVal(s) == (CHOOSE p \in patch : p[1] = s)[2]
Get(s) == IF Patched(s) THEN PatchVal(s) ELSE data[Index(G, s)]

Init == data = [i \in Indices |-> "None"] /\ patch = {} /\ last = <<"init">>
Set(s, o) == /\ last' = <<"set", s, o>>
             /\ IF Patched(s) THEN patch' = {p \in patch : p[1] # s} \cup {<<s, o>>} /\ UNCHANGED data
                ELSE data' = [data EXCEPT ![Index(G, s)] = o] /\ UNCHANGED patch
MoveToPatch(S) == /\ \A s \in S : Get(s) # "None"
                  /\ last' = <<"move_to_patch", SetToSeq(S)>>
                  /\ patch' = {p \in patch : p[1] \notin S} \cup {<<s, Get(s)>> : s \in S} /\ UNCHANGED data
(* apply_patch commits in insertion order of the patch; when two patched sites share an index the later one wins. *)
(* The model keeps the patch as a set, so it commits any order: the result is a set of admissible data maps.      *)
ApplyPatch == /\ last' = <<"apply_patch">> /\ patch' = {}
              /\ \E f \in [Indices -> Objs \cup {"None"}] :
                   /\ data' = f
                   /\ \A i \in Indices : IF \E p \in patch : Index(G, p[1]) = i
                                         THEN \E p \in patch : Index(G, p[1]) = i /\ f[i] = p[2]
                                         ELSE f[i] = data[i]
Next == \/ \E s \in Win, o \in Objs : Set(s, o)
        \/ \E S \in (SUBSET Win) : Cardinality(S) \in 1..2 /\ MoveToPatch(S)
        \/ ApplyPatch
Bound == TLCGet("level") <= Depth
(* ---- properties ---- *)
(* reading any site returns the value of its class unless patched; equivalent sites read the same unless patched *)
I_Consistent == \A s, u \in Win : (Index(G, s) = Index(G, u) /\ ~Patched(s) /\ ~Patched(u)) => Get(s) = Get(u)
(* between move_to_patch and apply_patch the committed data are unchanged by writes to patched sites *)
A_PatchIsolated == [][\A s \in Win, o \in Objs : (last' = <<"set", s, o>> /\ Patched(s)) => data' = data]_vars
(* apply_patch empties the patch and every site equivalent to a patched one then reads a patched value *)
A_Commit == [][last' = <<"apply_patch">> => (patch' = {} /\ \A p \in patch : \E q \in patch : Index(G, q[1]) = Index(G, p[1]) /\ data'[Index(G, p[1])] = q[2])]_vars
(* S->I: every transition is printed once, keyed by representative sites (no sets / functions in the output) *)
DataSeq(d) == [k \in 1..Len(MSites(G)) |-> <<MSites(G)[k], d[Index(G, MSites(G)[k])]>>]
PatchSeq(p) == SetToSeq(p)
LogNext == Next /\ PrintT(<<"T", DataSeq(data), PatchSeq(patch), last', DataSeq(data'), PatchSeq(patch')>>)
SetSeq(S) == SetToSeq(S)
=============================================================================
