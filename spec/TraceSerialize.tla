---------------------------- MODULE TraceSerialize ----------------------------
(* I->S side of C17: what really happened along each route (observed outcome, whether the restored object is observationally identical,  *)
(* whether a pending permutation is still pending) must be what Serialize.tla says about that route; plus the vector map to_dict(meta=). *)
EXTENDS SerializeRules, Json, IOUtils
Traces == ndJsonDeserialize(IOEnv.TRACE_FILE)
VARIABLES tid, l
Ev == Traces[tid].ev
RECURSIVE SumSq(_)
SumSq(q) == IF q = <<>> THEN 0 ELSE Head(q) * Head(q) + SumSq(Tail(q))
Ok(e) == CASE e.op = "route" ->
                 /\ e.obs.out = OutcomeOf(e.steps)
                 /\ (e.obs.out = "restored" => /\ e.obs.payload = "same"                                     \* legs incl. fusion history, charge, dtype, values
                                               /\ e.obs.follow = "same"                                      \* same behaviour in a follow-up contraction
                                               /\ e.obs.pending = (e.lazy0 /\ ~MaterialisedBy(e.steps)))     \* pending permutation semantics
           [] e.op = "vector" ->                                                                             \* V = split(to_dict(level=0, meta=m)).data
                 /\ Len(e.vx) = Len(e.vy) /\ Len(e.vxy) = Len(e.vx) /\ Len(e.vcx) = Len(e.vx)
                 /\ \A i \in 1..Len(e.vx) : e.vxy[i] = e.vx[i] + e.vy[i] /\ e.vcx[i] = e.c * e.vx[i]         \* linear
                 /\ SumSq(e.vx) = e.n2x /\ SumSq(e.vy) = e.n2y                                               \* norm preserving
                 /\ e.back = "same"                                                                          \* from_dict(combine(V(x), m)) is x
                 /\ e.incompatible = "YastnError"                                                            \* a tensor with blocks outside m is rejected
Why(e) == IF e.op = "route" THEN <<"route", e.kind, e.variant, e.steps, "spec outcome", OutcomeOf(e.steps), "pending expected", (e.lazy0 /\ ~MaterialisedBy(e.steps)), "observed", e.obs>>
          ELSE <<"vector map not linear / norm preserving / invertible / rejecting", e.variant, e.back, e.incompatible>>
TInit == tid \in 1..Len(Traces) /\ l = 1
Step == l \in 1..Len(Ev) /\ (Ok(Ev[l]) = TRUE) /\ l' = l + 1 /\ UNCHANGED tid
Fail == l \in 1..Len(Ev) /\ ~Ok(Ev[l]) /\ PrintT(<<"REJECT", tid, l, ToString(Why(Ev[l]))>>) /\ l' = l + 1 /\ UNCHANGED tid
Fin == l = Len(Ev) + 1 /\ PrintT(<<"ACCEPT", tid>>) /\ l' = -1 /\ UNCHANGED tid
TNext == Step \/ Fail \/ Fin
=============================================================================
