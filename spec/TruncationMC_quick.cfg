INIT Init
NEXT Next
CONSTANTS
  MaxSec = 2
  MaxLen = 3
  MaxVal = 2
  Sorted = TRUE
INVARIANT I_Limits
INVARIANT I_TopBlock
INVARIANT I_TopGlobal
INVARIANT I_Maximal
INVARIANT I_TiesOnly
INVARIANT I_NonBinding
INVARIANT I_Weight
INVARIANT I_FinIsAdm
