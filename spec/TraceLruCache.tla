--------------------------- MODULE TraceLruCache ---------------------------
(* I->S binding for C16: the recorded sequence of REAL cache calls (every functools.lru_cache binding found in yastn.tensor.*,       *)
(* proxied from outside) must be a behaviour of LruCache: hit/miss as the LRU discipline predicts, a hit returns exactly what was    *)
(* stored at insertion (entries never altered), and EVERY call returns what an uncached recomputation on the same arguments returns *)
(* (transparency).  "same" events carry digests of whole results obtained with caches warm / cold / size one / cleared at arbitrary  *)
(* moments: they must be bit-identical.                                                                                              *)
EXTENDS Integers, Sequences, FiniteSets, TLC, Json, IOUtils
Traces == ndJsonDeserialize(IOEnv.TRACE_FILE)
VARIABLES tid, l, C
Ev == Traces[tid].ev
RangeOf(q) == {q[i] : i \in 1..Len(q)}
Fresh(m) == [max |-> m, order |-> <<>>, val |-> [k \in {} |-> ""]]
Without(q, k) == SelectSeq(q, LAMBDA x : x # k)
Touch(c, k) == [c EXCEPT !.order = Append(Without(c.order, k), k)]
Insert(c, k, v) == IF c.max = 0 THEN c
                   ELSE LET o == IF Len(c.order) >= c.max THEN Tail(c.order) ELSE c.order
                        IN [c EXCEPT !.order = Append(o, k), !.val = [x \in RangeOf(o) \cup {k} |-> IF x = k THEN v ELSE c.val[x]]]
Get(e) == IF e.inst \in DOMAIN C THEN C[e.inst] ELSE Fresh(e.max)
Put(e, c) == [i \in DOMAIN C \cup {e.inst} |-> IF i = e.inst THEN c ELSE C[i]]
Known(e) == e.key \in RangeOf(Get(e).order)
CallOK(e) == /\ e.ret = e.rec                                   \* transparency: result = uncached recomputation
             /\ e.hit = Known(e)                                \* LRU discipline (keys digested up to Python equality)
             /\ (Known(e) => Get(e).val[e.key] = e.ret)         \* a cached entry is never altered after insertion
AllSame(q) == \A i \in 1..Len(q) : q[i] = q[1]
Ok(e) == CASE e.ev = "call" -> CallOK(e)
           [] e.ev = "clear" -> TRUE
           [] e.ev = "same" -> AllSame(e.dig)
Why(e) == CASE e.ev = "call" -> IF e.ret # e.rec THEN <<"not transparent: cached call differs from uncached recomputation", e.fn, "hit", e.hit>>
                                ELSE IF e.hit # Known(e) THEN <<"hit/miss differs from the LRU model", e.fn, "observed hit", e.hit, "model", Known(e)>>
                                ELSE <<"cached entry altered after insertion", e.fn>>
           [] e.ev = "same" -> <<"results differ between cache states", e.what, e.modes>>
           [] OTHER -> <<"?">>
NextC(e) == CASE e.ev = "call" -> Put(e, IF Known(e) THEN Touch(Get(e), e.key) ELSE Insert(Get(e), e.key, e.ret))
              [] e.ev = "clear" -> Put(e, Fresh(Get(e).max))
              [] OTHER -> C
Init == tid \in 1..Len(Traces) /\ l = 1 /\ C = [i \in {} |-> Fresh(0)]
Step == l \in 1..Len(Ev) /\ (Ok(Ev[l]) = TRUE) /\ l' = l + 1 /\ C' = NextC(Ev[l]) /\ UNCHANGED tid
(* a violation is reported and the model is re-synchronised with what was observed, so the rest of the trace is still checked *)
Fail == l \in 1..Len(Ev) /\ ~Ok(Ev[l]) /\ PrintT(<<"REJECT", tid, l, ToString(Why(Ev[l]))>>) /\ l' = l + 1 /\ UNCHANGED tid
        /\ C' = IF Ev[l].ev = "call" THEN Put(Ev[l], Insert([Get(Ev[l]) EXCEPT !.order = Without(Get(Ev[l]).order, Ev[l].key)], Ev[l].key, Ev[l].ret)) ELSE C
Done == l = Len(Ev) + 1 /\ PrintT(<<"ACCEPT", tid>>) /\ l' = -1 /\ UNCHANGED <<tid, C>>
Next == Step \/ Fail \/ Done
=============================================================================
