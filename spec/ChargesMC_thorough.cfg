INIT Init
NEXT Next
CONSTANTS
  SYMS = {"dense", "Z2", "Z3", "U1", "Z2xU1", "U1xU1", "U1xU1xZ2"}
  B1 = 3
  B2 = 2
  B3 = 2
INVARIANT Closure
INVARIANT Assoc
INVARIANT Commut
INVARIANT Identity
INVARIANT Inverse
INVARIANT Grouping
INVARIANT SelfFuse
