INIT Init
NEXT Next
CONSTANTS
  Kinds = {"Tensor", "Mps", "Mpo", "Peps"}
  Depth = 6
CONSTRAINT Bound
INVARIANT I_Outcome
INVARIANT I_Functions
INVARIANT Emit
