INIT Init
NEXT Next
CONSTANTS
  Kinds = {"Tensor", "Mps", "Mpo", "Peps", "EnvCTM", "EnvBP", "EnvBMPS", "MpoPBC"}
  Depth = 6
CONSTRAINT Bound
INVARIANT I_Outcome
INVARIANT I_Functions
INVARIANT Emit
