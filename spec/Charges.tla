------------------------------- MODULE Charges -------------------------------
(***************************************************************************)
(* Abelian symmetry rules of yastn (yastn/sym/sym_*.py) as ONE parametric  *)
(* definition.  A symmetry is a sequence of moduli, one per charge         *)
(* component; modulus 0 means "no modulus" (a U(1) factor).                *)
(*   dense = <<>>, Z2 = <<2>>, Z3 = <<3>>, U1 = <<0>>, Z2xU1 = <<2,0>>,     *)
(*   U1xU1 = <<0,0>>, U1xU1xZ2 = <<0,0,2>>                                  *)
(* A charge is a sequence of integers of the same length.                  *)
(***************************************************************************)
EXTENDS Integers, Sequences, FiniteSets

SymNames == {"dense", "Z2", "Z3", "U1", "Z2xU1", "U1xU1", "U1xU1xZ2"}
Mod(sym) == CASE sym = "dense"    -> <<>>
              [] sym = "Z2"       -> <<2>>
              [] sym = "Z3"       -> <<3>>
              [] sym = "U1"       -> <<0>>
              [] sym = "Z2xU1"    -> <<2, 0>>
              [] sym = "U1xU1"    -> <<0, 0>>
              [] sym = "U1xU1xZ2" -> <<0, 0, 2>>
NSym(sym) == Len(Mod(sym))

CanonC(m, x) == IF m = 0 THEN x ELSE x % m          \* TLC's % is the mathematical modulus, result in 0..m-1
Canon(mod, q) == [c \in 1..Len(mod) |-> CanonC(mod[c], q[c])]
IsCanon(mod, q) == Len(q) = Len(mod) /\ Canon(mod, q) = q
Zero(mod) == [c \in 1..Len(mod) |-> 0]
Neg(mod, q) == Canon(mod, [c \in 1..Len(mod) |-> -q[c]])

RECURSIVE SumTo(_, _, _, _)
SumTo(ts, ss, c, k) == IF k = 0 THEN 0 ELSE ss[k] * ts[k][c] + SumTo(ts, ss, c, k - 1)

(* the fusion rule: ts = sequence of charges, ss = their signatures, snew = signature of the result *)
Add(mod, ts, ss, snew) == Canon(mod, [c \in 1..Len(mod) |-> snew * SumTo(ts, ss, c, Len(ts))])
Plus(mod, a, b) == Add(mod, <<a, b>>, <<1, 1>>, 1)

(* box of charges: complete for finite factors, |t| <= B for U(1) factors *)
RangeC(m, B) == IF m = 0 THEN (-B)..B ELSE 0..(m - 1)
Box(mod, B) == {q \in [1..Len(mod) -> (-B)..(IF B > 2 THEN B ELSE 2)] : \A c \in 1..Len(mod) : q[c] \in RangeC(mod[c], B)}
Sigs(n) == [1..n -> {-1, 1}]
=============================================================================
