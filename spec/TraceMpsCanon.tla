---------------------------- MODULE TraceMpsCanon ----------------------------
(* I->S binding for C08: a recorded sequence of gauge moves on a real MPS/MPO; the model state of MpsCanon evolves with the same moves and  *)
(* every GUARANTEE of the model state must be confirmed by what was measured on the real object after the move (isometry of flagged sites,   *)
(* position of the central block, same ray / same state / unit norm, library's is_canonical, norm(), Schmidt values and entropies against    *)
(* the dense state, honest discarded weight).  Measured clauses arrive as verdict bits (tolerances named in the harness).                    *)
EXTENDS MpsCanon, Json, IOUtils
Traces == ndJsonDeserialize(IOEnv.TRACE_FILE)
VARIABLES tid, l, st
Ev == Traces[tid].ev
Pre(e) == CASE e.act = "orth" -> CanOrth(st) [] e.act = "truncate" -> CanTruncate(st) [] OTHER -> TRUE
Post(e) == CASE e.act = "orth" -> Orth(st, e.n, e.to, e.nz)
             [] e.act = "absorb" -> Absorb(st, e.to)
             [] e.act = "diag" -> Diag(st, e.nz, e.binding, e.shrinks)
             [] e.act = "canonize" -> Canonize(st, e.to, e.nz)
             [] e.act = "truncate" -> Truncate(st, e.to, e.nz, e.binding)
             [] e.act = "setsite" -> SetSite(st, e.n)
             [] e.act = "observe" -> st
Confirms(o, s) == /\ o.pC = s.pC
                  /\ \A m \in Sites : ("L" \in s.iso[m] => o.iso[m + 1][1]) /\ ("R" \in s.iso[m] => o.iso[m + 1][2])
                  /\ (s.ray => o.parallel)
                  /\ (s.exact => o.same)
                  /\ (s.unit => o.unitnorm)
                  /\ (IsCanonical(s, "first") => o.api_canonical_first) /\ (IsCanonical(s, "last") => o.api_canonical_last)
                  /\ o.norm_ok /\ o.schmidt_ok /\ o.entropy_ok                         \* norm(), Schmidt values, entropies = those of the dense state
Ok(e) == IF ~Pre(e) THEN e.out = "YastnError" /\ e.obs.unchanged
         ELSE /\ e.out = "ok" /\ Confirms(e.obs, Post(e))
              /\ (e.act \in {"diag", "truncate"} => e.obs.discarded_ok)               \* returned number = true relative error (0 when nothing binds)
              /\ (e.act \in {"diag", "truncate"} /\ e.binding => e.obs.kept_largest)  \* the kept Schmidt values are the largest ones
Why(e) == IF ~Pre(e) THEN <<"move must be rejected with YastnError and leave the object unchanged", e.out>>
          ELSE IF e.out # "ok" THEN <<"valid move failed", e.out>>
          ELSE <<"a guarantee of the model is not confirmed", e.act, "model state", Post(e), "observed", e.obs>>
Init == tid \in 1..Len(Traces) /\ l = 1 /\ st = Init0
Step == l \in 1..Len(Ev) /\ (Ok(Ev[l]) = TRUE) /\ l' = l + 1 /\ st' = (IF Pre(Ev[l]) THEN Post(Ev[l]) ELSE st) /\ UNCHANGED tid
Fail == l \in 1..Len(Ev) /\ ~Ok(Ev[l]) /\ PrintT(<<"REJECT", tid, l, ToString(Why(Ev[l]))>>) /\ l' = 0 /\ UNCHANGED <<tid, st>>
Done == l = Len(Ev) + 1 /\ PrintT(<<"ACCEPT", tid>>) /\ l' = -1 /\ UNCHANGED <<tid, st>>
Next == Step \/ Fail \/ Done
=============================================================================
