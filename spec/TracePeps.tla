----------------------------- MODULE TracePeps -----------------------------
(* I->S binding for C11 (and the expectation values of C12).  Recorded from outside: to_tensor() of real finite PEPS (integer tensors) before and   *)
(* after every apply_gate_ / addition, translated to occupations through the library's own number operators.  The gate is what the DRIVER built      *)
(* (matrix units of an integer two-site operator validated against fkron in C05, or the terms of an integer MPO validated in C07); the expected     *)
(* state is computed HERE from the registered previous state by PepsOps!ApplyOp on global modes.                                                     *)
EXTENDS PepsOps, Json, IOUtils
Traces == ndJsonDeserialize(IOEnv.TRACE_FILE)
VARIABLES tid, l, reg
Ev == Traces[tid].ev
AllV(v) == \A k \in DOMAIN v : v[k] = TRUE
Vec(ent) == {<<RangeOf(x[1]), x[2], <<x[3], x[4]>>>> : x \in RangeOf(ent)}
(* gate given by matrix units in local numbering: local mode k of the gate <-> global mode e.map[k] *)
G(e, q) == [j \in 1..Len(q) |-> e.map[q[j]]]
UnitOp(e) == [k \in 1..Len(e.gate) |-> [z |-> <<e.gate[k][3], e.gate[k][4]>>, w |-> UnitWord(G(e, e.gate[k][1]), G(e, e.gate[k][2]), e.map)]]
(* operator given by named terms: amp * o_1(site_1) o_2(site_2) ... in the GIVEN product order; sites are positions in the fermionic order *)
TermOp(e) == [k \in 1..Len(e.terms) |-> [z |-> <<e.terms[k].amp[1], e.terms[k].amp[2]>>,
                                          w |-> ConcatW([j \in 1..Len(e.terms[k].ops) |-> LocalWord(e.terms[k].ops[j], e.terms[k].pos[j], e.nm)])]]
OpOf(e) == IF e.kind = "units" THEN UnitOp(e) ELSE TermOp(e)
Has(id) == id \in DOMAIN reg
Expected(e) == CASE e.op = "apply" -> ApplyOp(OpOf(e), reg[e.src], e.gr)
                 [] e.op = "sum" -> LinComb(<<e.ca[1], e.ca[2]>>, reg[e.a], <<e.cb[1], e.cb[2]>>, reg[e.b])
Ok(e) == CASE e.op = "init" -> e.integral
           [] e.op \in {"apply", "sum"} -> e.integral /\ Vec(e.ent) = Expected(e)
           [] e.op = "same" -> e.integral /\ RangeOf(e.x) = RangeOf(e.y)                          \* two routes, one tensor (entries <<index, 0, value>>)
           [] e.op = "basis" -> {<<RangeOf(x[1]), RangeOf(x[2]), x[3]>> : x \in RangeOf(e.ent)}   \* the dense reference used for expm is the Fock matrix of the word
                                = Matrix(ConcatW([j \in 1..Len(e.ops) |-> LocalWord(e.ops[j], e.pos[j], e.nm)]), e.nm * e.nsites, e.gr)
           [] e.op = "expect" -> LET x == Expectation(OpOf(e), reg[e.src], e.gr)  n == Inner(reg[e.src], reg[e.src]) IN
                                 e.integral /\ e.num = x /\ e.den = n[1] /\ n[2] = 0                  \* measured value * <psi|psi> = <psi|O|psi>, exactly
           [] e.op = "verdict" -> AllV(e.verdicts)
Why(e) == CASE e.op \in {"apply", "sum"} -> <<e.op, e.what, "integral", e.integral, "only observed", Vec(e.ent) \ Expected(e), "only expected", Expected(e) \ Vec(e.ent)>>
            [] e.op = "same" -> <<e.op, e.what, "legs equal", e.integral, "only first", RangeOf(e.x) \ RangeOf(e.y), "only second", RangeOf(e.y) \ RangeOf(e.x)>>
            [] e.op = "expect" -> <<e.op, e.what, "observed", e.num, e.den, "expected", Expectation(OpOf(e), reg[e.src], e.gr), Inner(reg[e.src], reg[e.src]), e.integral>>
            [] e.op = "verdict" -> <<e.op, e.what, e.verdicts>>
            [] OTHER -> <<e.op, e.what>>
NextReg(e) == IF e.op \in {"init", "apply", "sum"} THEN [k \in DOMAIN reg \cup {e.dst} |-> IF k = e.dst THEN Vec(e.ent) ELSE reg[k]] ELSE reg
Init == tid \in 1..Len(Traces) /\ l = 1 /\ reg = <<>>
Step == l \in 1..Len(Ev) /\ (Ok(Ev[l]) = TRUE) /\ l' = l + 1 /\ reg' = NextReg(Ev[l]) /\ UNCHANGED tid
Fail == l \in 1..Len(Ev) /\ ~Ok(Ev[l]) /\ PrintT(<<"REJECT", tid, l, ToString(Why(Ev[l]))>>) /\ l' = l + 1 /\ reg' = NextReg(Ev[l]) /\ UNCHANGED tid
Done == l = Len(Ev) + 1 /\ PrintT(<<"ACCEPT", tid>>) /\ l' = -1 /\ UNCHANGED <<tid, reg>>
Next == Step \/ Fail \/ Done
=============================================================================
