------------------------------ MODULE EnvCover ------------------------------
(***************************************************************************)
(* C12, design level: WHY the environments of a finite open PEPS are exact.*)
(* Every environment object (CTM corner / edge tensor, boundary MPS, NTU   *)
(* cluster) stands for a contracted REGION of the lattice.  The state is   *)
(* the region each object has absorbed, as a BAG of sites (site -> how     *)
(* often its two-layer tensor was contracted in); the actions transcribe   *)
(* the recursions of the code (EnvCTM.reset_/expand_outward_,              *)
(* EnvBoundaryMPS.__init__/_update_boundary_), the operators the formulas  *)
(* of the measure_* functions.  A measurement is exact iff its formula     *)
(* counts every site of the lattice exactly once.                          *)
(* Sites are <<x, y>>: x = row (0 = top), y = column (0 = left).           *)
(***************************************************************************)
EXTENDS Integers, FiniteSets, Sequences, TLC
SitesOf(d) == (0..(d[1] - 1)) \X (0..(d[2] - 1))
Dirs == {"t", "l", "b", "r", "tl", "tr", "bl", "br"}
Off(dn) == CASE dn = "t" -> <<-1, 0>> [] dn = "b" -> <<1, 0>> [] dn = "l" -> <<0, -1>> [] dn = "r" -> <<0, 1>>
             [] dn = "tl" -> <<-1, -1>> [] dn = "tr" -> <<-1, 1>> [] dn = "bl" -> <<1, -1>> [] dn = "br" -> <<1, 1>>
Sh(s, dn) == <<s[1] + Off(dn)[1], s[2] + Off(dn)[2]>>
(* the region an EXACT environment tensor of site s in direction dn stands for *)
InRegion(q, s, dn) == CASE dn = "t" -> q[2] = s[2] /\ q[1] < s[1] [] dn = "b" -> q[2] = s[2] /\ q[1] > s[1]
                        [] dn = "l" -> q[1] = s[1] /\ q[2] < s[2] [] dn = "r" -> q[1] = s[1] /\ q[2] > s[2]
                        [] dn = "tl" -> q[1] < s[1] /\ q[2] < s[2] [] dn = "tr" -> q[1] < s[1] /\ q[2] > s[2]
                        [] dn = "bl" -> q[1] > s[1] /\ q[2] < s[2] [] dn = "br" -> q[1] > s[1] /\ q[2] > s[2]
Full(d, s, dn) == {q \in SitesOf(d) : InRegion(q, s, dn)}
(* ------------------------------ bags of sites ------------------------------ *)
Empty(d) == [q \in SitesOf(d) |-> 0]
One(d, s) == [q \in SitesOf(d) |-> IF q = s THEN 1 ELSE 0]
Plus(a, b) == [q \in DOMAIN a |-> a[q] + b[q]]
Sum3(a, b, c) == Plus(a, Plus(b, c))
Support(a) == {q \in DOMAIN a : a[q] > 0}
IsSet(a) == \A q \in DOMAIN a : a[q] <= 1
BagOf(d, S) == [q \in SitesOf(d) |-> IF q \in S THEN 1 ELSE 0]
Once(d, a) == \A q \in SitesOf(d) : a[q] = 1               \* every site of the lattice exactly once
(* ---------------------- CTM: reset_('eye') / expand_outward_ ---------------------- *)
(* cov[s][dn]: bag absorbed by the tensor dn of site s.  expand_outward_ builds every new tensor from the OLD tensors of the neighbour   *)
(* (env_tmp, then update_storage_ which ignores None): a tensor whose neighbour does not exist keeps its previous (identity) value.       *)
CtmEye(d) == [s \in SitesOf(d) |-> [dn \in Dirs |-> Empty(d)]]
CtmExpand(d, cov) ==
    [s \in SitesOf(d) |-> [dn \in Dirs |->
        LET q == Sh(s, dn) IN
        IF q \notin SitesOf(d) THEN cov[s][dn]
        ELSE CASE dn = "tl" -> Plus(Sum3(cov[q]["l"], cov[q]["tl"], cov[q]["t"]), One(d, q))
               [] dn = "bl" -> Plus(Sum3(cov[q]["b"], cov[q]["bl"], cov[q]["l"]), One(d, q))
               [] dn = "tr" -> Plus(Sum3(cov[q]["t"], cov[q]["tr"], cov[q]["r"]), One(d, q))
               [] dn = "br" -> Plus(Sum3(cov[q]["r"], cov[q]["br"], cov[q]["b"]), One(d, q))
               [] OTHER -> Plus(cov[q][dn], One(d, q))]]                       \* edges: the old edge of the neighbour and the neighbour itself
RECURSIVE CtmAfter(_, _)
CtmAfter(d, k) == IF k = 0 THEN CtmEye(d) ELSE CtmExpand(d, CtmAfter(d, k - 1))
CtmExactAt(d, cov, s) == \A dn \in Dirs : Support(cov[s][dn]) = Full(d, s, dn) /\ IsSet(cov[s][dn])
CtmExact(d, cov) == \A s \in SitesOf(d) : CtmExactAt(d, cov, s)
MaxI(a, b) == IF a > b THEN a ELSE b
(* expansions after reset_('eye') that make every tensor exact (init='dl' is the first of them) *)
CtmNeeded(d) == MaxI(d[1], d[2]) - 1
(* formulas of the measure functions: which tensors are multiplied together *)
Pieces(cov, s, dns) == [k \in 1..Len(dns) |-> cov[s][dns[k]]]
RECURSIVE SumSeq(_, _)
SumSeq(d, q) == IF q = <<>> THEN Empty(d) ELSE Plus(Head(q), SumSeq(d, Tail(q)))
M1(d, cov, s) == Plus(One(d, s), SumSeq(d, Pieces(cov, s, <<"l", "tl", "t", "tr", "r", "br", "b", "bl">>)))
MnnH(d, cov, s0, s1) == Plus(Plus(One(d, s0), One(d, s1)),                        \* s1 = right neighbour of s0
                             Plus(SumSeq(d, Pieces(cov, s0, <<"bl", "l", "tl", "t", "b">>)), SumSeq(d, Pieces(cov, s1, <<"tr", "r", "br", "b", "t">>))))
MnnV(d, cov, s0, s1) == Plus(Plus(One(d, s0), One(d, s1)),                        \* s1 = bottom neighbour of s0
                             Plus(SumSeq(d, Pieces(cov, s0, <<"l", "tl", "t", "tr", "r">>)), SumSeq(d, Pieces(cov, s1, <<"r", "br", "b", "bl", "l">>))))
M2x2(d, cov, tl) == LET tr == Sh(tl, "r")  br == Sh(tl, "br")  bl == Sh(tl, "b") IN
                    Plus(Plus(Plus(One(d, tl), One(d, tr)), Plus(One(d, br), One(d, bl))),
                         Plus(Plus(SumSeq(d, Pieces(cov, tl, <<"l", "tl", "t">>)), SumSeq(d, Pieces(cov, tr, <<"t", "tr", "r">>))),
                              Plus(SumSeq(d, Pieces(cov, br, <<"r", "br", "b">>)), SumSeq(d, Pieces(cov, bl, <<"b", "bl", "l">>)))))
(* window xr = <<x0, x1>>, yr = <<y0, y1>> (inclusive) closed by CTM tensors: EnvWindow / measure_nsite / measure_2site / measure_line *)
MWin(d, cov, xr, yr) ==
    LET W == {q \in SitesOf(d) : q[1] >= xr[1] /\ q[1] <= xr[2] /\ q[2] >= yr[1] /\ q[2] <= yr[2]}
        Edge(dn, S) == SumSeq(d, [k \in 1..Cardinality(S) |-> cov[CHOOSE q \in S : Cardinality({p \in S : p[1] < q[1] \/ (p[1] = q[1] /\ p[2] < q[2])}) = k - 1][dn]])
    IN Plus(Plus(BagOf(d, W), Plus(Plus(cov[<<xr[1], yr[1]>>]["tl"], cov[<<xr[1], yr[2]>>]["tr"]), Plus(cov[<<xr[2], yr[1]>>]["bl"], cov[<<xr[2], yr[2]>>]["br"]))),
            Plus(Plus(Edge("t", {q \in W : q[1] = xr[1]}), Edge("b", {q \in W : q[1] = xr[2]})), Plus(Edge("l", {q \in W : q[2] = yr[1]}), Edge("r", {q \in W : q[2] = yr[2]}))))
(* ---------------------- boundary MPS of a finite lattice ---------------------- *)
(* key <<n, dn>>: 'l' / 'r' = boundary of column n from the left / right, 't' / 'b' = boundary of row n from the top / bottom *)
Col(d, n) == {q \in SitesOf(d) : q[2] = n}
Row(d, n) == {q \in SitesOf(d) : q[1] = n}
InSetup(setup, c) == \E i \in 1..Len(setup) : setup[i] = c
BmKeys(d, setup) ==
    (IF InSetup(setup, "l") \/ InSetup(setup, "r") THEN {<<0, "l">>, <<d[2] - 1, "r">>} ELSE {})
    \cup (IF InSetup(setup, "t") \/ InSetup(setup, "b") THEN {<<0, "t">>, <<d[1] - 1, "b">>} ELSE {})
    \cup (IF InSetup(setup, "r") THEN {<<n, "r">> : n \in 0..(d[2] - 2)} ELSE {}) \cup (IF InSetup(setup, "l") THEN {<<n, "l">> : n \in 1..(d[2] - 1)} ELSE {})
    \cup (IF InSetup(setup, "t") THEN {<<n, "t">> : n \in 1..(d[1] - 1)} ELSE {}) \cup (IF InSetup(setup, "b") THEN {<<n, "b">> : n \in 0..(d[1] - 2)} ELSE {})
(* _update_boundary_: the boundary of line n is the boundary of the previous line with that line's transfer matrix applied *)
RECURSIVE BmCov(_, _)
BmCov(d, key) == LET n == key[1]  dn == key[2] IN
    CASE dn = "l" -> IF n = 0 THEN Empty(d) ELSE Plus(BmCov(d, <<n - 1, "l">>), BagOf(d, Col(d, n - 1)))
      [] dn = "r" -> IF n = d[2] - 1 THEN Empty(d) ELSE Plus(BmCov(d, <<n + 1, "r">>), BagOf(d, Col(d, n + 1)))
      [] dn = "t" -> IF n = 0 THEN Empty(d) ELSE Plus(BmCov(d, <<n - 1, "t">>), BagOf(d, Row(d, n - 1)))
      [] dn = "b" -> IF n = d[1] - 1 THEN Empty(d) ELSE Plus(BmCov(d, <<n + 1, "b">>), BagOf(d, Row(d, n + 1)))
BmColumn(d, ny) == Sum3(BmCov(d, <<ny, "r">>), BagOf(d, Col(d, ny)), BmCov(d, <<ny, "l">>))      \* measure_1site, vertical bonds of measure_nn
BmRow(d, nx) == Sum3(BmCov(d, <<nx, "b">>), BagOf(d, Row(d, nx)), BmCov(d, <<nx, "t">>))          \* horizontal bonds of measure_nn
BmColumns(d, y0, y1) == Sum3(BmCov(d, <<y1, "r">>), BagOf(d, {q \in SitesOf(d) : q[2] >= y0 /\ q[2] <= y1}), BmCov(d, <<y0, "l">>))   \* measure_nsite, measure_2site(dirn='v')
BmRows(d, x0, x1) == Sum3(BmCov(d, <<x1, "b">>), BagOf(d, {q \in SitesOf(d) : q[1] >= x0 /\ q[1] <= x1}), BmCov(d, <<x0, "t">>))      \* measure_2site(dirn='h')
(* what a set-up string makes available *)
BmCan1site(d, setup, s) == {<<s[2], "r">>, <<s[2], "l">>} \subseteq BmKeys(d, setup)
BmCanNnV(d, setup, s0) == BmCan1site(d, setup, s0)
BmCanNnH(d, setup, s0) == {<<s0[1], "b">>, <<s0[1], "t">>} \subseteq BmKeys(d, setup)
BmCanColumns(d, setup, y0, y1) == {<<y1, "r">>, <<y0, "l">>} \subseteq BmKeys(d, setup)
(* ---------------------- NTU clusters ---------------------- *)
(* offsets <<dx, dy>> from s0 for a horizontal bond s0 -> s1 = s0 + <<0, 1>>, read off the pictures of EnvNTU.bond_metric (s0 and s1 excluded);  *)
(* the cluster of a vertical bond is the transposed one.                                                                                            *)
Diamond(r) == {o \in ((-r)..r) \X ((-r)..(r + 1)) :                                   \* sites within distance r of the bond
                 LET a == IF o[1] < 0 THEN -o[1] ELSE o[1]
                     b == IF o[2] < 0 THEN -o[2] ELSE IF o[2] > 1 THEN o[2] - 1 ELSE 0 IN a + b <= r /\ o # <<0, 0>> /\ o # <<0, 1>>}
Box(rx, ry) == {o \in ((-rx)..rx) \X ((-ry)..(ry + 1)) : o # <<0, 0>> /\ o # <<0, 1>>}
ClusterH(which) == CASE which = "NN" -> Diamond(1)
                     [] which = "NN+" -> Diamond(2)
                     [] which = "NN++" -> Diamond(3)
                     [] which = "NNN" -> Box(1, 1)
                     [] which = "NNN+" -> Box(1, 2) \cup Box(2, 1)
                     [] which = "NNN++" -> (Box(3, 3) \ {<<-3, -3>>, <<-3, 4>>, <<3, -3>>, <<3, 4>>})
Cluster(which, dirn) == IF dirn = "h" THEN ClusterH(which) ELSE {<<o[2], o[1]>> : o \in ClusterH(which)}
ClusterSites(d, which, dirn, s0) == {q \in SitesOf(d) : <<q[1] - s0[1], q[2] - s0[2]>> \in Cluster(which, dirn)}
WhichAll == {"NN", "NN+", "NN++", "NNN", "NNN+", "NNN++"}
=============================================================================
