INIT Init
NEXT Next
