SPECIFICATION Spec
CONSTANTS Dims <- DimsForest
 Cap = 2
 OnlyForests = TRUE
CONSTRAINT Bounded
INVARIANT I_ForestInside
INVARIANT I_ForestFixpoint
INVARIANT I_CycleDoubleCounts
INVARIANT I_NonTreeBond
PROPERTY Monotone
