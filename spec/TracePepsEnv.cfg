INIT InitE
NEXT NextE
