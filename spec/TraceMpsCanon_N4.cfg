INIT Init
NEXT Next
CONSTANT N = 4
