------------------------------ MODULE PepsOps ------------------------------
(***************************************************************************)
(* Reference semantics for C11 / C12: a finite PEPS is the Fock vector     *)
(* returned by to_tensor().  A vector is a set of <<S, a, z>>: S = set of  *)
(* occupied PHYSICAL modes (site-major in the fermionic order of the       *)
(* lattice: mode (i, k) of the i-th site is i*nm + k), a = ancilla labels  *)
(* (spectators: to_tensor() puts all ancillas after all physical modes),   *)
(* z = <<re, im>> Gaussian integer.  Operators are sums of WORDS of        *)
(* elementary operators on global modes; all Jordan-Wigner signs come from *)
(* Fock!ApplyWord, none from swap-gate bookkeeping.                        *)
(***************************************************************************)
EXTENDS Fock, FiniteSetsExt, SequencesExt
RangeOf(q) == {q[k] : k \in 1..Len(q)}
CMul(x, y) == <<x[1] * y[1] - x[2] * y[2], x[1] * y[2] + x[2] * y[1]>>
CConj(x) == <<x[1], -x[2]>>
CAdd(x, y) == <<x[1] + y[1], x[2] + y[2]>>
CSum(S, f(_)) == <<MapThenSumSet(LAMBDA e : f(e)[1], S), MapThenSumSet(LAMBDA e : f(e)[2], S)>>
(* sorted sequence of a set of integers *)
AscSeq(S) == SetToSortSeq(S, <)
(* matrix unit |out><in| of a gate: o, i = occupied modes in the gate's OWN (local) order, already renamed to global modes; h = all modes of the gate. *)
(* |out> = cp(o1) cp(o2) ... |0>  in the local order - the operator PRODUCT is what is mapped to the lattice, so a gate applied against the fermionic   *)
(* order keeps its meaning: creators . vacuum projector . annihilators (reversed)                                                                         *)
UnitWord(o, i, h) == [k \in 1..Len(o) |-> <<"cp", o[k]>>] \o [k \in 1..Len(h) |-> <<"h", h[k]>>] \o [k \in 1..Len(i) |-> <<"c", i[Len(i) + 1 - k]>>]
(* an operator: sequence of [z |-> <<re, im>>, w |-> word]; a vector: set of <<S, a, z>> *)
Contribution(op, V, gr) == {<<t, x>> \in (1..Len(op)) \X V : ApplyWord(op[t].w, <<1, x[1]>>, gr)[1] # 0}
ApplyOp(op, V, gr) ==
    LET P == Contribution(op, V, gr)
        R(p) == ApplyWord(op[p[1]].w, <<1, p[2][1]>>, gr)
        Keys == {<<R(p)[2], p[2][2]>> : p \in P}
        Val(key) == CSum({p \in P : R(p)[2] = key[1] /\ p[2][2] = key[2]}, LAMBDA p : LET r == R(p) IN CMul(<<r[1], 0>>, CMul(op[p[1]].z, p[2][3])))
    IN {y \in {<<key[1], key[2], Val(key)>> : key \in Keys} : y[3] # <<0, 0>>}
(* linear combination of two vectors *)
AmpOf(V, S, a) == IF \E x \in V : x[1] = S /\ x[2] = a THEN (CHOOSE x \in V : x[1] = S /\ x[2] = a)[3] ELSE <<0, 0>>
LinComb(ca, A, cb, B) == LET Keys == {<<x[1], x[2]>> : x \in A \cup B} IN
                         {y \in {<<k[1], k[2], CAdd(CMul(ca, AmpOf(A, k[1], k[2])), CMul(cb, AmpOf(B, k[1], k[2])))>> : k \in Keys} : y[3] # <<0, 0>>}
(* <A|B> and <A| op |B> *)
Inner(A, B) == CSum({<<x, y>> \in A \X B : x[1] = y[1] /\ x[2] = y[2]}, LAMBDA p : CMul(CConj(p[1][3]), p[2][3]))
Expectation(op, V, gr) == Inner(V, ApplyOp(op, V, gr))
=============================================================================
