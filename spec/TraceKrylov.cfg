INIT Init
NEXT Next
