--------------------------- MODULE LatticeStoreMC ---------------------------
EXTENDS LatticeStore
Geo(kind, nx, ny, bc, pat) == [kind |-> kind, Nx |-> nx, Ny |-> ny, bc |-> bc, pat |-> pat]
G_sq22inf  == Geo("Square", 2, 2, "infinite", <<>>)
G_sq21obc  == Geo("Square", 2, 1, "obc", <<>>)
G_sq22cyl  == Geo("Square", 2, 2, "cylinder", <<>>)
G_checker  == Geo("Checkerboard", 2, 2, "infinite", <<>>)
G_rect     == Geo("Rectangular", 2, 2, "infinite", <<<<0, 1>>, <<1, 0>>>>)
G_tri3     == Geo("Tri3", 3, 3, "infinite", <<>>)
=============================================================================
