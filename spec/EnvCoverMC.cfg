SPECIFICATION Spec
CONSTANTS MaxN = 4
 K = 5
INVARIANT I_Inside
INVARIANT I_Closed
INVARIANT I_Needed
INVARIANT I_Local
INVARIANT I_M1
INVARIANT I_M1only
INVARIANT I_Mnn
INVARIANT I_M2x2
INVARIANT I_MWin
INVARIANT I_NeverTwice
INVARIANT I_Bm
INVARIANT I_BmSetups

PROPERTY Monotone
