------------------------------ MODULE ChargesMC ------------------------------
(* Exhaustive check of the abelian-group axioms of Charges!Add on a box.     *)
(* Every point of the quantifier domain of C19 (first sentence) is one      *)
(* initial state; the axioms are invariants.                                 *)
EXTENDS Charges, TLC
CONSTANTS SYMS,      \* subset of SymNames checked in this run
          B1, B2, B3 \* box half-width for symmetries with 1, 2, 3 charge components
VARIABLES sym, a, b, c, ss, snew, g1, g2, picked
vars == <<sym, a, b, c, ss, snew, g1, g2, picked>>
BOf(s) == CASE NSym(s) <= 1 -> B1 [] NSym(s) = 2 -> B2 [] OTHER -> B3

(* Init picks the symmetry and the first charge; Pick chooses the rest (so that TLC's workers share the box) *)
Init == /\ sym \in SYMS /\ a \in Box(Mod(sym), BOf(sym)) /\ picked = FALSE
        /\ b = Zero(Mod(sym)) /\ c = Zero(Mod(sym)) /\ ss = <<1, 1, 1>> /\ snew = 1 /\ g1 = 1 /\ g2 = 1
Pick == /\ ~picked /\ picked' = TRUE /\ UNCHANGED <<sym, a>>
        /\ b' \in Box(Mod(sym), BOf(sym)) /\ c' \in Box(Mod(sym), BOf(sym))
        /\ ss' \in Sigs(3) /\ snew' \in {-1, 1} /\ g1' \in {-1, 1} /\ g2' \in {-1, 1}
Next == Pick

m == Mod(sym)
Closure   == IsCanon(m, Add(m, <<a, b, c>>, ss, snew)) /\ IsCanon(m, Plus(m, a, b))
Assoc     == Plus(m, Plus(m, a, b), c) = Plus(m, a, Plus(m, b, c))
Commut    == Plus(m, a, b) = Plus(m, b, a)
           /\ Add(m, <<a, b, c>>, ss, snew) = Add(m, <<c, a, b>>, <<ss[3], ss[1], ss[2]>>, snew)
Identity  == Plus(m, a, Zero(m)) = Canon(m, a) /\ Add(m, <<>>, <<>>, snew) = Zero(m)
Inverse   == /\ Add(m, <<a, a>>, <<ss[1], -ss[1]>>, snew) = Zero(m)        \* flipping a signature yields the inverse
             /\ Plus(m, a, Neg(m, a)) = Zero(m)
             /\ Add(m, <<a>>, <<-1>>, 1) = Neg(m, a)
             /\ Add(m, <<a, b, c>>, ss, -snew) = Neg(m, Add(m, <<a, b, c>>, ss, snew))
Grouping  == LET all == Add(m, <<a, b, c>>, ss, snew) IN
             /\ Add(m, << Add(m, <<a>>, <<ss[1]>>, g1), Add(m, <<b, c>>, <<ss[2], ss[3]>>, g2) >>, <<g1, g2>>, snew) = all
             /\ Add(m, << Add(m, <<a, b>>, <<ss[1], ss[2]>>, g1), Add(m, <<c>>, <<ss[3]>>, g2) >>, <<g1, g2>>, snew) = all
             /\ Add(m, << Add(m, <<a>>, <<ss[1]>>, g1), Add(m, <<b>>, <<ss[2]>>, g2), Add(m, <<c>>, <<ss[3]>>, g1) >>, <<g1, g2, g1>>, snew) = all
(* what Leg.__post_init__ relies on: a charge is canonical iff fusing it alone with (s,) -> s returns it *)
SelfFuse  == \A s \in {-1, 1} : (Add(m, <<a>>, <<s>>, s) = a) <=> IsCanon(m, a)
=============================================================================
