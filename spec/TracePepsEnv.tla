---------------------------- MODULE TracePepsEnv ----------------------------
(* I->S binding for C12.  Extends the C11 trace spec (exact states registered from to_tensor(), exact gate application) with                 *)
(*  measure : numbers returned by measure_1site / measure_nn / measure_2site / measure_nsite / ... of EnvBoundaryMPS, EnvCTM, EnvBP            *)
(*            on a registered state, each logged as the Gaussian integer nearest to value * <psi|psi>; expected = PepsMeasure!OpExp            *)
(*  evolve  : to_tensor() after evolution_step_ with a non-binding truncation, rescaled by ONE least-squares scalar and rounded; expected =    *)
(*            PepsOps!ApplyOp(gate, registered previous state) exactly; reported truncation error and metric diagnostics within tolerance      *)
(*  metric  : Hermiticity defect and smallest eigenvalue of bond_metric (units of 1e-12 of its norm) against TolMetric                         *)
(*  cover   : sites an environment object really depends on (found by perturbing one PEPS tensor at a time) against the regions of EnvCover /  *)
(*            the messages of BpCover after k recorded sweeps                                                                                 *)
(*  ctmu    : a value of measure_1site / measure_nn after EnvCTM.update_(moves) from reset_('eye') that IS exact requires complete coverage in CtmMoves *)
EXTENDS TracePeps, PepsMeasure, BpCover, CtmMoves
VARIABLE fn
Site(p) == <<p[1], p[2]>>
SiteSet(q) == {Site(q[i]) : i \in 1..Len(q)}
ObsOk(e, x) == \A i \in 1..Len(e.obs) : e.obs[i][4] = TRUE /\ <<e.obs[i][2], e.obs[i][3]>> = x
CoverExpected(e) ==
    CASE e.model = "ctm" -> Support(CtmAfter(Site(e.dims), e.k)[Site(e.site)][e.dn])
      [] e.model = "bm" -> Support(BmCov(Site(e.dims), <<e.n, e.dn>>))
      [] e.model = "ntu" -> ClusterSites(Site(e.dims), e.which, e.dirn, Site(e.site))
      [] e.model = "bp" -> LET dd == Site(e.dims)                                     \* messages after e.k sweeps of update_ in the recorded order of single updates
                               EE == {{Site(e.E[i][1]), Site(e.E[i][2])} : i \in 1..Len(e.E)}
                               sq == [i \in 1..Len(e.seq) |-> <<Site(e.seq[i][1]), Site(e.seq[i][2])>>] IN
                           Support(Sweeps(dd, EE, BpEye(dd), sq, e.k)[Site(e.site)][e.dn])
(* ctmu: is a value measured after update_(moves) from reset_('eye') the exact one?  Complete coverage is NECESSARY: a value can only be exact if its formula counts     *)
(* every site once in the coverage after these moves.  It is not sufficient for the implementation (found by the thorough tier on 3x4): projectors are computed from    *)
(* the norm network as currently built and keep only the directions THAT network needs - directions that an operator, or a part of the environment absorbed later,     *)
(* would need are discarded (order l b r t on 3x4; also one more 'v' move applied to the exact environment changes nn values of the outer rows).                       *)
CtmuExpected(e) == LET dd == Site(e.dims)  s0 == Site(e.site)  cv == AfterMoves(dd, e.moves) IN
    CASE e.kind = "1site" -> Once(dd, M1(dd, cv, s0))
      [] e.kind = "nnh" -> Once(dd, MnnH(dd, cv, s0, Sh(s0, "r")))
      [] e.kind = "nnv" -> Once(dd, MnnV(dd, cv, s0, Sh(s0, "b")))
OkE(e) == CASE e.op = "measure" -> LET F == fn[e.src] IN e.den = Norm2F(F) /\ ObsOk(e, OpExp(OpOf(e), F, e.gr))
            [] e.op = "evolve" -> e.integral /\ Vec(e.ent) = ApplyOp(OpOf(e), reg[e.src], e.gr) /\ e.terr <= TolTrunc /\ e.nonherm <= TolMetric /\ e.mineig >= -TolMetric
            [] e.op = "metric" -> e.nonherm <= TolMetric /\ e.mineig >= -TolMetric
            [] e.op = "cover" -> SiteSet(e.deps) = CoverExpected(e)
            [] e.op = "bmkeys" -> {<<e.keys[i][1], e.keys[i][2]>> : i \in 1..Len(e.keys)} = BmKeys(Site(e.dims), e.setup)
            [] e.op = "ctmk" -> e.k >= CtmNeeded(Site(e.dims))
            [] e.op = "ctmu" -> (e.exact => CtmuExpected(e))
            [] OTHER -> Ok(e)
WhyE(e) == CASE e.op = "measure" -> <<e.op, e.what, "observed", e.obs, e.den, "expected", OpExp(OpOf(e), fn[e.src], e.gr), Norm2F(fn[e.src])>>
             [] e.op = "evolve" -> <<e.op, e.what, "integral", e.integral, "terr", e.terr, "nonherm", e.nonherm, "mineig", e.mineig,
                                     "only observed", Vec(e.ent) \ ApplyOp(OpOf(e), reg[e.src], e.gr), "only expected", ApplyOp(OpOf(e), reg[e.src], e.gr) \ Vec(e.ent)>>
             [] e.op = "metric" -> <<e.op, e.what, "nonherm", e.nonherm, "mineig", e.mineig>>
             [] e.op = "cover" -> <<e.op, e.what, "only observed", SiteSet(e.deps) \ CoverExpected(e), "only expected", CoverExpected(e) \ SiteSet(e.deps)>>
             [] e.op = "bmkeys" -> <<e.op, e.what, "expected", BmKeys(Site(e.dims), e.setup)>>
             [] e.op = "ctmk" -> <<e.op, e.what, "needed", CtmNeeded(Site(e.dims))>>
             [] e.op = "ctmu" -> <<e.op, e.what, "measured value exact", e.exact, "model", CtmuExpected(e)>>
             [] OTHER -> Why(e)
Registers(e) == e.op \in {"init", "apply", "sum", "evolve"}
NextRegE(e) == IF Registers(e) THEN [k \in DOMAIN reg \cup {e.dst} |-> IF k = e.dst THEN Vec(e.ent) ELSE reg[k]] ELSE reg
NextFn(e) == IF Registers(e) THEN [k \in DOMAIN fn \cup {e.dst} |-> IF k = e.dst THEN Fn(Vec(e.ent)) ELSE fn[k]] ELSE fn
InitE == Init /\ fn = <<>>
StepE == l \in 1..Len(Ev) /\ (OkE(Ev[l]) = TRUE) /\ l' = l + 1 /\ reg' = NextRegE(Ev[l]) /\ fn' = NextFn(Ev[l]) /\ UNCHANGED tid
FailE == l \in 1..Len(Ev) /\ ~OkE(Ev[l]) /\ PrintT(<<"REJECT", tid, l, ToString(WhyE(Ev[l]))>>) /\ l' = l + 1 /\ reg' = NextRegE(Ev[l]) /\ fn' = NextFn(Ev[l]) /\ UNCHANGED tid
DoneE == l = Len(Ev) + 1 /\ PrintT(<<"ACCEPT", tid>>) /\ l' = -1 /\ UNCHANGED <<tid, reg, fn>>
NextE == StepE \/ FailE \/ DoneE
=============================================================================
