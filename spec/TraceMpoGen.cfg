INIT Init
NEXT Next
