------------------------------ MODULE CtmMoves ------------------------------
(***************************************************************************)
(* C12, design level: the moves of EnvCTM.update_ on a finite open lattice *)
(* as a coverage state machine (bags of sites, EnvCover).                   *)
(*                                                                         *)
(* EnvCTM._update_core_(move): the sites are visited in GROUPS; for every  *)
(* group the projectors are computed first, then the new tensors of ALL    *)
(* sites of the group are computed from the OLD environment (env_tmp) and  *)
(* stored at once (update_storage_, which leaves untouched what was not    *)
(* computed).  'h' / 'v' have one group (the whole lattice, simultaneous); *)
(* 'l', 'r', 't', 'b' are sequential: column after column (row after row)  *)
(* in the direction of the move, so a column already sees the updated      *)
(* tensors of the previous one.  _update_env_ rewrites, for an elementary  *)
(* move m, three tensors of a site from its neighbour in direction m:      *)
(*    l :  l  <- l(L) + L      tl <- tl(L) + t(L)     bl <- b(L) + bl(L)   *)
(*    r :  r  <- r(R) + R      tr <- t(R) + tr(R)     br <- br(R) + b(R)   *)
(*    t :  t  <- t(T) + T      tl <- l(T) + tl(T)     tr <- tr(T) + r(T)   *)
(*    b :  b  <- b(B) + B      bl <- bl(B) + l(B)     br <- r(B) + br(B)   *)
(* (projectors are isometries that do not truncate here: they change the   *)
(* gauge of a bond, not what a tensor stands for).                          *)
(***************************************************************************)
EXTENDS EnvCover
Elementary(m) == CASE m = "h" -> {"l", "r"} [] m = "v" -> {"t", "b"} [] OTHER -> {m}
Writes(m) == CASE m = "l" -> {"l", "tl", "bl"} [] m = "r" -> {"r", "tr", "br"} [] m = "t" -> {"t", "tl", "tr"} [] m = "b" -> {"b", "bl", "br"}
(* the new value of tensor dn of site s under the elementary move m (dn \in Writes(m)); a corner is rewritten only if the diagonal neighbour exists *)
NewTensor(d, cov, s, m, dn) ==
    LET q == Sh(s, m) IN
    IF Sh(s, dn) \notin SitesOf(d) THEN cov[s][dn]
    ELSE CASE dn = m -> Plus(cov[q][m], One(d, q))
           [] m = "l" /\ dn = "tl" -> Plus(cov[q]["tl"], cov[q]["t"])
           [] m = "l" /\ dn = "bl" -> Plus(cov[q]["b"], cov[q]["bl"])
           [] m = "r" /\ dn = "tr" -> Plus(cov[q]["t"], cov[q]["tr"])
           [] m = "r" /\ dn = "br" -> Plus(cov[q]["br"], cov[q]["b"])
           [] m = "t" /\ dn = "tl" -> Plus(cov[q]["l"], cov[q]["tl"])
           [] m = "t" /\ dn = "tr" -> Plus(cov[q]["tr"], cov[q]["r"])
           [] m = "b" /\ dn = "bl" -> Plus(cov[q]["bl"], cov[q]["l"])
           [] m = "b" /\ dn = "br" -> Plus(cov[q]["r"], cov[q]["br"])
(* one group: every site of G gets the tensors written by the elementary moves ms, all computed from the old cov *)
Group(d, cov, G, ms) ==
    [s \in SitesOf(d) |-> [dn \in Dirs |->
        IF s \in G /\ \E m \in ms : dn \in Writes(m) THEN NewTensor(d, cov, s, CHOOSE m \in ms : dn \in Writes(m), dn) ELSE cov[s][dn]]]
(* the groups of a move, in the order of the code *)
Groups(d, m) == CASE m \in {"h", "v"} -> <<SitesOf(d)>>
                  [] m = "l" -> [j \in 1..d[2] |-> {q \in SitesOf(d) : q[2] = j - 1}]
                  [] m = "r" -> [j \in 1..d[2] |-> {q \in SitesOf(d) : q[2] = d[2] - j}]
                  [] m = "t" -> [j \in 1..d[1] |-> {q \in SitesOf(d) : q[1] = j - 1}]
                  [] m = "b" -> [j \in 1..d[1] |-> {q \in SitesOf(d) : q[1] = d[1] - j}]
RECURSIVE GroupsFrom(_, _, _, _, _)
GroupsFrom(d, cov, gs, ms, j) == IF j > Len(gs) THEN cov ELSE GroupsFrom(d, Group(d, cov, gs[j], ms), gs, ms, j + 1)
Move(d, cov, m) == GroupsFrom(d, cov, Groups(d, m), Elementary(m), 1)
RECURSIVE MovesFrom(_, _, _, _)
MovesFrom(d, cov, ms, j) == IF j > Len(ms) THEN cov ELSE MovesFrom(d, Move(d, cov, ms[j]), ms, j + 1)
(* update_(moves = ms) after reset_('eye') *)
AfterMoves(d, ms) == MovesFrom(d, CtmEye(d), ms, 1)
MoveNames == {"h", "v", "l", "r", "t", "b"}
(* rounds of the simultaneous pair 'hv' that make every tensor exact *)
HvNeeded(d) == IF d[1] = 1 /\ d[2] = 1 THEN 0 ELSE MaxI(d[1], d[2]) - 1
=============================================================================
