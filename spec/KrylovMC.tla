------------------------------ MODULE KrylovMC ------------------------------
(***************************************************************************)
(* Design check for C18: the expmv controller against EVERY environment.   *)
(* Time is in integer units (T units to go); the error estimator is        *)
(* abstracted to a monotone acceptance table A[m] = largest step accepted  *)
(* with a Krylov space of size m (non-decreasing in m, >= 1: a small       *)
(* enough step is always accepted), dim = size of the invariant subspace   *)
(* of the start vector (happy breakdown), both chosen by TLC.  The real-   *)
(* valued proposals (tau_opt, ncv_opt, estimated order) are arbitrary      *)
(* within what the code's formulas guarantee:                              *)
(*   rejected: tau_opt < tau, ncv_opt > m;  accepted: anything.            *)
(* Checked: no overshoot (tau <= remaining), ncv within [1, ncv_max] after *)
(* the first iteration, and TERMINATION.  Rule = "eq" is the code before   *)
(* commit 9c578d6 (m == ncv_max): TLC finds the lasso (ncv0 > ncv_max, a   *)
(* rejected step, 'enlarge ncv' clipped back to ncv_max).                  *)
(***************************************************************************)
EXTENDS Krylov
CONSTANTS NcvMax, Ncv0Max, T, Rule
VARIABLES rem, tau, ncv, lenV, rej, A, dim, first
vars == <<rem, tau, ncv, lenV, rej, A, dim, first>>
MMax == Max(Ncv0Max, NcvMax)
Tables == {f \in [1..MMax -> 1..T] : \A i \in 1..(MMax - 1) : f[i] <= f[i + 1]}
Init == /\ rem = T /\ tau = T /\ ncv \in 1..Ncv0Max /\ lenV = 1 /\ rej = FALSE /\ first = TRUE
        /\ A \in Tables /\ dim \in 1..(MMax + 1)                  \* MMax + 1: no breakdown within reach
Clamp(tauE, taunew, remn) == Min(Min(Max(Max(1, tauE \div 5), taunew), remn), 2 * tauE)
Step == /\ rem > 0
        /\ LET target == Max(lenV - 1, ncv)
               happy == dim <= target
               m == IF happy THEN dim ELSE target
               tauE == IF happy THEN rem ELSE tau
               ok == happy \/ tauE <= A[m] IN
           IF ok
           THEN /\ rem' = rem - tauE /\ lenV' = 1 /\ rej' = FALSE
                /\ \E taunew \in 1..T, ncvnew \in 1..(MMax + 1) :
                      /\ (happy => taunew = tauE /\ ncvnew = ncv)
                      /\ tau' = (IF rem' = 0 THEN 0 ELSE Clamp(tauE, taunew, rem'))
                      /\ ncv' = ClampNcv(NcvMax, m, ncvnew)
           ELSE /\ rem' = rem /\ lenV' = m + 1 /\ rej' = TRUE
                /\ \E taunew \in 1..tau, ncvnew \in 1..(MMax + 2) :
                      /\ IF ForcedShrink(Rule, m, NcvMax) THEN taunew < tau /\ ncvnew = NcvMax
                         ELSE (taunew < tau /\ ncvnew = m) \/ (taunew = tau /\ ncvnew > m)
                      /\ tau' = Clamp(tauE, taunew, rem')
                      /\ ncv' = ClampNcv(NcvMax, m, ncvnew)
        /\ first' = FALSE /\ UNCHANGED <<A, dim>>
Next == Step
Spec == Init /\ [][Next]_vars /\ WF_vars(Step)
Inv_NoOvershoot == rem > 0 => (tau >= 1 /\ tau <= rem)
Inv_NcvRange == ~first => ncv \in 1..NcvMax
Inv_RejectKeepsSpace == rej => lenV >= 2
(* every rejected step makes progress: a strictly smaller step or a strictly larger Krylov space next time *)
Prop_Progress == [][(rej' /\ ~first') => (tau' < tau \/ LenAfter(lenV', ncv') > lenV')]_vars
Termination == <>(rem = 0)
=============================================================================
