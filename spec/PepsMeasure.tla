---------------------------- MODULE PepsMeasure ----------------------------
(***************************************************************************)
(* C12: expectation values of a finite PEPS as EXACT rationals.  The state *)
(* is the Fock vector of PepsOps held as a FUNCTION key -> amplitude       *)
(* (key = <<occupied physical modes, ancilla labels>>) so that             *)
(* <psi| w |psi> for an operator word w is one pass over the support:      *)
(*   sum_x  sign(w, x) * conj(psi[w x]) * psi[x]                           *)
(* with the Jordan-Wigner sign from Fock!ApplyWord.  An environment that   *)
(* is exact must return  <psi|O|psi> / <psi|psi>  - the harness logs the   *)
(* measured number m as the Gaussian integer nearest to m * <psi|psi>      *)
(* (and whether it is within TolExpect of it); equality is decided here.   *)
(***************************************************************************)
EXTENDS PepsOps
KeysOf(V) == {<<x[1], x[2]>> : x \in V}
Fn(V) == [k \in KeysOf(V) |-> (CHOOSE x \in V : x[1] = k[1] /\ x[2] = k[2])[3]]
AmpF(F, k) == IF k \in DOMAIN F THEN F[k] ELSE <<0, 0>>
Norm2F(F) == MapThenSumSet(LAMBDA k : F[k][1] * F[k][1] + F[k][2] * F[k][2], DOMAIN F)
WordTerm(w, F, gr, k) == LET r == ApplyWord(w, <<1, k[1]>>, gr) IN
                         IF r[1] = 0 THEN <<0, 0>> ELSE CMul(<<r[1], 0>>, CMul(CConj(AmpF(F, <<r[2], k[2]>>)), F[k]))
WordExp(w, F, gr) == CSum(DOMAIN F, LAMBDA k : WordTerm(w, F, gr, k))
RECURSIVE OpExpFrom(_, _, _, _)
OpExpFrom(op, F, gr, t) == IF t > Len(op) THEN <<0, 0>> ELSE CAdd(CMul(op[t].z, WordExp(op[t].w, F, gr)), OpExpFrom(op, F, gr, t + 1))
OpExp(op, F, gr) == OpExpFrom(op, F, gr, 1)
(* tolerances, in units of 10^-12 (the harness logs floor(x * 10^12) clipped to 2^30); single source of truth for "round-off level" *)
TolMetric == 100            \* Hermiticity defect and most negative eigenvalue of a bond metric, relative to its norm: 1e-10
TolTrunc == 100000          \* truncation error reported by a non-binding evolution step: 1e-7 (square root of round-off in the metric)
=============================================================================
