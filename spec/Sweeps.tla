------------------------------- MODULE Sweeps -------------------------------
(* The sweep schedules of dmrg_ and tdvp_ as event sequences on the environment cache (see SweepsMC for the design check). *)
EXTENDS EnvCoherence

SweepTo(n, to) == IF to = "last" THEN [k \in 1..n |-> k - 1] ELSE [k \in 1..n |-> n - k]
RECURSIVE CatRange(_, _, _)
CatRange(ss, lo, hi) == IF lo > hi THEN <<>> ELSE IF lo = hi THEN ss[lo] ELSE LET mid == (lo + hi) \div 2 IN CatRange(ss, lo, mid) \o CatRange(ss, mid + 1, hi)
Cat(ss) == CatRange(ss, 1, Len(ss))
Nb(n, to) == IF to = "last" THEN n + 1 ELSE n - 1
(* absorb_central_ after orthogonalize_site_(n, to): the block goes into the neighbour in direction `to`, or back into n at the edge *)
AbsorbW(nn, n, to) == IF Nb(n, to) \in 0..(nn - 1) THEN <<"write", Nb(n, to)>> ELSE <<"write", n>>
(* ---- DMRG ---- *)
Dmrg1(nn) == Cat([d \in 1..2 |-> LET to == IF d = 1 THEN "last" ELSE "first" IN
               Cat([k \in 1..nn |-> LET n == SweepTo(nn, to)[k] IN
                    << <<"heff1", n>>, <<"write", n>>, <<"write", n>>, AbsorbW(nn, n, to), <<"clear", n>>, <<"update", n, to>> >>])])
Dmrg2(nn) == Cat([d \in 1..2 |-> LET to == IF d = 1 THEN "last" ELSE "first"  dn == IF d = 1 THEN 0 ELSE 1  bonds == SweepTo(nn - 1, to) IN
               Cat([k \in 1..(nn - 1) |-> LET n == bonds[k] IN
                    << <<"heff2", n, n + 1>>, <<"write", n>>, <<"write", n + 1>>, <<"write", IF to = "last" THEN n + 1 ELSE n>>,
                       <<"clear", n>>, <<"clear", n + 1>>, <<"update", n + dn, to>> >>])]) \o << <<"update", 0, "first">> >>
(* ---- variational compression (compression_): the same cache, reads by project_ket_on_bra_1 / _2 (logged as heff1 / heff2: they use the same two entries).        ---- *)
(* 1site: the central block left by orthogonalize_site_ is dropped (remove_central_) before the next projection, so no absorb inside the sweep; one absorb and one     *)
(* refresh at the very end.  2site: the schedule of 2-site DMRG.                                                                                                        *)
Comp1(nn) == Cat([d \in 1..2 |-> LET to == IF d = 1 THEN "last" ELSE "first" IN
               Cat([k \in 1..nn |-> LET n == SweepTo(nn, to)[k] IN
                    << <<"heff1", n>>, <<"write", n>>, <<"write", n>>, <<"clear", n>>, <<"update", n, to>> >>])]) \o << <<"write", 0>>, <<"update", 0, "first">> >>
Comp2(nn) == Dmrg2(nn)
(* ---- TDVP ---- *)
UpdC(nn, n, to) == LET b == IF to = "last" THEN <<n, n + 1>> ELSE <<n - 1, n>> IN
                   IF b[1] # -1 /\ b[2] # nn THEN << <<"heff0", b[1], b[2]>>, <<"evolveC", b[1], -1>> >> ELSE <<>>
Tdvp1(nn) == Cat([d \in 1..2 |-> LET to == IF d = 1 THEN "last" ELSE "first" IN
               Cat([k \in 1..nn |-> LET n == SweepTo(nn, to)[k] IN
                    << <<"heff1", n>>, <<"write", n>>, <<"evolve", n, 1>>, <<"write", n>>, <<"clear", n>>, <<"update", n, to>> >>
                    \o UpdC(nn, n, to) \o << AbsorbW(nn, n, to) >>])]) \o << <<"update", 0, "first">> >>
Tdvp2(nn) == Cat([d \in 1..2 |-> LET to == IF d = 1 THEN "last" ELSE "first"  dn == IF d = 1 THEN 1 ELSE 0  bonds == SweepTo(nn - 1, to)
                                     edge == IF d = 1 THEN nn - 1 ELSE 0 IN
               Cat([k \in 1..(nn - 1) |-> LET n == bonds[k] IN
                    << <<"heff2", n, n + 1>>, <<"write", n>>, <<"write", n + 1>>, <<"evolve2", n, 1>>,
                       <<"write", IF to = "last" THEN n + 1 ELSE n>>, <<"clear", n>>, <<"clear", n + 1>>, <<"update", n + 1 - dn, to>> >>
                    \o (IF n + dn # edge THEN << <<"heff1", n + dn>>, <<"write", n + dn>>, <<"evolve", n + dn, -1>> >> ELSE <<>>)])])
             \o << <<"clear", 0>>, <<"update", 0, "first">> >>
(* '12site': dq = decision sequence consumed by enlarge_bond calls, in call order *)
RECURSIVE T12(_, _, _, _, _, _)
T12(nn, to, k, two, dq, acc) ==            \* k = position in the sweep (1..nn); returns <<events, remaining decisions>>
    IF k > nn THEN <<acc, dq>>
    ELSE LET n == SweepTo(nn, to)[k]  dn == IF to = "last" THEN 1 ELSE 0
             outside == (n - 1 + dn < 0) \/ (n + dn >= nn)                                 \* enlarge_bond returns False for a bond outside the chain
             dq0 == IF outside THEN <<FALSE>> \o dq ELSE dq IN
         IF ~two
         THEN IF Head(dq0)                                                                  \* enlarge_bond((n-1+dn, n+dn)) says: go two-site
              THEN T12(nn, to, k + 1, TRUE, Tail(dq0), acc)
              ELSE T12(nn, to, k + 1, FALSE, Tail(dq0),
                       acc \o << <<"heff1", n>>, <<"write", n>>, <<"evolve", n, 1>>, <<"write", n>>, <<"clear", n>>, <<"update", n, to>> >>
                           \o UpdC(nn, n, to) \o << AbsorbW(nn, n, to) >>)
         ELSE LET a == n - dn  b == n - dn + 1
                  ev2 == << <<"heff2", a, b>>, <<"write", a>>, <<"write", b>>, <<"evolve2", a, 1>>,
                            <<"write", IF to = "last" THEN b ELSE a>>, <<"clear", a>>, <<"clear", b>>, <<"update", n + 1 - 2 * dn, to>> >> IN
              IF Head(dq0)
              THEN T12(nn, to, k + 1, TRUE, Tail(dq0), acc \o ev2 \o << <<"heff1", n>>, <<"write", n>>, <<"evolve", n, -1>> >>)
              ELSE T12(nn, to, k + 1, FALSE, Tail(dq0), acc \o ev2 \o << <<"write", n>>, <<"update", n, to>> >> \o UpdC(nn, n, to) \o << AbsorbW(nn, n, to) >>)
Tdvp12(nn, dq) == LET r1 == T12(nn, "last", 1, FALSE, dq, <<>>)
                      r2 == T12(nn, "first", 1, FALSE, r1[2], <<>>) IN
                  r1[1] \o r2[1] \o << <<"clear", 0>>, <<"update", 0, "first">> >>
(* a run of several '12site' sweeps consuming one recorded decision sequence *)
Tdvp12R(nn, dq) == LET r1 == T12(nn, "last", 1, FALSE, dq, <<>>)
                       r2 == T12(nn, "first", 1, FALSE, r1[2], <<>>) IN
                   <<r1[1] \o r2[1] \o << <<"clear", 0>>, <<"update", 0, "first">> >>, r2[2]>>
RECURSIVE Multi12(_, _, _)
Multi12(nn, k, dq) == IF k = 0 THEN <<>> ELSE LET r == Tdvp12R(nn, dq) IN r[1] \o Multi12(nn, k - 1, r[2])
Schedule(nn, m, dq) == CASE m = "dmrg1" -> Dmrg1(nn) [] m = "dmrg2" -> Dmrg2(nn) [] m = "comp1" -> Comp1(nn) [] m = "comp2" -> Comp2(nn) [] m = "tdvp1" -> Tdvp1(nn) [] m = "tdvp2" -> Tdvp2(nn) [] m = "tdvp12" -> Tdvp12(nn, dq)
(* evolve / evolveC events only carry the time budget; they do not touch the cache *)
Cache(evs) == SelectSeq(evs, LAMBDA e : e[1] \notin {"evolve", "evolve2", "evolveC"})
Setup(nn) == [k \in 1..nn |-> <<"update", nn - k, "first">>]                \* setup_(to='first')
RECURSIVE Times(_, _)
Times(q, k) == IF k = 0 THEN <<>> ELSE q \o Times(q, k - 1)
(* time budget of one sweep: number of forward exponentials minus number of backward ones, and how often each site is covered by a forward one *)
Count(evs, P(_)) == Cardinality({k \in 1..Len(evs) : P(evs[k])})
NetSteps(evs) == Count(evs, LAMBDA e : (e[1] = "evolve" /\ e[3] = 1) \/ e[1] = "evolve2") - Count(evs, LAMBDA e : (e[1] = "evolve" /\ e[3] = -1) \/ e[1] = "evolveC")
Covered(evs, n) == Count(evs, LAMBDA e : (e[1] = "evolve" /\ e[3] = 1 /\ e[2] = n) \/ (e[1] = "evolve2" /\ e[2] \in {n - 1, n}))
                   - Count(evs, LAMBDA e : (e[1] = "evolve" /\ e[3] = -1 /\ e[2] = n))
=============================================================================
