----------------------------- MODULE MpsCanonMC -----------------------------
(* Design check for C08: all sequences of public gauge moves to a depth; the properties of the state machine. *)
EXTENDS MpsCanon
CONSTANT Depth
VARIABLES st, last
Init == st = Init0 /\ last = <<"init">>
Tos == {"first", "last"}
Next == \/ \E n \in Sites, to \in Tos, nz \in BOOLEAN : CanOrth(st) /\ st' = Orth(st, n, to, nz) /\ last' = <<"orth", n, to, nz>>
        \/ \E to \in Tos : st' = Absorb(st, to) /\ last' = <<"absorb", to>>
        \/ \E nz \in BOOLEAN, b \in BOOLEAN, sh \in BOOLEAN : st' = Diag(st, nz, b, sh) /\ last' = <<"diag", nz, b, sh>>
        \/ \E to \in Tos, nz \in BOOLEAN : st' = Canonize(st, to, nz) /\ last' = <<"canonize", to, nz>>
        \/ \E to \in Tos, nz \in BOOLEAN, b \in BOOLEAN : CanTruncate(st) /\ st' = Truncate(st, to, nz, b) /\ last' = <<"truncate", to, nz, b>>
Bound == TLCGet("level") <= Depth
(* after canonize_(to): canonical form, no central block; normalize => unit norm; ~normalize => exactness is not lost by this call *)
P_Canonize == last[1] = "canonize" => /\ IsCanonical(st, last[2]) /\ (last[3] => st.unit)
P_Truncate == last[1] = "truncate" => IsCanonical(st, last[2]) /\ ((last[3] /\ ~last[4]) => st.unit)
A_ExactOnlyLostByNormalizeOrBinding == [][(st.exact /\ ~st'.exact) => ((last'[1] \in {"orth", "canonize"} /\ last'[Len(last')] = TRUE) \/ last'[1] \in {"diag", "truncate"})]_<<st, last>>
I_Types == st.pC \in {NoC} \cup (-1..(N - 1)) /\ \A m \in Sites : st.iso[m] \subseteq {"L", "R"}
(* unit norm is only ever claimed when the whole chain is canonical around the centre or was canonised with normalisation *)
I_UnitMeansCentred == (st.unit /\ st.pC # NoC) => CentredAt(st, st.pC)
=============================================================================
