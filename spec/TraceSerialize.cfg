INIT TInit
NEXT TNext
