#!/usr/bin/env python3
"""Regenerates section 4 and the seed table of section 9 of DESIGN.md from MANIFEST.json, properties.jsonl and seeded/*/meta.json (run after tools/mkmanifest.py)."""
import json, glob, re, os
m=json.load(open('/verif/MANIFEST.json'))
props={json.loads(l)['id']:json.loads(l) for l in open('/verif/properties.jsonl')}
extra={
'C01': "Found: `get_blocks_charge/get_blocks_shape` ignored a pending lazy transposition (fix 02c60b9). Seeded: C01_B is caught here; C01_A (trace over fused legs) was first caught only by C03's S2 scenario - C01's generator now also draws traces over fused groups (section 9).",
'C02': "Found: `unfuse_legs` of several hard-fused legs on a lazily transposed tensor returned legs in the wrong order (fix 2d09454).",
'C03': "Found: `a+b` of hard-fused tensors with mismatched sectors under a shared lazy transposition attached fusion records to the wrong storage legs (fix 96dff94); two defects of `_masks_hfs_intersection` on blocked (sum) spaces - OverflowError for >= 5 nested products, 'Bond dimensions do not match' after a second fusion (fixes 77a2801, b2d5712), both first met by the thorough tier of C11 and now reproduced by scenario S9.",
'C04': "Departure from the plan: no separate `Factorize` module; the structure semantics lives in `TensorOps` (`LeftFactor`, `RightFactor`, `NewLeg`) so that factor results can flow into further tensor events of the same trace.",
'C05': "Found (open, known findings): the `ncon`/`einsum` swap scheduler fails for a swap that involves a traced label, and `_resolve_bad_swaps` asserts for some contraction orders (section 5). Both are reproduced and printed as KNOWN-FINDING on every run; any other deviation from the order-free value is a violation.",
'C06': "Departure from the plan: no separate `Chain`/`MpsAlgebra` modules - the MPS algebra is decided by the *tensor* reference semantics applied to dense representatives, which makes the oracle independent of any MPS-level modelling.",
'C07': "Found: `generate_mpo` failed when one of several terms has an identically vanishing on-site product (fix 0a73c1f); `Generator.mpo_from_latex` raised IndexError / KeyError for a negated or scaled sum whose body is a bracket (fix 9ef3f1f, found when the LaTeX request form was added).",
'C08': "Found: `diagonalize_central_` called twice in a row raised a NumPy error (fix db0b2ec).",
'C09': "Found: 2-site DMRG with a binding truncation returned an unnormalised, non-canonical state and an energy that is not `<H>` in it (fix 971fee6) - visible only as a *relation between logged numbers*, which is what the trace spec checks at every sweep.",
'C10': "Soundness carve-out found while building: for 1site / 12site, exactness on the full manifold is claimed only if every bond is one-sided (projector splitting keeps an O(dt^3) error otherwise although the manifold is the whole sector) - mathematics of the method, not a defect; claiming more would be a false alarm.",
'C11': "The thorough tier met two defects of the tensor layer (C03, fixes 77a2801 and b2d5712) through `fpeps.add(...).to_tensor()`. The circuit generator caps the bond dimension (32) before `to_tensor()`: exact splits multiply the bond dimension at every gate and one job of seed 1 needed > 20 GB (found by `vp check`).",
'C12': "Found: `EnvBoundaryMPS.measure_nn` ignored the fermionic order for parity-odd operators (fix d2e5291); `EnvCTM.measure_nsite_exact` raised on single-row/column lattices (fix cf5fb69); `EnvBoundaryMPS.measure_nsite` truncated to the bond dimension of the enclosing boundaries with no option to change it (fix 8d1b8c5). False alarm corrected while building: BP nearest-neighbour values were demanded on bonds outside the entanglement tree (BP is not exact there: the bond closes a loop of correlations) - now only tree bonds. Not claimed: `EnvCTM` as a *truncation* environment on finite lattices (`bond_metric` normalises by `g.trace(axes=(0,1))`, ill-defined when the two QR-reduced bond spaces differ, and `update_bond_` needs projectors that do not exist on open lattices) - outside the statement, recorded in section 5 as an observation. Departure from the plan: `PatchProtocol` was not written - on finite open lattices every site is its own patch; the protocol is covered by `LatticeStore` (C20).",
'C13': "Found: `eigh_with_truncation(which='SM'/'SR')` with both D limits binding kept nothing (fix fdf5297); `svd_with_truncation(policy='lowrank')` with a per-sector dictionary and the default `sU=1` looked the dictionary up with the wrong charges (fix f529d7e). `truncate_multiplets` and `mask_f` are not modelled (the statement does not cover them: they deliberately exceed `D_total`).",
'C14': "Found: `diag()` of a lazily transposed matrix returned storage-order signatures because `news == news[::-1]` was a comparison (fix 1b6717f). Planned known finding P6 (stored structurally-zero blocks differ between kernels) is *not* a finding: `ObsEq` compares on the union of legs (section 6.1), which is what the property states.",
'C15': "Found: `Peps2Layers.clone()` with a distinct bra raised TypeError (fix 67830f7).",
'C16': "`set_cache_maxsize` leaves import-time aliases on the old caches; modelled as is (`Resize` with aliases) - results are unaffected, not a violation.",
'C17': "Found: 5 defects (fixes 2e227ca, 4c261b3, 9f2812a, 4033486, f1245e7): Z2xU1 config string, empty tensor through legacy dict / HDF5, split of an MPS dictionary with a central block, TriangularLattice geometry lost in both dictionary formats.",
'C18': "Found by the thorough tier after a seeded change led to the block-coupling operator: `expmv` bounded the Krylov space by the stored size of the start vector and crashed (fix 7330808). Found by model checking alone: `expmv` never terminated when the retained basis exceeded `ncv_max` and a step was rejected (fix 9c578d6; `KrylovMC_old.cfg` keeps the old rule and must fail). Three open known findings (section 5). False alarm corrected (seed 1 of `vp check`): the relaxation case scaled the time by the norm of the *shifted* map, a narrow spectrum gave `exp(1000)` in the dense reference (NaN); the time is now scaled by the original norm and a non-finite reference is a skipped claim.",
'C19': "Apalache was tried on the group axioms (3.4 s, unbounded integers) in round 0; the registered check uses TLC on the box so that spec and code are compared on the same domain.",
'C20': "Found: `TriangularLattice(full_patch=True).bonds()` raised TypeError and listed bonds with a missing endpoint (fix c9878f1). Cylinder wrap-around bonds are exempt from fermionic ordering (impossible for any total order).",
}
seeded={}
for d in sorted(glob.glob('/verif/seeded/*/')):
    mm=json.load(open(d+'meta.json')); k=os.path.basename(d[:-1])
    diff=open(d+'patch.diff').read()
    files=sorted(set(re.findall(r'^\+\+\+ b/(\S+)',diff,re.M)))
    funcs=sorted(set(re.findall(r'^@@.*@@\s*(?:def|class)\s+(\w+)',diff,re.M)))
    det=mm.get('detected_by'); det=', '.join(det) if isinstance(det,list) else det
    seeded[k]=(', '.join(f.replace('yastn/','') for f in files), ', '.join(funcs)[:50], det)
out=['## 4. Per-property checks (as built)\n',
 'Each entry gives what the registered check does (the same text as `MANIFEST.json`, generated from `tools/mkmanifest.py`), its bounds, and what it found. `quick` / `thorough` differ only in the number of programs / runs / cases and the bounds given as `a/b`.\n']
for c in m['checks']:
    i=c['property_id']
    out.append('### %s — %s\n' % (i, props[i]['title']))
    out.append('**Check.** '+c['level_claimed']['text']+'\n')
    out.append('**Bounds and observed parts.** '+c['level_note']+'\n')
    out.append('**Technique.** '+c['technique']+'.\n')
    if i in extra: out.append('**Notes.** '+extra[i]+'\n')
    s=[k for k in seeded if k.startswith(i+'_')]
    out.append('**Seeded changes.** '+'; '.join('%s (%s) — %s' % (k, seeded[k][0], seeded[k][2]) for k in s)+'\n')
sec4='\n'.join(out)
rows=['| id | file | function | caught by |','|----|------|----------|-----------|']+['| %s | %s | %s | %s |' % (k, v[0], v[1], v[2]) for k,v in seeded.items()]
table='\n'.join(rows)+'\n'
D=open('/verif/DESIGN.md').read()
i=D.index('## 4. Per-property checks (as built)'); j=D.index('## 5. What the checks found')
D=D[:i]+sec4+'\n'+D[j:]
i=D.index('| id | file | function | caught by |'); j=D.index('\n\n', i)
D=D[:i]+table.rstrip('\n')+D[j:]
open('/verif/DESIGN.md','w').write(D)
print('DESIGN.md: section 4 (%d blocks) and the seed table (%d rows) regenerated' % (len(out), len(rows)-2))
