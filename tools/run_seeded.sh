#!/bin/bash
# usage: tools/run_seeded.sh <seed-id> <check-id> [more check ids]   applies seeded/<seed-id>/patch.diff to /repo, runs the quick checks, reverts
sid=$1; shift
git -C /repo diff --quiet || { echo "/repo has uncommitted changes"; exit 2; }
git -C /repo apply /verif/seeded/$sid/patch.diff || exit 2
for c in "$@"; do out=$(cd /verif && ./check $c --tier quick 2>&1); echo "$sid vs $c: $(echo "$out" | grep -c '^VIOLATION') violation lines | $(echo "$out" | grep -E "^$c quick|MACHINERY" | tail -1 | cut -c1-160)"; done
git -C /repo checkout -- .
cd /verif && git checkout evidence 2>/dev/null
