#!/usr/bin/env python3
"""Confirm a seeded change produced by a sub-agent in a scratch worktree of /repo (never in /repo itself):
   patch applies, full test-suite passes with it, demo fails with it and passes without it.
   usage: confirm_seed.py <PID> <LETTER> [<PID> <LETTER> ...]   reads /tmp/seed_out/<PID>/<LETTER>.diff, demo_<LETTER>.py
   writes /verif/seeded/<PID>_<LETTER>/{patch.diff, demo.py, meta.json} when confirmed."""
import json, os, re, shutil, subprocess, sys, time
ENV = dict(os.environ, OPENBLAS_NUM_THREADS='1', OMP_NUM_THREADS='1', MKL_NUM_THREADS='1')


def sh(cmd, cwd=None, env=None, timeout=3600):
    p = subprocess.run(cmd, shell=True, cwd=cwd, env=env or ENV, stdout=subprocess.PIPE, stderr=subprocess.STDOUT, text=True, timeout=timeout)
    return p.returncode, p.stdout


def confirm(pid, letter):
    src = '/tmp/seed_out/%s' % pid
    wt = '/tmp/wt/confirm_%s_%s' % (pid, letter)
    sh('git -C /repo worktree remove --force %s' % wt)
    rc, out = sh('git -C /repo worktree add -q --detach %s HEAD' % wt)
    assert rc == 0, out
    res = {'property': pid, 'letter': letter, 'base_commit': sh('git -C /repo rev-parse HEAD')[1].strip()}
    try:
        env = dict(ENV, PYTHONPATH=wt)
        rc0, o0 = sh('/venv/bin/python %s/demo_%s.py' % (src, letter), cwd='/tmp', env=env, timeout=1200)
        res['demo_without_change_rc'] = rc0
        rc, out = sh('git apply %s/%s.diff' % (src, letter), cwd=wt)
        res['applies'] = rc == 0
        if rc != 0:
            res['apply_error'] = out[-400:]
            return res
        rc1, o1 = sh('/venv/bin/python %s/demo_%s.py' % (src, letter), cwd='/tmp', env=env, timeout=1200)
        res['demo_with_change_rc'] = rc1
        res['demo_with_change_tail'] = o1[-300:]
        t0 = time.time()
        rc, out = sh('/venv/bin/python -m pytest -q -p no:cacheprovider --timeout=900 -n 8 tests', cwd=wt, env=env, timeout=5400)
        failed_ids = re.findall(r'FAILED (\S+)', out)
        if failed_ids and len(failed_ids) <= 6:      # xdist workers share tmp file names (hdf5 lock): rerun the failures serially
            rc2, out2 = sh('/venv/bin/python -m pytest -q -p no:cacheprovider --timeout=900 ' + ' '.join(failed_ids), cwd=wt, env=env, timeout=3600)
            if rc2 == 0:
                npass = int(re.findall(r'(\d+) passed', out)[-1]) + len(failed_ids)
                out = out + '\n(serial rerun of %d xdist failures passed)\n%d passed, rerun ok' % (len(failed_ids), npass)
                rc = 0
        m = re.findall(r'(\d+) passed', out)
        f = re.findall(r'(\d+) failed', out) if rc != 0 else []
        res['tests_rc'] = rc
        res['tests_summary'] = out.strip().splitlines()[-1] if out.strip() else ''
        res['tests_passed'] = int(m[-1]) if m else 0
        res['tests_failed'] = int(f[-1]) if f else 0
        res['tests_wall_s'] = round(time.time() - t0)
        res['confirmed'] = bool(rc0 == 0 and rc1 != 0 and rc == 0 and res['tests_passed'] >= 362 and res['tests_failed'] == 0)
    finally:
        sh('git -C /repo worktree remove --force %s' % wt)
    if res.get('confirmed'):
        d = '/verif/seeded/%s_%s' % (pid, letter)
        os.makedirs(d, exist_ok=True)
        shutil.copy('%s/%s.diff' % (src, letter), d + '/patch.diff')
        shutil.copy('%s/demo_%s.py' % (src, letter), d + '/demo.py')
        notes = open(src + '/notes.md').read() if os.path.exists(src + '/notes.md') else ''
        meta = {'property': pid, 'breaks': pid, 'source': 'independent sub-agent given only the property text and a scratch worktree',
                'needs_to_manifest': '(see agent_notes)', 'agent_notes': notes[:6000],
                'confirmed_by': 'tools/confirm_seed.py in scratch worktree %s (removed afterwards)' % wt,
                'ran': {'tests': '/venv/bin/python -m pytest -q -p no:cacheprovider --timeout=900 -n 8 tests -> ' + res['tests_summary'],
                        'demo_without_change_rc': rc0, 'demo_with_change_rc': rc1, 'base_commit': res['base_commit']},
                'detected_by': None}
        json.dump(meta, open(d + '/meta.json', 'w'), indent=1)
    return res


if __name__ == '__main__':
    a = sys.argv[1:]
    for pid, letter in zip(a[0::2], a[1::2]):
        try:
            r = confirm(pid, letter)
        except Exception as e:  # noqa
            r = {'property': pid, 'letter': letter, 'error': repr(e)}
        print(json.dumps(r), flush=True)
        open('/tmp/seed_out/confirm.log', 'a').write(json.dumps(r) + '\n')
