#!/bin/bash
# usage: tools/thoroughsweep.sh [ids...]   runs every thorough check once (seed $VERIF_SEED or 0), one line per run (for vp run)
ids="$@"; [ -z "$ids" ] && ids="C19 C20 C13 C01 C02 C03 C04 C05 C06 C07 C08 C09 C10 C11 C12 C14 C15 C16 C17 C18"
for id in $ids; do
  t0=$(date +%s)
  ./check $id --tier thorough > /tmp/thor_$$.log 2>&1; rc=$?
  echo "$id rc=$rc $(( $(date +%s) - t0 ))s $(grep -c '^VIOLATION' /tmp/thor_$$.log) violations | $(grep -E '^(VIOLATION|MACHINERY|  what)' /tmp/thor_$$.log | head -3 | cut -c1-500 | tr '\n' ' ') | $(grep -E "^$id thorough" /tmp/thor_$$.log | cut -c1-160)"
done
rm -f /tmp/thor_$$.log
