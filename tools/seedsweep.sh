#!/bin/bash
# usage: tools/seedsweep.sh "<seeds>" [ids...]   runs every quick check for each seed, prints one line per run (for vp run)
seeds="$1"; shift
ids="$@"; [ -z "$ids" ] && ids="C01 C02 C03 C04 C05 C06 C07 C08 C09 C10 C11 C12 C13 C14 C15 C16 C17 C18 C19 C20"
for s in $seeds; do for id in $ids; do
  t0=$(date +%s)
  VERIF_SEED=$s ./check $id --tier quick > /tmp/sweep_$$.log 2>&1; rc=$?
  echo "seed=$s $id rc=$rc $(( $(date +%s) - t0 ))s $(grep -c '^VIOLATION' /tmp/sweep_$$.log) violations | $(grep -E '^(VIOLATION|MACHINERY|  what)' /tmp/sweep_$$.log | head -3 | cut -c1-400 | tr '\n' ' ')"
done; done
rm -f /tmp/sweep_$$.log
