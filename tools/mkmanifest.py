#!/usr/bin/env python3
"""Generates /verif/MANIFEST.json from the table below (single place where claims are recorded)."""
import json, os
V = os.path.dirname(os.path.dirname(os.path.abspath(__file__)))
props = [json.loads(l) for l in open(os.path.join(V, 'properties.jsonl'))]
MC = 'model_checking'
CHECKS = {
 'C19': dict(level=MC, ref='4 C19',
    text='TLC model-checks the abelian-group axioms (closure, associativity, commutativity, identity, inverse by signature flip, grouping) of the '
         'parametric law Charges!Add exhaustively on the box; every point of the same box is run through the real sym.fuse/add_charges and TLC '
         '(TraceCharges) requires equality with Add, so the axioms transfer to the code on the box. Leg: TLC enumerates constructor arguments in and '
         'one step outside the valid domain with the expected outcome (Legs.tla), each replayed into yastn.Leg; conj() involution/duality checked on every accepted leg.',
    note='bounded: U(1) components |t|<=B (B=2/1 quick, 3/2 thorough), tuples of <=3 charges, <=3 sectors per leg; NumPy backend; trusts TLC and the JSON trace encoding',
    technique='TLA+ spec (Charges, Legs) + TLC exhaustive model checking + trace validation of real fuse calls (I->S) + TLC-enumerated constructor cases replayed into code (S->I)'),
}
CHECKS['C20'] = dict(level=MC, ref='4 C20',
    text='Lattice.tla defines every geometry as finite tables with 10 invariants (neighbour lookup = square lattice with the declared boundary, mutual inverse, '
         'index kernel, unique sites, periods and only those, bonds NN/lattice order/fermionic order/unique classes, total order). TLC checks them on the model for '
         'every geometry in the bound and, in TraceLattice, on the complete tables OBSERVED from every real geometry object in the same bound (constructor outcome '
         'vs ValidPattern included). LatticeStore.tla (container + patch commit protocol) is explored exhaustively to a depth and every transition is replayed on a real fpeps.Lattice.',
    note='bounded: SquareLattice dims<=4x4 (quick) / 5x5 (thorough) x 3 boundaries, TriangularLattice both variants (full patch <=3x3), Checkerboard, RectangularUnitcell all patterns '
         'over 3 labels up to 2x3/3x2 (+2-label 3x3, 2x4) quick; over 4 labels up to 3x3, 2x4, 4x2 (+2-label 4x4, 3-label 3x4) thorough; window [-N,2N)^2; store depth 3/4 with 2 objects on 6 geometries. '
         'Cylinder wrap-around bonds are exempt from fermionic ordering (impossible for any total order).',
    technique='TLA+ spec (Lattice, LatticeStore) + TLC exhaustive model checking + trace validation of observed tables (I->S) + one implementation test per spec transition (S->I)')
CHECKS['C13'] = dict(level=MC, ref='4 C13',
    text='Truncation.tla transcribes the selection rule as a two-stage nondeterministic relation on integer spectra (ties are the only freedom). TLC explores every '
         '(spectrum, options) of the bound through both stages and checks limits / top-per-block / top-global / maximality / ties-only / non-binding / weight on every reachable '
         'mask. Each input is then one call of the real truncation_mask; TLC (TraceTruncation) accepts iff the returned mask is in Admissible(sp, o), inferring the hidden stage-1 '
         'survivors. svd_with_truncation / eigh_with_truncation run on operands with prescribed integer spectra (complex, rank-3, non-zero charge, sU/nU variants, policy fullrank / lowrank / block_arnoldi / block_propack '
         'with different limits per sector, eigh with which in LR/LM/SM/SR - smallest-first orders are validated on the order-reversed spectrum): kept spectrum '
         'per sector and squared error must be an admissible outcome.',
    note='bounded: <=2 sectors x <=3 values in 0..2 (quick) / 0..3 + 3 sectors + unsorted (thorough); D_total in {0,1,2,3,5,inf}, D_block scalar {0,1,2,inf} or dict with missing keys, '
         'tol/tol_block in {0,1/3,1/2,1} scalar or dict. Decompositions: spectra without exact zeros and tolerances off exact boundaries (float round-off decides there); '
         'error equality observed at 1e-6 on integers. truncate_multiplets / mask_f are outside the statement (they deliberately exceed D_total); policy krylov (a global solver marked WIP in the source, D_block is read as the total number of values) and randomized (not available on the NumPy backend) are not exercised.',
    technique='TLA+ spec (Truncation) + TLC exhaustive model checking + trace validation: one implementation test per spec input, membership in the admissible set decided by TLC')
TT = ('programs executed on real yastn tensors; every event logs the observed abstract state alpha(result) (or the rejection) and TLC (TraceTensor.tla, batched trace validation) '
      'recomputes the result from the OBSERVED operands with the label-based reference semantics of TensorOps.tla in exact Gaussian-integer arithmetic, independently of yastn and NumPy')
CHECKS['C01'] = dict(level=MC, ref='4 C01',
    text=TT + '. Decided per event: acceptance vs YastnError, every element value, total charge, signatures, documented leg order, admissible leg sectors, '
         'fusion trees, and that block access / to_numpy / to_nonsymmetric / get_blocks_* describe the same array. Ops: add/sub/n-ary add with amplitudes, scalar mult, conj, conj_blocks, '
         'flip_signature, flip_charges, transpose, tensordot (outer, diagonal operands, conj flags), vdot, trace, add_leg, remove_leg, fuse/unfuse, copy, consume_transpose.',
    note='bounded: ranks 0..4, <=3 sectors per leg, dims 1..2, programs of 7 (quick) / 9 (thorough) steps, 320 / 4000 programs over all 7 symmetries, real+complex, diagonal operands; '
         'broadcast/apply_mask/diag/ncon/einsum are exercised in C05/C14 (ncon, einsum, swap_gate) and not yet as separate C01 events; alpha reads fused tensors through unfuse_legs',
    technique='TLA+ reference semantics (TensorOps) + TLC trace validation of recorded programs (I->S), state = observed registers')
CHECKS['C02'] = dict(level=MC, ref='4 C02',
    text=TT + '. WellFormed (abstract view) and RawOK (raw block structure: charge rule under Charges!Add for every stored block, unique ordered blocks, one dimension per (leg, charge), '
         'size, is_consistent()) are conjuncts of every event; Inv_WF is an INVARIANT over all registers after every event; the charge law of each operation is part of its reference. '
         'Program profile: ranks up to 6+, n-ary additions over operands in different lazy-transposition states, add_leg/remove_leg over fused groups with mixed signatures, both fusion modes.',
    note='bounded as C01 but ranks up to 6 (one or two sectors per leg), 9/12-step programs, 420/6000 programs; factorisation results are checked with the same operators in C04. Programs are generated and run under all three tensordot policies and both default fusion modes (knob rotates with the seed); diag() of (lazily transposed) matrices is part of the profile',
    technique='TLA+ invariant (WellFormed / RawOK / Inv_WF) evaluated by TLC on every observed state of recorded programs')
CHECKS['C03'] = dict(level=MC, ref='4 C03',
    text=TT + '. In the spec fusion only regroups native legs (fusion trees), never touches an element, so unfuse(fuse(x)) = x, norm invariance and "operations over fused legs = operations over '
         'the original legs, missing sectors are zeros" hold by construction and are decided on the implementation. Scenarios: S1 binary ops over identically fused operands whose legs are '
         'independent subsets of one universe (equal/overlapping/disjoint content), S2 trace over fused legs, S3 incompatibly fused operands (order, partition, mode, hidden constituent signature) '
         'must end in YastnError, S4 fuse to depth<=3 / unfuse roundtrip; hard, meta and mixed; lazy transpositions; S9: contraction over BLOCKED nested hard-fused legs with different sector '
         'content (sum of products of spaces, also fused once more after blocks were removed on one side) as a "route" event - the value must equal the validated sum of the plain tensordots.',
    note='bounded: ranks 2..4, universes of 2-3 charges, dims 1..2, 1260 (quick) / 12000 (thorough) scenarios; S8: yastn.block - super-tensors of 2-4 operands on a grid along 1-2 blocked legs with common legs, reference TensorOps!Block (labels shifted by the dimensions of the earlier positions), then norm / contraction over the blocked leg / transposition of the result; blocking of hard-fused operands is covered by S9 (2-6 pairs of rank-4 operands, three legs fused flat / left- / right-nested or two legs fused and the blocked leg fused once more after a contraction removed blocks on one side; the blocked tensors themselves cannot be read through unfuse_legs, so the VALUE of their contraction is compared); two-step blocking not covered. Added scenarios: S5 sparse operands contracted in place over 2-3 legs (original vs fused, depth 1-2), S6 contractions whose merged operand needs zero padding of exactly the size of the partner-less blocks, S7 n-ary sums with a dimension conflict hidden inside a hard-fused group and invisible from the first operand (TraceTensor!MustRejectHidden: must be rejected in every operand order); all scenarios rotate over the three policies x two default modes',
    technique='TLA+ label model of fusion (TensorOps) + TLC trace validation of recorded scenario programs')
CHECKS['C14'] = dict(level=MC, ref='4 C14',
    text='Hyper-traces: one generated program is executed under 8 configurations (3 tensordot policies x 2 default fusion modes + 2 force_fusion settings) and under 3 placements of '
         'consume_transpose()/copy() on operands. Each execution is validated by TLC against the same exact reference (TraceTensor, so values / charge / signature agree with the reference and '
         'hence with each other), and TraceHyper.tla compares the executions with each other event by event: outcome, signature, charge, fusion-tree shapes and legs (ObsEqAll).',
    note='bounded: 140 (quick) / 2100 (thorough) programs of 7/9 steps from tensordot, add, trace, transpose, fuse/unfuse, conj, vdot, diag, broadcast, apply_mask, add/remove_leg; '
         'svd/qr are compared across policies in C04 (gauge-invariant observables); contract_with_unroll: 84/1200 random networks (no swaps, no traced labels) through 2 optimizers, unrolled by charge sector, sliced uniformly (1, 2), one or two labels at once, contracted and output labels - every result must be the order-free value of TensorOps!Ncon (one fix recorded); operands without blocks and unroll specifications that turn an operand into a scalar are excluded (get_contraction_path cannot size them), the non-exported contract_with_unroll_compute_constants is not exercised. One open KNOWN FINDING (stored structurally-zero blocks of the fusing '
         'kernels change get_legs() of later results): its canonical reproducer runs in every check; only leg differences confined to all-zero sectors match it. Programs that mix an explicit fusion mode with the default one are different computations under each default (hard- and meta-fused legs cannot be combined, C03): they are compared across policies and lazy placements within one default mode only (counted in the evidence)',
    technique='TLA+ hyper-property over executions (TraceHyper) + per-execution trace validation against TensorOps')
CHECKS['C05'] = dict(level=MC, ref='4 C05',
    text='(a) swap_gate / swap_gate(charge=): recorded programs under fermionic True/False/per-component flags validated by TLC against TensorOps!SwapGate/SwapCharge (sign fixed by the parities of the '
         'swapped charges in the fermionic components only; involution and identity-when-bosonic follow from the reference). (b) ncon/einsum: for random small networks with swaps on open and '
         'contracted legs and tensors of odd/even charge, the real result for EVERY contraction order (<=24) and einsum must equal the single ORDER-FREE value TLC computes with TensorOps!Ncon '
         '(sum over label assignments with the crossing signs). (c) fkron: FockMC.tla model-checks the CAR for the graded Fock model (all / per-species / none), and TraceFock.tla requires the dense matrix '
         'of every fkron call (all site permutations and application orders of <=3 operators, spinless Z2/U1 and spinful Z2/U1/U1xU1/U1xU1xZ2) to equal the ordered operator product.',
    note='bounded: 150/2500 swap programs, 600/8000 networks of 2-4 tensors with two sectors per leg and mostly dimension one, <=24 orders each; fkron <=3 operators; two KNOWN FINDINGS (ncon scheduler: '
         'swap on a traced label; AssertionError in _resolve_bad_swaps) are reproduced and reported on every run. One network in four is disconnected (outer product of two pieces with different numbers of open legs, swaps between open legs of different pieces)',
    technique='TLA+ reference semantics (TensorOps!SwapGate/Ncon, Fock) + TLC model checking of the CAR + trace validation of recorded calls for all contraction orders')
CHECKS['C16'] = dict(level=MC, ref='4 C16',
    text='LruCache.tla models the caches as instances (maxsize, LRU order, stored values) bound to call sites, with set_cache_maxsize creating new instances while import-time aliases keep the old '
         'one; TLC checks size, entries-never-altered and transparency (result = F(key)) over all histories to depth 7. Binding without source change: every lru_cache binding in yastn.tensor.* is '
         'proxied; each real call logs key digest (up to Python key equality), hit/miss, digest of the returned value and of an uncached recomputation; TraceLruCache.tla requires the event sequence '
         'to be a behaviour of the model with ret = recomputation on every call and ret = stored value on every hit. Hyper part: programs replayed in ONE process under configurations sharing block '
         'layout but differing in symmetry group / fermionic flags, with caches warm, cold, size one, and cleared/resized at arbitrary points: all results bit-identical. The tensordot policy rotates over the programs (each policy has its own cached plans).',
    note='bounded: 3 families (U1/Z2/Z3; U1xU1 & Z2xU1 with 4 fermionic flag settings; U1xU1xZ2) x 18 (quick) / 180 (thorough) programs incl. operands fused from different sector content and contractions over 2-3 legs x 5 cache modes x 3 tensordot policies; every lru_cache instance is emptied before a trace starts; '
         '14+ cached functions exercised (vacuity gate: >= 10); oe_blocksparse path cache not included',
    technique='TLA+ state machine of LRU caches (LruCache) + TLC exhaustive + trace validation of proxied real cache calls + hyper-trace over cache states')
CHECKS['C15'] = dict(level=MC, ref='4 C15',
    text='Heap.tla: objects with an observable value and a may-share relation; actions Pure (result may share with operands, nothing changes), Fresh (copy/clone: shares with nothing) and InPlace '
         '(may change the receiver and what shares storage with it); TLC checks the three action properties and copy isolation on all histories (<=4 objects, depth 6). Binding: drivers call the public '
         'API on real tensors, MPS/MPO and PEPS; around every call the recorder digests EVERY live object (struct, slices, data bytes, fusion records, lazy permutation; N/pC/factor/site tensors; site data '
         'and patch) and probes numpy.shares_memory of every new object with every live one; TraceHeap.tla validates each event against the model.',
    note='bounded: 60/900 tensor call sequences of 14/18 calls over all symmetries (pure ops of C01 + copy/clone/shallow_copy + set_block + block-view writes), 18/240 MPS sequences (add, mul, conj, apply, '
         'measure, to_tensor, reverse, copy/clone/shallow_copy, canonize_/truncate_/orthogonalize_site_/absorb_central_/item assignment), 4/24 PEPS sequences (copy/clone/shallow_copy, item assignment, '
         'apply_gate_, Peps2Layers copy/clone, copy/clone/shallow_copy/item assignment/block-view write while a patch is open); element-wise and scalar functions (abs, real, imag, exp, sqrt, rsqrt, reciprocal, '
         'pow, entropy, truncation_mask, to_dense / to_numpy / to_nonsymmetric / to_dict, norms) as pure calls; a rejected pure call must change nothing either; 4/24 environment sequences (EnvCTM / EnvBP copy, clone, shallow_copy, measure_*, update_ / expand_outward_ / reset_ / iterate_, assignment and block-view write '
         'into an environment tensor, EnvNTU.bond_metric, EnvBoundaryMPS, mps.Env setup_ / update_env_ / measure, one dmrg_ sweep: the PEPS / MPS / MPO they are built from are watched like every other object); the API list is explicit in the drivers, not introspected',
    technique='TLA+ aliasing model (Heap) + TLC + trace validation of recorded public calls with before/after digests of all live objects')
CHECKS['C17'] = dict(level=MC, ref='4 C17',
    text='Serialize.tla is a state machine over serialisation FORMS (obj, dict, split, legacy, hdf5, done) tracking level and whether a pending permutation is still pending; TLC explores ALL routes to '
         'depth 6 (to_dict level 0..2 with/without resolve_ops, older-generation dict, split/combine repeatedly, numpy save/load, legacy save_to_dict, HDF5, from_dict with config none/same/other '
         'symmetry/other statistics) for tensors, MPS, MPO, periodic MPO, PEPS and the environments EnvCTM (with projectors), EnvBP, EnvBoundaryMPS, checks the outcome invariant and emits every terminal case. Each case is replayed on real objects (S->I) and TraceSerialize.tla decides: '
         'outcome as the route implies (restored vs YastnError), restored object observationally identical (legs incl. fusion history, charge, dtype, values, geometry), same follow-up contraction, '
         'pending-permutation semantics; to_dict(meta=) is checked as an exactly linear, norm-preserving, invertible map that rejects tensors outside the layout.',
    note='bounded: 40 tensor variants (plain, complex, diagonal, hard/meta/nested fused, empty, scalar x 5 symmetries; lazily transposed or not), MPS plain/central block/non-unit factor in 3 symmetries, '
         'MPO, PEPS on 7 lattice types x 2 symmetries, 10 environments (EnvCTM after update_, EnvBP after iterate_, EnvBoundaryMPS; 2x2 obc and checkerboard, U1 / Z2) observed as state + every environment tensor / projector / '
         'boundary MPS / info, follow-up = measure_1site; the deprecated save_to_dict format of environments stores no projectors and recomputes the square-root messages of EnvBP on loading (not compared on that route); '
         'quick replays a seeded 20% of case x variant for tensors and environments; periodic MPO (with a non-unit factor) through the dictionary routes only (the deprecated save_to_dict raises AttributeError for it, hdf5 is not offered); Peps2Layers, DoublePepsTensor not covered',
    technique='TLA+ state machine of serialisation routes (Serialize) + TLC exhaustive enumeration + replay of every terminal case into code + trace validation of observed outcomes')
CHECKS['C04'] = dict(level=MC, ref='4 C04',
    text='svd / qr / eigh events inside recorded programs (operand possibly lazily transposed and fused hard/meta; Hermitian operands A A^+ with legs of different fusion history). TLC (TraceTensor + '
         'TensorOps!LeftFactor/RightFactor/NewLeg) computes the STRUCTURE of every factor exactly from the observed operand: legs and inherited fusion trees, position and signature of the connecting '
         'leg, its charge sectors from the effective charges of the bipartition under Charges!Add (four sU/nU cases), dimension min(rows, cols) (exact when all blocks are stored, upper bound otherwise), '
         'which factor carries the total charge, agreement of U/S/V on the connecting space, raw well-formedness; operands with prescribed integer spectra are compared per sector.',
    note='reconstruction, isometry / co-isometry, non-negativity and ordering of S, upper-triangularity and non-negative diagonal of R are floating-point facts MEASURED by the harness (tolerance 1e-10 '
         'relative, named in the check) and enter the trace as verdict bits that the spec requires to be TRUE - observed, not modelled. low-rank policies: C13. '
         'bounded: 480 (quick) / 8000 (thorough) programs, ranks 2..6, all symmetries. eig (general eigendecomposition): structure of U, S, V (TensorOps, as svd with square sectors), reconstruction and V U = 1 (1e-8) on generic non-degenerate square operands incl. groups that are meta-fused differently; one open KNOWN FINDING: eig on a sector with a degenerate spectrum (rescaling of arbitrarily paired left/right eigenvectors); eig is not called on operands with a defective or nearly defective sector (condition number of the eigenvector matrix > 1e6, e.g. an integer Jordan block): no eigendecomposition exists there, the count is in the evidence',
    technique='TLA+ structure semantics of factorisations (TensorOps) + TLC trace validation; numeric clauses as measured verdicts')
CHECKS['C06'] = dict(level=MC, ref='4 C06',
    text='Registers hold alpha(to_tensor()) of real MPS/MPO objects whose site tensors are small integers, so every object has an exact Gaussian-integer dense representative. TLC (TraceTensor m_* events) '
         'recomputes every result of the MPS algebra from the OBSERVED operands with the tensor reference semantics: sums with amplitudes (LinComb fold), scalar multiplication and division incl. the '
         'separate norm factor (|c| bookkeeping), MPO@MPS (Dot over bra legs), MPO@MPO, conj, transpose, conjugate-transpose, reverse_sites; measure_overlap / measure_mpo (single MPO, sums of MPOs with '
         'amplitudes, charged MPOs and their conj/H between the states they connect) are exact numbers. zipper, compression_ (1site / 2site, also every intermediate yield of the iterator, normalize=False) and '
         'mps_from_tensor contain SVD/QR: their dense result is rounded and must be EXACTLY the integer product / the source tensor. Periodic MPOs: the ring of site tensors is contracted with tensor events '
         '(tensordot / transpose / trace, each validated by TLC) and MpoPBC.to_tensor(), also with a non-unit factor, must be a copy of that register; measure_mpo(bra, MpoPBC, ket) must equal the vdot computed from it. '
         'The environment protocol of every compression_ run is recorded from outside and validated by TraceEnv: every read of the cache fresh (EnvCoherence) and the cache events exactly Sweeps!Comp1 / Comp2 per sweep '
         '(SweepsMC model-checks these schedules together with those of dmrg_ / tdvp_).',
    note='bounded: chain lengths 1..4 (dense representative <= 300 elements), bond dimension 1..3, 12 families (spin-1/2, spin-1, spinless, spinful fermions x symmetries), 240/4000 expression programs of '
         '10/14 steps, 120/2000 periodic-MPO programs (N=1..3). Results of zipper / compression_ / mps_from_tensor are compared after rounding (integers within 1e-7 relative); compression_ is started from the zipper '
         'result (a random start need not converge in a few sweeps); sums of MPOs with a periodic MPO and MpoPBC @ Mpo (unsupported by the library) not covered; the zero state (empty site tensors) is not used as an operand',
    technique='TLA+ tensor reference semantics applied to dense representatives + TLC trace validation of recorded MPS expression programs')
CHECKS['C07'] = dict(level=MC, ref='4 C07',
    text='Reference = Fock.tla (graded Jordan-Wigner model; CAR model-checked in FockMC). TraceMpoGen.tla decides (i) generate_mpo: the MPO matrix (local basis translated to occupations via the '
         'library number operators) equals, entry by entry in Gaussian integers, the sum over terms of amplitude x operator word applied in the given order (repeated sites, any order, custom f_map '
         'placing sites in the fermionic order); (ii) measure_1site / measure_2site (single bonds i<j, i=j, i>j and every string pattern) / measure_nsite on integer MPS equal <bra| word |ket> on the '
         'Fock vectors, with bra != ket in the sector the product maps to; (iii) the LaTeX-like Generator: random expressions of its documented language (sums over one index or index tuples of named sets, '
         'nested sums, scalar / indexed parameters, literals, (-1), leading and infix minus, products, a parenthesised sum of two products, site labels through the map) are requested with mpo_from_latex and the MPO '
         'must equal the expansion of the expression into amplitude x operator words (the expansion is the meaning; every word is decided by TLC); (iv) rdm on 1-3 distinct sites in any order: Tr(rho . O_0 x O_1 ..) '
         'with the operators multiplied by fkron in the order of the listed sites equals <psi| word |psi>. Spin-1/2 runs with the grading "none" (bosonic: no strings); U1xU1 spinful with per-species grading.',
    note='bounded: chain lengths 2..4 (<= 6 modes), 1-3 terms of 1-4 operators from {n, c, cp} / {nu, nd, cu, cd, cpu, cpd, Sp, Sm, nund}, 64/960 jobs x 14/20 events; operator indices written as literal numbers in a LaTeX expression are not used (they are strings for the Generator and are not looked up in an integer map); generate_mpo output rounded to Gaussian integers at 1e-9 (SVD compression inside). measure_1site is also asked for all sites, for site lists and for dictionaries {site: operator} in any key order; sample(): for every drawn configuration the returned probability (logged as the integer nearest to p <psi|psi> m^N) must equal the Born rule |sum_S conj(u(S)) psi(S)|^2 computed by TLC - occupation basis in every symmetry, x / y bases (complex local vectors) in Spin12/dense; one-mode families only',
    technique='TLA+ Fock-space reference (Fock) + TLC trace validation of recorded generate_mpo / measure calls')
CHECKS['C08'] = dict(level=MC, ref='4 C08',
    text='MpsCanon.tla: the gauge state machine of MpsMpoOBC (central-block position, per-site left/right isometry flags, exact-state / same-ray / unit-norm guarantees) with orthogonalize_site_, '
         'absorb_central_, diagonalize_central_, canonize_, truncate_ written as the compositions the code performs; TLC checks its properties over all sequences of public moves (N=3, depth 5). '
         'Binding: recorded random move sequences on real MPS and MPO; TraceMpsCanon.tla evolves the model with the same moves (incl. moves that must be rejected with YastnError) and requires every '
         'guarantee of the model state to be confirmed by measurement after every move; honest truncation: opposite canonical form, binding limits, reported discarded weight vs true error.',
    note='isometry (1e-10), same state / ray / unit norm (1e-9), library is_canonical, norm(), Schmidt values and entropies against numpy SVD of the dense state (1e-8), discarded weight vs true '
         'relative error (1e-7) are floating-point facts MEASURED by the harness and enter as verdict bits - observed, not modelled; the model decides which guarantees must hold. bounded: N=1..4, '
         '6 families, MPS (random, rank-deficient, non-unit factor, complex) and MPO, 180/3000 sequences of 8/12 moves',
    technique='TLA+ gauge state machine (MpsCanon) + TLC + trace validation of recorded move sequences with measured guarantees')
CHECKS['C09'] = dict(level=MC, ref='4 C09',
    text='EnvCoherence.tla models the environment cache Env.F as a coherence protocol (entries with dependency vectors over site content versions; update / clear / derived precompute entries; '
         'Heff0/1/2 and measure are READS that must be fresh). Sweeps.tla writes the sweep schedules of dmrg_ (1site, 2site) and tdvp_ as the exact event sequences of the code; SweepsMC model-checks '
         'fresh reads for N<=4 x precompute (and the TDVP time budget). Binding without source change: class-level wrappers record every update_env_/clear_site_/Heff/measure call of every '
         'environment instance of real dmrg_ runs, site writes are inferred from content digests; TraceEnv.tla requires (a) no stale/missing read in any instance, (b) the cache events of the '
         'energy environment to be EXACTLY the schedule of Sweeps.tla for the methods used, (c) per-sweep relations on scaled energies (E_reported = <H> in the returned state, E >= E0 of the '
         'sector, no increase when nothing binds) and measured verdicts (normalised, canonical, same sector, converged untruncated run => eigenstate, penalty runs orthogonal and at the next level). Project lists mixing (penalty, state) tuples and bare states in either order must give a state orthogonal to every listed one at the next level. (d) the STOPPING RULE, modelled in TraceEnv (dmrg_stop): in iterator mode with energy_tol and / or Schmidt_tol the run goes on only while a given criterion is unmet and stops early only when ALL given criteria are met.',
    note='energies / norms / residuals / reference eigenvalues (numpy eigvalsh of the sector block of the dense H) are floating-point observations (2e-5 on energies); TLC decides the protocol and '
         'the relations. bounded: N=2..6, 5 families, single MPO and sums, D0 1..16, D_total 2/4/64, ncv 2/3/6, 1..4 sweeps with method switches; 48/700 runs + 24/350 convergence/penalty runs '
         '(real and complex couplings). One open KNOWN FINDING (root cause in eigs, C18): a sweep raises the energy of a state that already is an eigenstate of the sector (canonical reproducer in every run)',
    technique='TLA+ cache-coherence protocol (EnvCoherence) + sweep schedules (Sweeps) + TLC + trace validation of recorded real runs incl. exact schedule equality')
CHECKS['C10'] = dict(level=MC, ref='4 C10',
    text='Shares EnvCoherence / Sweeps with C09. Sweeps.tla writes _tdvp_sweep_1site_/2site_/12site_ as exact event sequences (12site threaded through the recorded enlarge_bond decisions, several '
         'sweeps per run: 2nd order = 1 sweep per step, 4th order = 5); SweepsMC model-checks, for N<=4 x precompute and EVERY 12site decision sequence, that all Heff reads are fresh and that the '
         'time budget of projector splitting holds (forward minus backward exponentials = 2 half steps per sweep, every site covered). Binding: real tdvp_ runs under the outside recorder; TraceEnv.tla '
         'requires coherence of every environment instance (replayed in chunks through the protocol state), exact schedule equality, snapshots tiling the time grid with steps*dt = tf-ti and dt <= requested, and the '
         'measured verdicts: norm and energy conserved (real time, time-independent Hermitian H), same charge sector, canonical form, unit norm with normalize, and on a maximal manifold equality with '
         'expm(-u t H) psi0 for real / imaginary / complex u, 2nd and 4th order, and for H(t) = (1+t) H0 (midpoint rule exact).',
    note='norm / energy / distance to scipy.linalg.expm reference are floating-point observations (1e-7..1e-8). "Maximal manifold" is decided by an independent path count (every admissible bond '
         'sector has D_q >= min(L_q, R_q)); exactness is claimed (all three methods) only if every bond is one-sided (L_q <= R_q for all q, or >= for all q): otherwise projector splitting keeps an '
         'O(dt^3) local error although the manifold is the whole sector (mathematics of the method; measured for 2site at seed 3: error 3.8e-6, 1.9e-6, 5.9e-7, 1.6e-7 for dt = 0.1 .. 0.0125; see DESIGN.md). convergence ORDER for non-commuting time-dependent generators is not measured. runs that '
         'take > 45 s (expmv caps ncv by the number of STORED elements, D=1 symmetric states make thousands of tiny steps) are skipped and counted. bounded: N=2..5, 5 families, 56/800 runs',
    technique='TLA+ cache-coherence protocol (EnvCoherence) + TDVP sweep schedules incl. all 12site decision sequences (Sweeps, SweepsMC) + TLC + trace validation of recorded tdvp_ runs')
CHECKS['C11'] = dict(level=MC, ref='4 C11',
    text='PepsOps.tla (on Fock.tla) defines a finite PEPS as the Fock vector returned by to_tensor() (occupied physical modes in the fermionic site order, ancilla labels as spectators, Gaussian-integer '
         'amplitudes) and ApplyOp / LinComb on it with every Jordan-Wigner sign from Fock!ApplyWord. Binding: random circuits of INTEGER gates on real finite PEPS (8 families, obc lattices up to 6 sites and '
         'cylinders, product states pure / one-dimensional ancillas / full purification); after every apply_gate_ (nearest-neighbour in both orientations and all four directions, exact and SVD split, local, '
         'two-site along longer paths, MPO gates of 2..4 sites along arbitrary paths) and every PEPS addition TracePeps.tla computes the expected vector from the REGISTERED previous one and requires '
         'equality entry by entry; DoublePepsTensor.tensordot must equal tensordot of fuse_layers() entry by entry for every supported axis pair, both operand orders, random transposition / operator / '
         'charge swaps. Chain-focus circuits apply genuine multi-site fermionic MPO gates (hopping chains on 3-4 site paths, straight and all corners) to states with odd ancilla charges. '
         'Predefined gates are compared as dense matrices with scipy expm(-step H), H being a combination of basis matrices each validated against Fock!Matrix by TLC; the same closed forms '
         'with the SpinfulFermions_tJ operators against the exponential projected on the space without double occupancy.',
    note='the expm comparison of the predefined gates is a floating-point observation (1e-10 relative); everything else is exact integer arithmetic in TLC. local gates are parity-even; a gate that annihilates '
         'the state ends the comparison at that step; purifications are limited to (2^nm)^(2N) <= 300 amplitudes. bounded: lattices up to 6 sites (4 spinful), 96/1200 circuits of 5/7 gates + 60/600 chain-focus circuits of 4 gates, 16/200 '
         'DoublePepsTensor instances x 12 contractions, 8/96 predefined-gate parameter sets per family (+3/36 for the t-J operators); a state whose bond dimension exceeds 32 is not continued',
    technique='TLA+ Fock-space reference semantics (Fock, PepsOps) + TLC + trace validation of recorded to_tensor() states of real gate circuits, replayed from registered states')
CHECKS['C18'] = dict(level=MC, ref='4 C18',
    text='Krylov.tla states the integer part of the expmv controller (accept / reject, basis kept / reset, clamps on tau and ncv, forced shrink); KrylovMC model-checks it against EVERY environment '
         '(monotone acceptance table, breakdown dimension, arbitrary proposals within what the formulas guarantee): no overshoot, ncv range, progress after every rejection, termination - and must FAIL '
         'progress for the pre-fix rule (this is how the non-termination repaired in 9c578d6 was found). Binding: a class-level wrapper of Tensor.expand_krylov_space reads the controller variables of the '
         'calling expmv frame at every iteration; TraceKrylov.tla requires every recorded iteration to be a controller transition (time advanced by exactly the step, basis kept iff rejected, clamps, forced '
         'shrink, PROGRESS) and steps / krylov_steps / info.ncv to follow from the iterations; a repeated controller state is reported as non-termination. expmv / eigs / lin_solver results are compared with '
         'scipy expm / numpy eig / true residuals on the dense matrix of the map restricted to the charge sector; TLC evaluates the implication structure (spans => exact; Hermitian and not spanning => bounds; '
         'no premature breakdown; residual is the true one and not above the initial one).',
    note='all dense comparisons are floating-point observations. expmv bound: (20 tol + 1e-13 (10 + map applications)) x condition number of the task, claims with bound > 1e-3 skipped; eigs statements that presume an '
         'orthonormal basis (interlacing, orthonormal Ritz vectors) only for ncv <= 15 (no re-orthogonalisation), numerically ambiguous breakdowns not claimed; three open known findings (breakdown drops a '
         'residual below tol; undetected breakdown in eigs; optimistic error estimate up to 2000 tol). calls needing > 4000 controller iterations are skipped and counted. bounded: sectors of dimension 2..120/200, '
         '80/420 maps x (7 expmv + 2 eigs + 2 lin_solver). A fourth open KNOWN FINDING: Hermitian Lanczos loses orthogonality in long recursions (canonical reproducer dim 40, ncv 40: second Ritz pair wrong although the space spans the sector)',
    technique='TLA+ controller model (Krylov, KrylovMC incl. liveness) + TLC + trace validation of controller iterations recorded from real expmv calls; measured verdicts against dense references')
CHECKS['C12'] = dict(level=MC, ref='4 C12',
    text='EnvCover.tla is the design-level account of WHY the environments of a finite open PEPS are exact: every environment object (CTM tensor, boundary MPS, NTU cluster) stands for a region of the '
         'lattice, held as a bag of sites; the recursions of EnvCTM.reset_/expand_outward_ and EnvBoundaryMPS.__init__ and the formulas of the measure functions are transcribed, and TLC (EnvCoverMC) shows on '
         'every lattice up to 4x4 that no site is ever counted twice, that every formula counts every site exactly once iff its tensors are exact, that exactness arrives after exactly max(Nx,Ny)-1 expansions, and '
         'which boundaries each set-up string provides. PepsMeasure.tla (on PepsOps / Fock) computes <psi|O|psi> and <psi|psi> of a registered integer Fock vector exactly, with every Jordan-Wigner sign. Binding '
         '(TracePepsEnv, traces recorded from the real code): (i) finite PEPS built by shallow integer circuits; every number returned by measure_1site / measure_nn / measure_2site / measure_nsite / measure_2x2 / '
         'measure_line / measure_nsite_exact of EnvBoundaryMPS (7 set-up strings, 4 opts_var), EnvCTM (expanded exactly the number of times the spec demands, and once more) and EnvBP (circuits on a spanning tree, tree '
         'bonds) must equal the exact rational; (ii) evolution_step_ with a non-binding truncation (6 NTU clusters, BP) must give, after ONE rescaling, exactly ApplyOp(gate, registered state), with truncation error '
         'within TolTrunc; (iii) every bond metric of the 6 NTU clusters (and BP) on every bond: Hermiticity defect and smallest eigenvalue against TolMetric; (iv) dependency probes: the set of PEPS tensors each CTM '
         'tensor (after k = 0..max expansions), boundary MPS and NTU metric really depends on equals the region / cluster of EnvCover; (v) CtmMoves.tla / CtmMovesMC: the moves of EnvCTM.update_ (h, v simultaneous; '
         'l, r, t, b sequential, column after column) as a coverage state machine - TLC explores EVERY sequence of moves on every lattice up to 4x4 (never a site outside its region or twice; the exact environment is '
         'the only fixed point; one sweep of the four sequential moves in ANY of the 24 orders gives complete coverage; the simultaneous pair needs max(Nx,Ny)-1 rounds) and ctmu events bind the NECESSARY direction: after update_(moves) '
         'from reset_(eye) on a generic PEPS a measured 1-site / nn value can be exact only if the formula counts every site once in the model coverage after these moves. (The converse was claimed at first and refuted by '
         'the implementation on 3x4 in the thorough tier: projectors are computed from the norm network as currently built and discard directions needed later - DESIGN 6.6.)',
    note='measured numbers enter as the Gaussian integer nearest to value * <psi|psi> (must be within 1e-8 relative), metric and truncation numbers in units of 1e-12 - floating-point observations; the expected values, '
         'signs, regions and clusters are computed by TLC. BP nn values only on tree bonds; EnvCTM as a truncation environment on finite lattices (bond_metric / update_bond_) is outside the statement and not '
         'exercised; sampling not covered. bounded: lattices 1x2..3x3, 2x4, 4x2, 1x5 (<= 9 modes; probes up to 4x5), 8 families, 48/640 states of up to ~100 amplitudes, <psi|psi> <= 2^26, ~25/60 measured operators per state. BpCover.tla / BpCoverMC: belief propagation as message passing on the entanglement graph in ANY order of single updates - on a forest never a double count and the only fixpoint is exact (1-site and tree-bond nn formulas count the entangled component once), a cycle double counts, a bond outside the forest inside one component double counts (quick: every graph of 1x3 and 2x2; thorough: every forest of 1x4, 2x3, 3x2, 1.25 M states); BP dependency probes: messages after k = 1..3 sweeps of update_ in the recorded order. A second open KNOWN FINDING: identically vanishing NTU metric (SVD-1 hair in a charged sector, canonical stored state)',
    technique='TLA+ coverage model of the environments (EnvCover, EnvCoverMC) + exact Fock-space expectation values (PepsMeasure) + TLC + trace validation of recorded measure / bond_metric / evolution_step_ calls and of dependency probes')
NA = {}
m = {"version": 1, "setup_cmd": "true",
     "hooks": {"guard": "YASTN_VERIF", "enable": "no source hooks so far: the harness wraps the public API from outside and imports yastn live from /repo (override: VERIF_REPO)",
               "baseline_off_cmd": "cd /repo && /venv/bin/python -m pytest -ra -q -p no:cacheprovider --timeout=900 --continue-on-collection-errors", "source_commits": [], "add_only": True},
     "engines": [{"name": "tlc", "path": "/verif/spec", "serves_properties": sorted(CHECKS), "kind_free_text": "TLA+ specifications checked with TLC 1.8 (exhaustive / simulate / batched trace validation)"},
                 {"name": "harness", "path": "/verif/harness", "serves_properties": sorted(CHECKS), "kind_free_text": "Python conformance harness: replays TLC behaviours into yastn, records traces from yastn for TLC"}],
     "checks": [], "not_applicable": []}
for p in props:
    i = p['id']
    if i in CHECKS:
        c = CHECKS[i]
        m['checks'].append({"property_id": i, "quick_cmd": "./check %s --tier quick" % i, "thorough_cmd": "./check %s --tier thorough" % i,
                            "evidence_file": "/verif/evidence/%s.json" % i, "replay_cmd_template": "./check %s --replay {path}" % i, "engine": "tlc",
                            "level_claimed": {"category": c['level'], "text": c['text'], "design_ref": "DESIGN.md section " + c['ref']},
                            "level_note": c['note'], "technique": c['technique']})
    else:
        m['not_applicable'].append({"property_id": i, "reason": NA.get(i, "check not built yet (construction in progress; see DESIGN.md section 9)")})
json.dump(m, open(os.path.join(V, 'MANIFEST.json'), 'w'), indent=1)
print('checks:', [c['property_id'] for c in m['checks']])
